"""Shared by the C03 and C19 checks: writer programs are run once with backend
interposition; before every backend write (and for byte prefixes of writes) the
crash image is materialised from the log, opened by the real reader in a child
process, observed, reopened twice, and the observation is judged by JlsCrashTrace."""
import json
import os
import random

import apicheck
import common as C
import progs
import runner


def crash_programs(rng, n, thorough, kind, ck=None):
    P = []
    for i in range(n):
        small = [t for t in progs.ALL_TYPES]
        p, model = progs.gen_writer_program(rng, i + 1, kind=kind, types=small, nsig=rng.choice([1, 1, 2, 3]), gaps=(i % 5 == 0), overlaps=False,
                                            omit=(i % 4 == 1), maxlen=6000 if thorough else 2500, late_defs=(i % 2 == 0), default_geometry_p=0.0,
                                            omit_p=0.15 if i % 4 == 1 else 0, twr=False)
        p["crash"] = {"bytes": "all" if (thorough and i % 4 == 0) else "some", "stride": 1 if thorough else (1 if i % 3 == 0 else 3), "all_max": 40,
                      "budget": 4000 if thorough else 500}
        # the closed file cut at chunk boundaries and around them (a truncated file: every link is final)
        p["ops"].append({"op": "truncscan", "file": "a", "count": 60 if thorough else 24, "seed": i + 1})
        # after a proper close: reading leaves every byte unchanged (C19, first clause)
        rd = progs.reader_ops(rng, model, nreads=6, with_defs=True)
        rd.insert(-1, {"op": "unchanged"})
        p["ops"] += rd
        p["model"] = progs.model_json(model)
        P.append(p)
    for nanno in [0, 3, 11, 40, 230] + ([rng.randint(1, 300) for _ in range(40)] if thorough else []):
        P.append(nofsr_program(rng, len(P) + 1, kind, thorough, nanno))
    # deep index pyramids on disk: the smallest geometry, two interleaved signals, enough samples for a level-2 (thorough:
    # level-3) index; an image after every complete backend write.  Repair has to resume the writer over several levels
    # here (jls_core_repair_fsr: replay, skip the chunk the level above already lists, descend).
    for k, total in enumerate([4200] + ([17000] if thorough else [])):
        lit = progs.lit
        ops = [{"op": "wopen", "twr": False}, {"op": "source", "id": 1, "name": lit("s"), "vendor": None, "model": None, "version": None, "serial": None}]
        for g, dt in ((1, "f32"), (2, "i16")):
            ops.append({"op": "signal", "id": g, "src": 1, "dt": dt, "rate": 1000, "spd": 32, "sdf": 16, "eps": 10, "sumdf": 10, "adf": 10, "udf": 10,
                        "name": lit("p%d" % g), "units": lit("u"), "base": 0, "tbase": 0})
        n1 = n2 = 0
        while n1 < total:
            m = rng.choice([100, 37, 64, 250])
            ops.append({"op": "fsr", "sig": 1, "id": n1, "n": m})
            n1 += m
            if n2 < total * 6 // 10:
                m2 = rng.choice([100, 64, 200])
                ops.append({"op": "fsr", "sig": 2, "id": n2, "n": m2})
                n2 += m2
        ops.append({"op": "wclose"})
        rd = [{"op": "ropen"}, {"op": "len", "sig": 1}, {"op": "len", "sig": 2}, {"op": "rd", "sig": 1, "start": 0, "n": n1},
              {"op": "rd", "sig": 2, "start": 0, "n": n2}, {"op": "unchanged"}, {"op": "rclose"}]
        nspd, nsdf, neps, nsum = progs.normalise("f32", 32, 16, 10, 10)
        P.append({"x": len(P) + 1, "kind": kind, "feat": ["deep-pyramid", "type-f32", "type-i16"], "ops": ops + rd,
                  "model": {"sigs": {"1": {"dt": "f32", "bits": 32, "norm": [nspd, nsdf, neps, nsum], "length": n1, "first": 0, "defined": True},
                                     "2": {"dt": "i16", "bits": 16, "norm": list(progs.normalise("i16", 32, 16, 10, 10)), "length": n2, "first": 0, "defined": True}}},
                  "crash": {"bytes": "none", "stride": 1, "all_max": 40, "budget": 6000}})
    # definitions directly followed by chunks of several KiB: a torn big chunk leaves a long tail behind a definition
    # that the open has already taken in before it looks for the last complete chunk
    for k in range(3 if thorough else 1):
        lit = progs.lit
        ops = [{"op": "wopen", "twr": False},
               {"op": "source", "id": 1, "name": lit("src1"), "vendor": None, "model": None, "version": None, "serial": None},
               {"op": "userdata", "meta": 1, "stype": 1, "data": ["rep", 4000 + 8 * k, 11 + k]},
               {"op": "source", "id": 3, "name": lit("src3"), "vendor": lit("v"), "model": None, "version": None, "serial": None},
               {"op": "userdata", "meta": 2, "stype": 1, "data": ["rep", 2500 + k, 12 + k]},
               {"op": "anno", "sig": 0, "ts": 5, "atype": 1, "group": 0, "stype": 1, "ybits": 0, "data": ["rep", 3000, 13 + k]},
               {"op": "source", "id": 7, "name": lit("src7"), "vendor": None, "model": None, "version": None, "serial": None},
               {"op": "userdata", "meta": 3, "stype": 1, "data": ["rep", 5000, 14 + k]},
               {"op": "wclose"},
               {"op": "truncscan", "file": "a", "count": 60, "seed": 77 + k},
               {"op": "ropen"}, {"op": "sources"}, {"op": "signals"}, {"op": "annos", "sig": 0, "t": 0}, {"op": "userdatas"}, {"op": "unchanged"}, {"op": "rclose"}]
        P.append({"x": len(P) + 1, "kind": kind, "feat": ["no-fsr", "def-then-big"], "ops": ops, "model": {"sigs": {}},
                  "crash": {"bytes": "step8", "stride": 1, "all_max": 40, "budget": 3000}})
    if ck is not None:
        # histories from the shape graph (spec/JlsShapes.tla): every combination of present / absent tracks
        import shapes
        for p, model in shapes.programs(ck, rng, kind + "-shape", thorough, 1500 if thorough else 70, x0=len(P)):
            p["crash"] = {"bytes": "some", "stride": 1, "all_max": 40, "budget": 1500 if thorough else 300}
            p["ops"].append({"op": "truncscan", "file": "a", "count": 24, "seed": p["x"]})
            rd = shapes.reader_ops(rng, model, nreads=4)
            rd.insert(-1, {"op": "unchanged"})
            p["ops"] += rd
            p["model"] = progs.model_json(model)
            P.append(p)
    return P


def nofsr_program(rng, x, kind, thorough, nanno):
    """A file without any FSR signal (progs.nofsr_writer_program).  The repairing open then has no FSR track to
    rebuild, and what it appends (END) must still land behind the last complete chunk."""
    p, model = progs.nofsr_writer_program(rng, x, kind, nanno)
    ts = model["anno_ts"]
    p["ops"].append({"op": "truncscan", "file": "a", "count": 60 if thorough else 24, "seed": x})
    p["ops"] += [{"op": "ropen"}, {"op": "sources"}, {"op": "signals"}, {"op": "annos", "sig": 0, "t": 0}, {"op": "annos", "sig": 0, "t": ts // 2},
                 {"op": "userdatas"}, {"op": "unchanged"}, {"op": "rclose"}]
    p["model"] = {"sigs": {}}
    p["crash"] = {"bytes": "some", "stride": 1 if nanno <= 40 else 7, "all_max": 40, "budget": 4000 if thorough else 300}
    return p


def classify(prog, ev):
    cls = []
    if ev.get("e") == "CrashObs":
        if ev.get("inplace") and ev.get("j", 0) > 0:
            cls.append("torn-inplace")
    return cls


def repair_model(ck, thorough):
    """tier B: the model of jls_core_repair_fsr (JlsRepair.tla on top of JlsWriter.tla) on every crash image of the
    writer model's chunk sequence, for two geometries"""
    sc = C.scratch()
    for name, geo, mx in (("a", (4, 2, 4, 2), 96 if thorough else 64), ("b", (6, 2, 6, 3), 150 if thorough else 90)):
        cfg = os.path.join(sc, "JlsRepairMC_%s.cfg" % name)
        open(cfg, "w").write("SPECIFICATION Spec\nCONSTANTS\n  Spd = %d\n  Sdf = %d\n  Eps = %d\n  Sumdf = %d\n  MaxSamples = %d\nINVARIANT Inv\nCHECK_DEADLOCK FALSE\n"
                             % (geo + (mx,)))
        r = C.tlc("JlsRepairMC", cfg, timeout=1500, heap="6g")
        if not ck.add_mc("JlsRepair spd=%d sdf=%d eps=%d sumdf=%d, %d samples (every crash image of the writer model's chunk sequence, last chunk attached or "
                         "not: the resumed writer lists and summarises every reachable block exactly once, every sample is found)" % (geo + (mx,)), r):
            ck.violation({"where": "model", "config": "JlsRepairMC-" + name, "invariant": r.violated, "reason": "JlsRepair.tla violates " + str(r.violated)})
        for inv in ("SomeAppended", "SomeDead"):
            cfg2 = os.path.join(sc, "JlsRepairMC_%s_%s.cfg" % (name, inv))
            open(cfg2, "w").write(open(cfg).read().replace("INVARIANT Inv", "INVARIANT " + inv))
            r2 = C.tlc("JlsRepairMC", cfg2, timeout=600, heap="4g", workers=2)
            if r2.violated != inv:
                raise C.ToolFailure("JlsRepairMC is vacuous: %s is not violated (%s)" % (inv, r2.violated))


def ts_repair_model(ck, thorough):
    """tier B: the model of jls_track_repair_pointers on annotation / UTC tracks (JlsTsRepair.tla on top of
    JlsTsWriter.tla) on every image of the track writer model's chunk sequence: crash images (last chunk attached
    or not) and truncations of the closed sequence"""
    sc = C.scratch()
    for df, mx in ((2, 12 if thorough else 9), (3, 30 if thorough else 14)) + (((4, 36),) if thorough else ()):
        cfg = os.path.join(sc, "JlsTsRepairMC_%d.cfg" % df)
        open(cfg, "w").write("SPECIFICATION Spec\nCONSTANTS\n  Df = %d\n  MaxN = %d\nINVARIANT Inv\nCHECK_DEADLOCK FALSE\n" % (df, mx))
        r = C.tlc("JlsTsRepairMC", cfg, timeout=1500, heap="4g")
        if not ck.add_mc("JlsTsRepair decimate factor %d, <= %d entries (every image of the annotation / UTC track writer model: stop after any chunk with the "
                         "last chunk attached or not, and every truncation of the closed track: after the pointer repair no link leads to a chunk the file "
                         "does not hold, every linked chunk is still listed, index entries lead to listed chunks)" % (df, mx), r):
            ck.violation({"where": "model", "config": "JlsTsRepairMC df=%d" % df, "invariant": r.violated, "reason": "JlsTsRepair.tla violates " + str(r.violated)})
        if df == 2:
            for inv in ("SomeCut", "SomeHeadCleared", "SomeDescend"):
                cfg2 = os.path.join(sc, "JlsTsRepairMC_%d_%s.cfg" % (df, inv))
                open(cfg2, "w").write(open(cfg).read().replace("INVARIANT Inv", "INVARIANT " + inv))
                r2 = C.tlc("JlsTsRepairMC", cfg2, timeout=600, heap="4g", workers=2)
                if r2.violated != inv:
                    raise C.ToolFailure("JlsTsRepairMC is vacuous: %s is not violated (%s)" % (inv, r2.violated))


def ts_repair_conformance(ck, trace, prop):
    nrep = sum(1 for l in open(trace) if l.startswith('{"e":"TsRepSeq"'))
    if nrep == 0:
        ck.log("tier-B conformance with JlsTsRepair.tla: no image qualified")
        return
    v = C.validate_trace_parallel("JlsTsRepairTrace", "JlsTsRepairTrace.cfg", trace, parts=12, timeout=2400, heap="4g")
    ck.log("tier-B conformance with JlsTsRepair.tla: %d images (links of an annotation / UTC track before / after the repairing open), %d differ from the model" % (nrep, len(v.rejections)))
    ck.cov["ts_repair_images_compared"] = nrep
    if v.rejections:
        ck.cov["design_conformance"] = "drift"
        print("MODEL-DRIFT property=%s %d image(s): the repairing open did not leave the links of JlsTsRepair.tla (first: execution %s line %s: %s)"
              % (prop, len(v.rejections), v.rejections[0][0], v.rejections[0][1], v.rejections[0][2]))


def repair_conformance(ck, trace, prop):
    nrep = sum(1 for l in open(trace) if l.startswith('{"e":"RepSeq"'))
    if nrep == 0:
        ck.log("tier-B conformance with JlsRepair.tla: no image qualified")
        return
    v = C.validate_trace_parallel("JlsRepairTrace", "JlsRepairTrace.cfg", trace, parts=12, timeout=2400, heap="4g")
    ck.log("tier-B conformance with JlsRepair.tla: %d crash images (FSR chunk sequence before / after the repairing open), %d differ from the model" % (nrep, len(v.rejections)))
    ck.cov["repair_images_compared"] = nrep
    if v.rejections:
        ck.cov["design_conformance"] = "drift"
        print("MODEL-DRIFT property=%s %d crash image(s): the repairing open did not produce the chunk sequence of JlsRepair.tla (first: execution %s line %s: %s)"
              % (prop, len(v.rejections), v.rejections[0][0], v.rejections[0][1], v.rejections[0][2]))


def run_crash(ck, P, tag, in_scope):
    for p_ in P:
        if p_.get("crash"):
            p_["crash"]["repseq"] = True
    trace, abnormal = runner.run_programs(P, seed=C.seed(), tag=tag, per_program_timeout=300)
    nev = sum(1 for _ in open(trace))
    nobs = sum(1 for l in open(trace) if l.startswith('{"e":"CrashObs"'))
    ck.log("executed %d writer programs: %d events, %d crash images opened by the real reader, %d abnormal driver termination(s)" % (len(P), nev, nobs, len(abnormal)))
    v = C.validate_trace_parallel("JlsCrashTrace", "JlsCrashTrace.cfg", trace, parts=12, timeout=3000, heap="4g")
    ck.log("trace validation: %d/%d events consumed, %d rejection(s)" % (v.consumed, v.total, len(v.rejections)))
    byx = {p["x"]: p for p in P}
    lines = open(trace).read().split("\n") if v.rejections else []
    sc = C.scratch()
    other = 0
    for (ex, line, why) in v.rejections:
        evj = json.loads(lines[line - 1])
        prog = byx[ex]
        prop = apicheck.REASON_PROP.get(why, "?")
        if why.startswith("opening a crash image did not terminate normally"):
            prop = "C03"
        if why.startswith("abnormal termination"):
            prop = "C10"
        if prop == "?":
            prop = in_scope[0] if isinstance(in_scope, (list, tuple)) else sorted(in_scope)[0]   # a reason nobody claims is never dropped
        if prop not in in_scope:
            other += 1
            continue
        descr = {"where": "implementation", "execution": ex, "reason": why, "event_kind": evj.get("e"), "k": evj.get("k"), "j": evj.get("j"),
                 "inplace": bool(evj.get("inplace")), "torn": bool(evj.get("j", 0) > 0), "during": evj.get("during"), "rc": evj.get("rc"),
                 "feat": prog.get("feat", []), "class": "", "cls": apicheck.classify(prog, evj) if evj.get("e") != "CrashObs" else []}
        if evj.get("e") == "CrashObs":
            # which signal is affected, and can it have blocks that exist only as summaries?
            sigs = (prog.get("model") or {}).get("sigs", {})
            bad = [e_ for e_ in evj.get("sigs", []) if e_.get("lrc") or e_.get("rrc") or not e_.get("runs") and e_.get("len", 0) > 0
                   or any(not r_["c"] for r_ in e_.get("runs", []))]
            descr["bad_sigs"] = [(e_["sig"], (sigs.get(str(e_["sig"])) or {}).get("dt")) for e_ in bad]
            if bad and all(((sigs.get(str(e_["sig"])) or {}).get("bits", 99) <= 8) or ("omit" in prog.get("feat", [])) for e_ in bad):
                descr["cls"].append("repair-with-omitted-block")
        for c in descr["cls"] or [""]:
            d2 = dict(descr)
            d2["class"] = c
            if ck.match_known(d2) is not None:
                descr = d2
                break
        pf = os.path.join(sc, "%s_prog_%d.json" % (tag, ex))
        json.dump(prog, open(pf, "w"))
        ef = os.path.join(sc, "%s_obs_%d_%d.json" % (tag, ex, line))
        open(ef, "w").write(lines[line - 1])
        ck.violation(descr, [pf, ef])
    if other:
        ck.log("%d rejection(s) belong to other properties' checks" % other)
    ck.cov["traces_validated_against_impl"] += nobs - len([r for r in v.rejections if "CrashObs" in lines[r[1] - 1][:20]])
    ck.cov["evaluations"] += nobs
    return trace, v, nobs
