"""Seeded generators of driver programs (writer sessions followed by reader
sessions).  A program is data: {"x", "kind", "feat":[...], "ops":[...]}.
'feat' names the input classes a program contains, so that a rejection can be
matched against known_findings.json by class."""
import random

ALL_TYPES = ["u1", "u4", "u8", "u16", "u32", "u64", "i4", "i8", "i16", "i32", "i64", "f32", "f64"]
TYPES24 = ["u24", "i24"]
WIDTH = {"u1": 1, "u4": 4, "u8": 8, "u16": 16, "u24": 24, "u32": 32, "u64": 64, "i4": 4, "i8": 8, "i16": 16, "i24": 24,
         "i32": 32, "i64": 64, "f32": 32, "f64": 64}


def normalise(dt, spd, sdf, eps, sumdf):
    """What jls_core_signal_def_align makes of a definition (used by generators only to
    aim at block/entry boundaries; the oracle is SigDef.tla, not this function)."""
    w = WIDTH[dt]
    defaults = {64: (8192, 128, 640, 20), 32: (8192, 128, 640, 20), 16: (16384, 256, 1280, 20), 8: (32768, 1024, 640, 20),
                4: (65536, 1024, 1280, 20), 1: (65536, 1024, 1280, 20)}.get(w)
    if defaults:
        spd = spd or defaults[0]
        sdf = sdf or defaults[1]
        eps = eps or defaults[2]
        sumdf = sumdf or defaults[3]
    mult = 256 // w
    sdf = max(sdf, 10)
    sdf = ((sdf + mult - 1) // mult) * mult
    spd = max(spd, 10)
    eps = max(eps, 10)
    sumdf = max(sumdf, 10)
    eps = ((eps + sumdf - 1) // sumdf) * sumdf
    spd = ((spd + sdf - 1) // sdf) * sdf
    epd = spd // sdf
    while eps != (eps // epd) * epd:
        epd -= 1
    spd = sdf * epd
    return spd, sdf, eps, sumdf


def small_geometry(rng, dt):
    """definitions that give several summary levels within a few thousand samples"""
    w = WIDTH[dt]
    mult = max(1, 256 // w)
    sdf = mult * rng.choice([1, 1, 1, 2]) if mult >= 10 else rng.choice([10, 16, 16, 24, 32])
    spd = sdf * rng.choice([1, 2, 2, 3, 5, 10])
    eps = rng.choice([10, 10, 20, 30, 40])
    sumdf = rng.choice([10, 10, 10, 20])
    return spd, sdf, eps, sumdf


def ramp_limit(dt):
    """largest M such that i mod M is representable (non-negative) in the type"""
    w = WIDTH[dt]
    if dt.startswith("f"):
        return 1 << 20
    return (1 << (w - 1)) if dt.startswith("i") else (1 << min(w, 30))


def lit(s):
    return ["lit", s]


def gen_writer_program(rng, x, kind="mixed", types=None, nsig=None, twr=False, maxlen=6000, gaps=False, overlaps=False,
                       omit=False, annos=True, utc=True, userdata=True, late_defs=True, default_geometry_p=0.1,
                       big_strings=False, gens=None, allow_odd_u4=False, omit_p=0.06):
    """One writer session + close + lift of the write log.  Returns (program, model) where model
    holds what the generator knows about each signal (for composing reader ops)."""
    types = types or ALL_TYPES
    ops = [{"op": "wopen", "twr": twr}]
    feat = set()
    nsrc = rng.randint(1, 3)
    src_ids = rng.sample([1, 2, 3, 7, 100, 254, 255], nsrc)
    for sid in src_ids:
        ops.append({"op": "source", "id": sid, "name": lit("src%d" % sid),
                    "vendor": rng.choice([None, lit(""), lit("vendor"), ["rep", rng.randint(21, 200), rng.randint(1, 10 ** 6)]]),
                    "model": rng.choice([None, lit("m-1"), ["rep", 40, rng.randint(1, 10 ** 6)]]),
                    "version": rng.choice([None, lit("1.2.3")]), "serial": rng.choice([None, lit("sn-%d" % sid)])})
    nsig = nsig or rng.randint(1, 3)
    sig_ids = rng.sample([1, 2, 3, 5, 17, 200, 255], nsig)
    sigs = {}
    for k, g in enumerate(sig_ids):
        dt = rng.choice(types)
        if rng.random() < default_geometry_p:
            spd = sdf = eps = sumdf = 0
            feat.add("default-geometry")
        else:
            spd, sdf, eps, sumdf = small_geometry(rng, dt)
        base = rng.choice([0, 0, 0, 1000, -500, 123456789012, -98765432109876])
        first = base + rng.choice([0, 0, 0, 3, -2, 17, 100])
        nspd, nsdf, neps, nsumdf = normalise(dt, spd, sdf, eps, sumdf)
        total = rng.choice([0, 1, nsdf - 1, nsdf, nsdf + 1, nspd, nspd + 1, 3 * nspd + 7]) if rng.random() < 0.15 else rng.randint(nsdf, max(nsdf + 1, min(maxlen, nspd * neps // max(1, nspd // nsdf) * 3 + 50)))
        if spd == 0:
            total = rng.randint(nsdf, 3 * nspd)
        elif rng.random() < 0.2:
            # just after a level-1 / level-2 / level-3 summary chunk filled up
            c1 = neps * nsdf
            c = rng.choice([c1, c1 * nsumdf, c1 * nsumdf, c1 * nsumdf * nsumdf])
            if c <= maxlen * 6:
                total = c * rng.choice([1, 1, 2]) + rng.choice([0, 1, nsdf - 1, nsdf, nspd, nspd + 1, nspd + nsdf + 1])
        sigs[g] = {"id": g, "src": rng.choice(src_ids), "dt": dt, "spd": spd, "sdf": sdf, "eps": eps, "sumdf": sumdf,
                   "adf": rng.choice([0, 10, 10, 12, 100]), "udf": rng.choice([0, 10, 10, 15, 100]),
                   "rate": rng.choice([1000, 1, 48000, 2000000, 1000000000]), "base": base, "tbase": rng.choice([0, 1700000000 * (1 << 30)]),
                   "next": first, "first": first, "end": first + total, "norm": (nspd, nsdf, neps, nsumdf),
                   "defined": False, "nanno": 0, "nutc": 0, "written": 0, "anno_ts": first, "utc_id": first, "utc_t": 0,
                   # fixed-point position of integer types (part of the data type word; the stored samples are the same bits)
                   "q": rng.choice([0, 0, 0, 0, 3, 8, 252]) if not dt.startswith("f") else 0,
                   "gen": rng.choice([g_ for g_ in gens if g_[0] != "ramp" or g_[1] <= ramp_limit(dt)]) if gens
                          else (["bpat", rng.choice([0x10, 0x31, 0x73, 0xF5, 0x55, 0xAA, 0x01, 0x80, 0x33, rng.randint(0, 255)])]
                                if WIDTH[dt] <= 8 and rng.random() < 0.3 else ["rnd"])}
    pending = list(sig_ids)
    # define at least one signal before data; others possibly later
    def define(g):
        s = sigs[g]
        ops.append({"op": "signal", "id": g, "src": s["src"], "dt": s["dt"], "rate": s["rate"], "spd": s["spd"], "sdf": s["sdf"],
                    "eps": s["eps"], "sumdf": s["sumdf"], "adf": s["adf"], "udf": s["udf"], "q": s["q"],
                    "name": lit("sig%d" % g) if not big_strings else ["rep", rng.choice([0, 1, 300, 70000]), g],
                    "units": rng.choice([None, lit("V"), lit("")]), "base": s["base"], "tbase": s["tbase"]})
        s["defined"] = True
    define(pending.pop(0))
    if not late_defs:
        while pending:
            define(pending.pop(0))
    nud = 0
    steps = 0
    while True:
        steps += 1
        live = [g for g in sig_ids if sigs[g]["defined"] and sigs[g]["next"] < sigs[g]["end"]]
        if not live and not pending:
            break
        if pending and (not live or rng.random() < 0.15):
            define(pending.pop(0))
            feat.add("late-def")
            continue
        g = rng.choice(live)
        s = sigs[g]
        r = rng.random()
        w = WIDTH[s["dt"]]
        if r < 0.70:
            remaining = s["end"] - s["next"]
            nspd = s["norm"][0]
            n = rng.choice([1, 2, 3, 7, 8, 9, 15, 16, 17, nspd - 1, nspd, nspd + 1, 2 * nspd + 3, rng.randint(1, max(1, 3 * nspd)),
                            rng.randint(1, max(1, remaining))])
            n = max(1, min(n, remaining))
            idv = s["next"]
            if gaps and rng.random() < 0.12 and s["written"]:
                gap = rng.choice([1, 2, 7, s["norm"][1] - 1, s["norm"][1], nspd - 1, nspd, nspd + 1, 2 * nspd + 5])
                idv += gap
                s["end"] += gap
                feat.add("gap")
                feat.add("gap-" + s["dt"])
            elif overlaps and rng.random() < 0.12 and s["written"]:
                ov = rng.choice([1, 2, 3, 4, 8, 16, n, n + 5, rng.randint(1, max(1, min(s["written"], 40)))])
                ov = min(ov, s["next"] - s["first"])
                if w == 4 and ov % 2 == 1 and ov < n and not allow_odd_u4:
                    ov += 1
                    ov = min(ov, s["next"] - s["first"])
                    if ov % 2 == 1:
                        ov -= 1
                if ov > 0:
                    idv -= ov
                    feat.add("overlap")
                    feat.add("overlap-" + s["dt"])
            ops.append({"op": "fsr", "sig": g, "id": idv, "n": n, "gen": s["gen"]})
            s["next"] = max(s["next"], idv + n)
            s["written"] += n
        elif r < 0.80 and annos:
            s["anno_ts"] += rng.choice([0, 0, 1, 1, 5, 100])
            stype = rng.choice([1, 1, 2, 3])
            ops.append({"op": "anno", "sig": g if rng.random() < 0.85 else 0, "ts": s["anno_ts"] if True else 0,
                        "atype": rng.choice([0, 1, 2, 3]), "group": rng.choice([0, 0, 1, 255]), "stype": stype,
                        "ybits": rng.choice([0, 0x3f800000, 0x7fc00000, 0xc2280000]),
                        "data": ["rep", rng.choice([0, 1, 5, 33, 200]), rng.randint(1, 10 ** 6)] if stype == 1 else lit("a%d" % steps)})
            if ops[-1]["sig"] == 0:
                ops[-1]["ts"] = steps          # global annotation track: its own increasing time
                feat.add("anno-sig0")
            s["nanno"] += 1
        elif r < 0.88 and utc:
            s["utc_id"] += rng.choice([1, 10, 100, 1000])
            s["utc_t"] += rng.choice([0, 1000, 50000, 1 << 20])
            ops.append({"op": "utc", "sig": g, "id": s["utc_id"], "t": s["tbase"] + s["utc_t"]})
            s["nutc"] += 1
        elif r < 0.94 and userdata:
            stype = rng.choice([1, 2, 3])
            ops.append({"op": "userdata", "meta": rng.choice([0, 1, 5, 0x123, 0xfff]), "stype": stype,
                        "data": ["rep", rng.choice([0, 1, 7, 8, 9, 100, 1000]), rng.randint(1, 10 ** 6)] if stype == 1 else lit("ud%d" % steps)})
            nud += 1
        elif omit:
            ops.append({"op": "omit", "sig": g, "en": rng.choice([0, 1, 1])})
            feat.add("omit")
        if omit and rng.random() < omit_p:
            ops.append({"op": "omit", "sig": g, "en": rng.choice([0, 1, 1])})
            feat.add("omit")
        if rng.random() < 0.04:
            ops.append({"op": "flush"})
            feat.add("flush")
        if steps > 400:
            break
    ops.append({"op": "wclose"})
    model = {"sigs": sigs, "nud": nud}
    for g in sig_ids:
        s = sigs[g]
        feat.add("type-" + s["dt"])
        length = s["next"] - s["first"] if s["written"] else 0
        s["length"] = length
        if 0 < length < s["norm"][1]:
            feat.add("shorter-than-entry")
        if s["written"] == 0 and s["defined"]:
            feat.add("empty-signal")
    return {"x": x, "kind": kind, "feat": sorted(feat), "ops": ops}, model


def nofsr_writer_program(rng, x, kind, nanno):
    """A writer session without any FSR signal: sources, annotations on signal 0 (the global annotation track; more
    than 100 of them build index levels), user data, flushes.  Returns (program, model) like gen_writer_program."""
    ops = [{"op": "wopen", "twr": False}]
    for sid in rng.sample([1, 2, 3, 255], rng.randint(0, 2)):
        ops.append({"op": "source", "id": sid, "name": lit("src%d" % sid), "vendor": None, "model": None, "version": None, "serial": None})
    ts = 0
    nud = 0
    for k in range(nanno):
        ts += rng.choice([0, 1, 1, 5, 100])
        stype = rng.choice([1, 1, 2, 3])
        ops.append({"op": "anno", "sig": 0, "ts": ts, "atype": rng.choice([0, 1, 2, 3]), "group": rng.choice([0, 0, 1, 255]), "stype": stype,
                    "ybits": rng.choice([0, 0x3f800000]),
                    "data": ["rep", rng.choice([0, 1, 5, 33, 200]), rng.randint(1, 10 ** 6)] if stype == 1 else lit("a%d" % k)})
        if rng.random() < 0.15:
            st = rng.choice([1, 2, 3])
            ops.append({"op": "userdata", "meta": rng.choice([0, 1, 5, 0x123, 0xfff]), "stype": st,
                        "data": ["rep", rng.choice([0, 1, 7, 100, 1000]), rng.randint(1, 10 ** 6)] if st == 1 else lit("ud%d" % k)})
            nud += 1
        if rng.random() < 0.05:
            ops.append({"op": "flush"})
    ops.append({"op": "wclose"})
    prog = {"x": x, "kind": kind, "feat": ["no-fsr", "anno-sig0"] + (["anno-levels"] if nanno > 100 else []), "ops": ops}
    return prog, {"sigs": {}, "nud": nud, "anno_ts": ts}


def reader_ops(rng, model, nreads=12, stats=False, with_defs=True):
    """A reader session mixing signals and windows aimed at block/byte/entry edges."""
    ops = [{"op": "ropen"}]
    sigs = model["sigs"]
    ids = [g for g in sigs if sigs[g]["defined"]]
    if with_defs:
        ops += [{"op": "sources"}, {"op": "signals"}]
        for g in ids:
            ops.append({"op": "signal1", "id": g})
    for g in ids:
        ops.append({"op": "len", "sig": g})
    for _ in range(nreads):
        if not ids:
            break
        g = rng.choice(ids)
        s = sigs[g]
        L = s["length"]
        if L <= 0:
            ops.append({"op": "rd", "sig": g, "start": 0, "n": rng.choice([0, 1])})
            continue
        nspd, nsdf = s["norm"][0], s["norm"][1]
        edges = [0, 1, 7, 8, 9, nsdf - 1, nsdf, nsdf + 1, nspd - 1, nspd, nspd + 1, 2 * nspd - 1, 2 * nspd, L - 1, L - 2, L - 9, L // 2]
        st = rng.choice(edges) if rng.random() < 0.7 else rng.randint(0, L - 1)
        st = max(0, min(st, L - 1))
        ln = rng.choice([1, 2, 3, 7, 8, 9, 16, 17, nsdf, nspd, nspd + 1, 2 * nspd + 3, L - st, L - st, rng.randint(1, L - st)])
        ln = max(1, min(ln, L - st))
        ops.append({"op": "rd", "sig": g, "start": st, "n": ln})
    for g in ids:
        s = sigs[g]
        if s["nanno"]:
            ops.append({"op": "annos", "sig": g, "t": rng.choice([-(10 ** 6), 0, 1, 50, s["anno_ts"] - s["first"], 10 ** 7])})
        if s["nutc"]:
            ops.append({"op": "utcs", "sig": g, "id": rng.choice([-(10 ** 6), 0, 1, 500, 10 ** 7])})
    ops.append({"op": "annos", "sig": 0, "t": 0})
    ops.append({"op": "userdatas"})
    ops.append({"op": "rclose"})
    return ops


def model_json(model):
    """the part of the generator's model that known-finding classification needs"""
    out = {"sigs": {}}
    for g, s in model["sigs"].items():
        out["sigs"][str(g)] = {"dt": s["dt"], "bits": WIDTH[s["dt"]], "norm": list(s["norm"]), "length": s.get("length", 0),
                               "first": s["first"] - s["base"], "defined": s["defined"]}
    return out


def gen_defs_program(rng, x, big=False):
    """C13: definitions and user data, with duplicates, missing sources, data for
    undefined signals, long strings, large user data, late definitions."""
    ops = [{"op": "wopen"}]
    feat = set()
    good_ids = [1, 2, 3, 100, 254, 255]
    bad_ids = [256, 257, 65535]
    defined_src = {0}
    defined_sig = {0: "f32"}

    def strspec(maxlen=60):
        r = rng.random()
        if r < 0.12:
            return None
        if r < 0.22:
            return ["lit", ""]
        if r < 0.6:
            return ["lit", rng.choice(["a", "name", "x-y_z.1", "0123456789012345678", "01234567890123456789"])]
        if big and r < 0.7:
            feat.add("big-string")
            return ["rep", rng.choice([1048574, 1048575, 1048576, 1048577, 1048578, 2100000, 65536]), rng.randint(1, 10 ** 6)]
        return ["rep", rng.choice([21, 22, 64, 200, 1000, maxlen]), rng.randint(1, 10 ** 6)]

    nsteps = rng.randint(6, 22)
    for step in range(nsteps):
        r = rng.random()
        if r < 0.3:
            sid = rng.choice(good_ids) if rng.random() < 0.8 else rng.choice(bad_ids + [0])
            if sid in defined_src:
                feat.add("dup-source")
            if sid >= 256:
                feat.add("bad-source-id")
            ops.append({"op": "source", "id": sid, "name": strspec(), "vendor": strspec(), "model": strspec(), "version": strspec(), "serial": strspec()})
            if sid < 256:
                defined_src.add(sid)
        elif r < 0.6:
            gid = rng.choice(good_ids) if rng.random() < 0.8 else rng.choice(bad_ids + [0])
            src = rng.choice(sorted(defined_src)) if rng.random() < 0.75 else rng.choice(good_ids + bad_ids)
            dt = rng.choice(ALL_TYPES)
            st = rng.choice([0, 0, 0, 1])
            if src not in defined_src:
                feat.add("missing-source")
            if gid in defined_sig:
                feat.add("dup-signal")
            spd, sdf, eps, sumdf = rng.choice([(0, 0, 0, 0), small_geometry(rng, dt), (rng.choice([1, 9, 77, 1000, 100000]), rng.choice([1, 10, 33, 500]), rng.choice([1, 25, 640, 999]), rng.choice([1, 7, 20, 50]))])
            ops.append({"op": "signal", "id": gid, "src": src, "st": st, "dt": dt, "rate": rng.choice([0, 1, 1000, 48000]) if st == 0 else rng.choice([0, 100]),
                        "spd": spd, "sdf": sdf, "eps": eps, "sumdf": sumdf, "adf": rng.choice([0, 10, 100, 7]), "udf": rng.choice([0, 10, 100, 3]),
                        "name": strspec(), "units": strspec(20)})
            if gid < 256 and src in defined_src and src < 256 and gid not in defined_sig and (st == 1 or ops[-1]["rate"] != 0):
                defined_sig[gid] = dt if st == 0 else None
        elif r < 0.8:
            stype = rng.choice([1, 1, 2, 3])
            size = rng.choice([0, 1, 7, 8, 9, 100, 5000])
            if big and rng.random() < 0.3:
                size = rng.choice([1048575, 1048576, 1048577, 3000000])
                feat.add("big-userdata")
            ops.append({"op": "userdata", "meta": rng.choice([0, 1, 0x7ff, 0xfff, 0x1234, 0xffff]), "stype": stype,
                        "data": ["rep", size, rng.randint(1, 10 ** 6)] if stype == 1 else ["lit", "user-data-%d" % step]})
        else:
            # data for a signal: defined FSR ones get a few samples, undefined ones must be rejected
            cands = [g for g in defined_sig if defined_sig[g]]
            if cands and rng.random() < 0.6:
                g = rng.choice(cands)
                ops.append({"op": "fsr", "sig": g, "id": 0, "n": rng.choice([1, 10, 100]), "dt": defined_sig[g]})
                feat.add("data-for-defined")
            else:
                g = rng.choice([k for k in good_ids if k not in defined_sig] or [77])
                feat.add("data-for-undefined")
                ops.append(rng.choice([{"op": "fsr", "sig": g, "id": 0, "n": 10, "dt": "f32"},
                                       {"op": "anno", "sig": g, "ts": 0, "stype": 2, "data": ["lit", "x"]},
                                       {"op": "utc", "sig": g, "id": 0, "t": 0},
                                       {"op": "omit", "sig": g, "en": 1}]))
    ops.append({"op": "wclose"})
    ops += [{"op": "ropen"}, {"op": "sources"}, {"op": "signals"}]
    for g in sorted(set(list(defined_sig) + [5, 77])):
        ops.append({"op": "signal1", "id": g})
    ops += [{"op": "userdatas"}, {"op": "userdatas", "stop": 2}, {"op": "rclose"}]
    return {"x": x, "kind": "c13", "feat": sorted(feat), "ops": ops}


def anno_program(x, adf, tss, seeks, sig=1, base=0, first_off=0, rng=None, payload_big=False, stops=()):
    """annotations with timestamps tss (relative to base) on signal `sig` (0 = global VSR signal)"""
    ops = [{"op": "wopen"}, {"op": "source", "id": 1, "name": ["lit", "s"]}]
    if sig != 0:
        ops.append({"op": "signal", "id": sig, "src": 1, "dt": "f32", "rate": 1000, "adf": adf, "udf": 10,
                    "name": ["lit", "x"], "units": ["lit", "u"], "base": base})
        ops.append({"op": "fsr", "sig": sig, "id": base + first_off, "n": 100})
    for i, t in enumerate(tss):
        stype = (i % 3) + 1 if rng is None else rng.choice([1, 2, 3])
        if stype == 1:
            size = 0 if rng is None else rng.choice([0, 1, 7, 8, 9, 100, 3000])
            if payload_big and i % 97 == 5:
                size = rng.choice([1048575, 1048576, 1048577, 1500000])
            data = ["rep", size, x * 100003 + i]
        else:
            data = ["lit", "anno-%d-%d" % (x, i)]
        ops.append({"op": "anno", "sig": sig, "ts": base + t, "stype": stype, "atype": i % 4, "group": (i * 7) % 256,
                    "ybits": [0, 0x3f800000, 0x7fc00000, 0xc2280000][i % 4], "data": data})
    ops += [{"op": "wclose"}, {"op": "ropen"}]
    for t in seeks:
        # reader timestamps of an FSR signal are relative to its first sample id
        ops.append({"op": "annos", "sig": sig, "t": t - first_off if sig != 0 else t})
    for (t, k) in stops:
        ops.append({"op": "annos", "sig": sig, "t": t - first_off if sig != 0 else t, "stop": k})
    ops.append({"op": "rclose"})
    return {"x": x, "kind": "c11", "feat": ["adf-%d" % adf, "sig0" if sig == 0 else "fsr"], "ops": ops}


# largest |query id - anchor id| for which TLC's 32-bit integers hold the cross-multiplied single-entry test
SINGLE_ENTRY_REACH = {1000: 15, 48000: 240, 1000000: 120}


def utc_program(rng, x, count, udf, rate, base=0, tbase=0, first_off=0, nq=40, equal_times=False, anchor_off=None):
    """UTC entries with increasing ids (spacing <= 64) and increasing times (<= 4096 ticks/step),
    then jls_rd_utc from several ids and id<->time conversions inside, at anchors, before and after."""
    ops = [{"op": "wopen"}, {"op": "source", "id": 1, "name": ["lit", "s"]},
           {"op": "signal", "id": 1, "src": 1, "dt": "u8", "rate": rate, "adf": 10, "udf": udf, "name": ["lit", "x"], "units": ["lit", "u"],
            "base": base, "tbase": tbase},
           {"op": "fsr", "sig": 1, "id": base + first_off, "n": 64}]
    ids, ts = [], []
    i, t = first_off + (rng.choice([0, 0, 5, -40]) if anchor_off is None else anchor_off), rng.choice([0, 1000, -300])
    tps = {1073741824: 1, 268435456: 4, 16777216: 64, 1048576: 1024, 1000000000: 1}.get(rate, 1)
    for k in range(count):
        ids.append(i)
        ts.append(t)
        ops.append({"op": "utc", "sig": 1, "id": base + i, "t": tbase + t})
        step = rng.choice([1, 2, 3, 10, 33, 64])
        i += step
        drift = rng.choice([0, 0, 1, -1, 2]) if tps > 2 else 0
        dt = min(4096, max(1, step * tps + drift)) if tps * step <= 4096 else 4096
        t += 0 if (equal_times and rng.random() < 0.2) else dt
    ops += [{"op": "wclose"}, {"op": "ropen"}]
    api = lambda v: v - first_off        # reader ids are relative to the first sample id
    if ids:
        for q in sorted(set([ids[0] - 7, ids[0], ids[-1], ids[-1] + 1, ids[-1] + 50] + [rng.choice(ids) for _ in range(4)] + [rng.choice(ids) + 1 for _ in range(2)])):
            ops.append({"op": "utcs", "sig": 1, "id": api(q)})
        ops.append({"op": "utcs", "sig": 1, "id": api(rng.choice(ids)), "stop": 1})
        if not equal_times:
            qs = [ids[0] - 30, ids[0] - 1, ids[0], ids[0] + 1, ids[-1] - 1, ids[-1], ids[-1] + 1, ids[-1] + 40]
            qs += [rng.choice(ids) for _ in range(nq // 4)] + [rng.randint(ids[0] - 10, ids[-1] + 10) for _ in range(nq // 2)]
            if count == 1:
                reach = SINGLE_ENTRY_REACH.get(rate, 300)
                qs = [ids[0] + d for d in (-reach, -min(reach, 100), -7, -1, 0, 1, 9, min(reach, 250))]
            for q in qs:
                ops.append({"op": "i2t", "sig": 1, "id": api(q), "then_t2i": True})
            for tq in [ts[0] - 100, ts[0], ts[-1], ts[-1] + 77] + [rng.choice(ts) for _ in range(nq // 8)] + [rng.randint(ts[0], ts[-1] + 1) for _ in range(nq // 4)]:
                ops.append({"op": "t2i", "sig": 1, "t": tbase + tq})
    else:
        ops += [{"op": "utcs", "sig": 1, "id": 0}, {"op": "i2t", "sig": 1, "id": 5}, {"op": "t2i", "sig": 1, "t": tbase + 5}]
    ops.append({"op": "rclose"})
    return {"x": x, "kind": "c12", "feat": ["utc-%d" % count, "udf-%d" % udf, "rate-%d" % rate] + (["equal-times"] if equal_times else []), "ops": ops}


STAT_TYPES = ["u1", "u4", "u8", "u16", "u32", "u64", "i4", "i8", "i16", "i32", "i64", "f32", "f64"]


def stats_program(rng, x, dt, total, geometry=None, nreq=40, first=0, base=0, offset=0):
    """one signal of a structured stream (ramp / bit pattern) and statistics requests aimed at
    every summary level, unaligned starts/ends, windows ending at the last sample"""
    w = WIDTH[dt]
    if w == 1:
        gen = rng.choice([["bit", 2], ["bit", 3], ["bit", 5], ["bit", 7], ["ramp", 2]])
    elif dt == "i4":
        gen = rng.choice([["ramp", 7], ["ramp", 8], ["ramp", 5], ["bit", 3], ["bit", 11]])
    elif w == 4:
        gen = rng.choice([["ramp", 16], ["ramp", 7], ["ramp", 13], ["bit", 5]])
    elif dt == "i8":
        gen = rng.choice([["ramp", 127], ["ramp", 13], ["ramp", 7], ["bit", 9]])
    else:
        gen = rng.choice([["ramp", 251], ["ramp", 13], ["ramp", 7], ["ramp", 11], ["bit", 3], ["bit", 17], ["ramp", 100]])
    if offset:
        # the same ramp riding on a large offset (64-bit-summary types): mean / min / max are judged after subtracting
        # the offset, the deviation as it is - a variance computed as E[x^2] - E[x]^2 cancels catastrophically here
        gen = ["rampo", rng.choice([7, 11, 13, 100]), offset]
    spd, sdf, eps, sumdf = geometry or (small_geometry(rng, dt)[0], 0 if w <= 8 else 10, 10, 10)
    if geometry is None:
        spd, sdf, eps, sumdf = small_geometry(rng, dt)
        eps, sumdf = 10, 10
    nspd, nsdf, neps, nsum = normalise(dt, spd, sdf, eps, sumdf)
    if w <= 8 and 0 < total % nspd < 40:
        total += 40      # a tiny constant tail would be auto-omitted and end the execution at known finding C01-K1
    ops = [{"op": "wopen"}, {"op": "source", "id": 1, "name": ["lit", "s"]},
           {"op": "signal", "id": 1, "src": 1, "dt": dt, "rate": 1000, "spd": spd, "sdf": sdf, "eps": eps, "sumdf": sumdf,
            "name": ["lit", "st"], "units": ["lit", "u"], "base": base}]
    i = first
    while i < first + total:
        n = min(first + total - i, rng.choice([total, 100000, 65536, 9999, nspd, 1000]))
        ops.append({"op": "fsr", "sig": 1, "id": base + i, "n": n, "gen": gen})
        i += n
    ops += [{"op": "wclose"}, {"op": "ropen"}, {"op": "len", "sig": 1}]
    L = total
    steps = [1]
    m = nsdf
    while m <= L:
        steps.append(m)
        m *= nsum
    reqs = []
    for _ in range(nreq):
        k = rng.randrange(len(steps))
        lo = steps[k]
        hi = steps[k + 1] if k + 1 < len(steps) else L + 1
        incr = rng.choice([lo, lo + 1, max(lo, hi - 1), rng.randint(lo, max(lo, min(hi - 1, L)))])
        incr = max(1, min(incr, L))
        maxcnt = L // incr
        if maxcnt < 1:
            continue
        cnt = rng.choice([1, 1, 2, 3, 5, 25, 26, maxcnt, max(1, (25 * lo + incr - 1) // incr), rng.randint(1, maxcnt)])
        cnt = max(1, min(cnt, maxcnt, 200))
        span = incr * cnt
        start = rng.choice([0, 1, L - span, max(0, L - span - 1), rng.randint(0, L - span), (rng.randint(0, L - span) // nspd) * nspd])
        start = max(0, min(start, L - span))
        reqs.append((start, incr, cnt))
    for (s, inc, c) in reqs:
        ops.append({"op": "stats", "sig": 1, "start": s, "incr": inc, "cnt": c})
    ops.append({"op": "rclose"})
    return {"x": x, "kind": "c02", "feat": ["type-" + dt, "gen-" + gen[0], "levels-%d" % (len(steps) - 1)], "ops": ops,
            "model": {"sigs": {"1": {"dt": dt, "bits": w, "norm": [nspd, nsdf, neps, nsum], "length": L, "first": first}}}}
