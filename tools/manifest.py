#!/usr/bin/env python3
"""Regenerates MANIFEST.json from the table below (one source of truth)."""
import json
import os

ROOT = os.path.dirname(os.path.dirname(os.path.abspath(__file__)))

CHECKS = {
    "C08": dict(
        category="model_checking",
        text="TLC explores the complete state space of Mrb.tla (branch-by-branch transcription of jls_mrb_alloc/peek/pop with the "
             "FIFO/disjointness/in-bounds contract as ghost state) for capacities 13..24 (thorough: ..32) and every message size 0..capacity; "
             "every edge of the state graph for capacities 13,14,16 (thorough: ..20) is executed on the real jls_mrb_* with head/tail/count/returned "
             "offset compared to TLC's successor state, and those executions plus long seeded random executions on capacities up to 4096 are judged "
             "by the tier-A contract MrbContractTrace.tla (trace validation).",
        design_ref="DESIGN.md section 6 C08, section 12",
        note="Trusted: TLC; the 150-line driver harness/mrb_replay.c (guard bytes, FNV fingerprints of payload bytes); the contract's reading of "
             "'genuinely does not fit' (12 bytes of slack, consumer position as visible through the API).",
        technique="TLA+ model checking (TLC) of a transcription + state-graph replay into the C code + TLC trace validation against the contract",
    ),
}

NOT_YET = {}


def main():
    props = [json.loads(l)["id"] for l in open(os.path.join(ROOT, "properties.jsonl"))]
    checks = []
    for pid in props:
        if pid not in CHECKS:
            continue
        c = CHECKS[pid]
        checks.append({
            "property_id": pid,
            "quick_cmd": "./check %s --tier quick" % pid,
            "thorough_cmd": "./check %s --tier thorough" % pid,
            "evidence_file": "/verif/evidence/%s.json" % pid,
            "replay_cmd_template": "./check %s --replay {path}" % pid,
            "engine": "tlc",
            "level_claimed": {"category": c["category"], "text": c["text"], "design_ref": c["design_ref"]},
            "level_note": c["note"],
            "technique": c["technique"],
        })
    na = [{"property_id": p, "reason": NOT_YET.get(p, "check under construction in this round (see DESIGN.md section 6 for its design); not claimed until it runs clean")}
          for p in props if p not in CHECKS]
    m = {
        "version": 1,
        "setup_cmd": "true",
        "hooks": {
            "guard": "JLS_VERIF",
            "enable": "harness/build.sh verif|asan compiles /repo/src with -DJLS_VERIF=1 (plus -DJLS_VERIF_MRB_BUFFER_SIZE=<n> for the threaded-writer checks)",
            "baseline_off_cmd": "tools/baseline.sh",
            "source_commits": [],
            "add_only": True,
        },
        "engines": [
            {"name": "tlc", "path": "/opt/veriftools/tla/tla2tools.jar", "serves_properties": sorted(CHECKS),
             "kind_free_text": "TLC 1.8.0 explicit-state model checker: exhaustive checking of the /verif/spec modules and trace validation of recorded executions"},
        ],
        "checks": checks,
        "not_applicable": na,
        "notes": "Every check: ./check <ID> --tier quick|thorough; rebuilds the library objects from /repo's working tree into /verif/build, "
                 "scratch under /dev/shm (removed at exit). Known findings: known_findings.json (read-only for the checks).",
    }
    with open(os.path.join(ROOT, "MANIFEST.json"), "w") as f:
        json.dump(m, f, indent=1)
        f.write("\n")


if __name__ == "__main__":
    main()
