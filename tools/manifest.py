#!/usr/bin/env python3
"""Regenerates MANIFEST.json from the table below (one source of truth)."""
import json
import os

ROOT = os.path.dirname(os.path.dirname(os.path.abspath(__file__)))

CHECKS = {
    "C08": dict(
        category="model_checking",
        text="TLC explores the complete state space of Mrb.tla (branch-by-branch transcription of jls_mrb_alloc/peek/pop with the "
             "FIFO/disjointness/in-bounds contract as ghost state) for capacities 13..24 (thorough: ..32) and every message size 0..capacity; "
             "every edge of the state graph for capacities 13,14,16 (thorough: ..20) is executed on the real jls_mrb_* with head/tail/count/returned "
             "offset compared to TLC's successor state, and those executions plus long seeded random executions on capacities up to 4096 are judged "
             "by the tier-A contract MrbContractTrace.tla (trace validation).",
        design_ref="DESIGN.md section 6 C08, section 12",
        note="Trusted: TLC; the 150-line driver harness/mrb_replay.c (guard bytes, FNV fingerprints of payload bytes); the contract's reading of "
             "'genuinely does not fit' (12 bytes of slack, consumer position as visible through the API).",
        technique="TLA+ model checking (TLC) of a transcription + state-graph replay into the C code + TLC trace validation against the contract",
    ),
}

CHECKS["C14"] = dict(
    category="model_checking",
    text="Every backend write (offset, bytes) of every generated writer program - sync and threaded writer, several signals/types, gaps, omission, "
         "annotations/UTC/user data, late definitions - is recorded by link-time interposition of write/ftruncate/..., lifted from the bytes before/after "
         "it to (region, changed header fields, changed head-table entries and what they point at), and judged by TLC with JlsFile!WriteVerdict "
         "(JlsWriteOnceTrace.tla): appends only grow the file; in-place writes touch only item_next/item_prev/crc of a chunk header, or a track-head "
         "entry once from 0 to a complete DATA/INDEX chunk of that track, signal and level, or the file header at open/close; no truncation. "
         "JlsFileGen.tla model-checks that this discipline keeps content immutable. Besides the randomly generated programs, the writer histories come from the state graph of JlsShapes.tla (every combination of present / absent tracks and amount classes; TLC dumps the graph, tools/shapes.py turns paths that take the (shape, call) pairs into programs for the real library).",
    design_ref="DESIGN.md section 6 C14, section 12",
    note="Trusted: TLC; tools/lifter.py (decoder written from format.h with its own CRC-32C); harness/iowrap.c (records, never alters I/O); "
         "contiguous consecutive in-place writes are coalesced (payload+footer of a head-table rewrite is one logical write).",
    technique="TLC trace validation of the complete backend write log against a TLA+ write-discipline specification; TLC model checking of the discipline",
)
_API = ("Programs are generated (seeded), executed on the real library through a ctypes driver, and every API call's outcome is recorded at its return; "
        "TLC replays the trace through the JlsApi.tla contract (JlsApiTrace.tla, total style: every execution judged in one run). Sample data are "
        "pseudo-random per (write call, sample id); a read is projected to candidate runs (which write calls' data equal what was returned) and the "
        "specification - not the driver - decides which source each position must have. ")
CHECKS["C01"] = dict(
    category="model_checking",
    text=_API + "C01: all 15 data types (incl. 24-bit), minimal/default/large-block geometries (one block > 1 MiB), partitions incl. 1-sample and sub-byte-odd calls, "
         "first ids negative/large, several signals interleaved, windows aimed at byte/entry/block edges and the last sample; length and every window judged. "
         "JlsApiGen.tla model-checks the contract itself (segments well formed, ideal reader accepted for every window, wrong source rejected).",
    design_ref="DESIGN.md section 6 C01, section 12",
    note="Trusted: TLC; tools/jlsdrv.py (driver/projection; generator data are a function of (event, id)); u1 runs match a wrong sample with probability 2^-n.",
    technique="TLC trace validation of API executions against a TLA+ contract (candidate-run projection); TLC model checking of the contract",
)
CHECKS["C09"] = dict(
    category="model_checking",
    text=_API + "C09: programs with gaps (1 sample .. several blocks .. beyond the 32 KiB fill buffer) and overlaps (partial, total, odd/even sub-byte) for all types, "
         "sequences of several gaps/overlaps, windows across the seams: fill runs must be NaN/0, overlapped positions must carry the first-written data, "
         "length = last+1-first. JlsApiGen.tla explores all short append/skip/overlap histories of the contract. Stored level-1 summary entries of structured streams with gaps are lifted from the file: gap samples of float signals are absent, of integer signals zeros. Targeted sub-byte overlaps (lengths that are not whole bytes, around block boundaries) are always included.",
    design_ref="DESIGN.md section 6 C09, section 12",
    note="Trusted: as C01. The summary clause (gap samples absent from float summaries) is judged by C02's check.",
    technique="TLC trace validation of API executions against a TLA+ contract; TLC model checking of the contract's gap/overlap arithmetic",
)

CHECKS["C13"] = dict(
    category="model_checking",
    text=_API + "C13: definition/user-data programs with ids from {1,2,3,100,254,255} and invalid {0,256,257,65535}, duplicates, missing sources, "
         "data/annotation/UTC/omit calls for undefined signals, absent/empty/UTF-8/long strings (to > 2 MiB, around the 1 MiB string block), user data "
         "0 B..3 MB with 16-bit tags and all storage types; judged: return codes (accepted iff the contract says so), 'no backend I/O during a refused call', "
         "jls_rd_sources / jls_rd_signals / jls_rd_signal (normalised parameters computed by SigDef.tla) / jls_rd_user_data incl. stopped iteration. "
         "JlsApiDefs.tla model-checks the identity rules of the contract for all short call orders. Besides the randomly generated programs, the writer histories come from the state graph of JlsShapes.tla (every combination of present / absent tracks and amount classes; TLC dumps the graph, tools/shapes.py turns paths that take the (shape, call) pairs into programs for the real library).",
    design_ref="DESIGN.md section 6 C13, section 12",
    note="Trusted: as C01; strings/payloads are compared through 64-bit BLAKE2 tokens; a definition whose strings exceed the 1 MiB string block may be refused.",
    technique="TLC trace validation of API executions against a TLA+ contract; TLC model checking of the contract's identity rules",
)

CHECKS["C11"] = dict(
    category="model_checking",
    text="JlsTs.tla models the annotation index pyramid (commit on D entries, first entry propagated upwards, flush at close) and the descent of "
         "jls_core_ts_seek; TLC checks, for every non-decreasing timestamp sequence of <= 8 (thorough 10) entries over 4 values with D = 2 and 3 and every "
         "seek target, that the iteration is a contiguous tail holding every entry >= t and at most one earlier one. Every sequence of that state "
         "space is then written with the real library (decimation 2/3, FSR signal and signal 0) and read back from six targets, together with seeded "
         "larger programs (0..1100+ annotations, decimation 2,3,7,10,100/default, equal-timestamp runs across index chunks, offset ids, all storage "
         "types, payloads > 1 MiB, stopped iteration); " + _API.split('; TLC replays')[0].split('Programs are generated (seeded), ')[0] +
         "TLC judges every jls_rd_annotations outcome with JlsApi!RdAnnoVerdict (tokens over all annotation fields and bytes). Besides the randomly generated programs, the writer histories come from the state graph of JlsShapes.tla (every combination of present / absent tracks and amount classes; TLC dumps the graph, tools/shapes.py turns paths that take the (shape, call) pairs into programs for the real library).",
    design_ref="DESIGN.md section 6 C11, section 12",
    note="Trusted: as C01. The design model found the equal-timestamp seek defect (fixed, C11-F1).",
    technique="TLC model checking of the index/seek design + replay of its whole state space into the C code + TLC trace validation against the contract",
)

CHECKS["C12"] = dict(
    category="model_checking",
    text="JlsTs.tla (UTC configuration) checks that the level-1 seek + skip of jls_core_utc delivers exactly the pairs at or after the id for all strictly "
         "increasing id sequences of <= 11 entries, D = 2, 3; TmapMC.tla checks, for all maps of <= 6 anchors and all queries, that interp_i64's binary "
         "search (transcribed with its array reads) picks the segment the contract prescribes and stays inside the table. Programs with 0..2500 UTC entries "
         "(decimation 10/15/100/default, offsets, rates 2^20..2^30 and 10^9 Hz, irregular spacing, drift) are run on the real library; jls_rd_utc from "
         "ids before/at/between/after (also stopped) and id->time / time->id conversions (anchors exact, within one tick of the linear value on the "
         "prescribed segment, single-entry rate extrapolation, monotone across all queries of an execution, inverse within one sample) are judged by "
         "TLC with Tmap.tla in cross-multiplied integer arithmetic.",
    design_ref="DESIGN.md section 6 C12, section 12",
    note="Trusted: as C01. Ids/times are kept within 32-bit range relative to per-signal bases. Conversions are judged only for strictly increasing times.",
    technique="TLC model checking of seek and binary-search transcriptions + TLC trace validation against an integer-arithmetic contract",
)

CHECKS["C15"] = dict(
    category="model_checking",
    text="Two-run relational check decided by TLC: every generated stream (all types, omission toggled at arbitrary points, gaps in a quarter of the programs) "
         "is written twice by the real library - with its jls_wr_fsr_omit_data calls and without - and the trace must satisfy: both lengths equal the "
         "contract's, SUMMARY entries at every level (lifted from the bytes of both files, bit-exact tokens) are equal, the blocks whose level-1 index "
         "entry is 0 are exactly those the documented one-block delay prescribes (never block 0), stored blocks read back exactly and omitted ones with the "
         "right count; for u1/u4/u8/i4/i8, streams built from constant (0, all-ones, other) and non-constant blocks must read back bit-exactly at "
         "unaligned windows. JlsApiGen.tla model-checks omission in the contract (first block never released, length/sources independent of omission).",
    design_ref="DESIGN.md section 6 C15, section 12",
    note="Trusted: as C01 plus tools/lifter.py for the SUMMARY/INDEX payloads. Known finding C01-K1 (omitted final partial block shortens the length) is reported, not failed.",
    technique="TLC trace validation of paired executions (relational property) against a TLA+ contract; TLC model checking of the contract",
)

CHECKS["C02"] = dict(
    category="model_checking",
    text="Structured streams whose window statistics have closed forms (ramps i mod M, 0/1 patterns of period P) are written for every summarisable type with "
         "geometries giving 1..5 summary levels (quick: to 450k samples, thorough: 2.1M), and jls_rd_fsr_statistics is called with (start, increment, count) "
         "aimed at every level, unaligned to entries/blocks/summary chunks and ending at the last sample. Each returned {mean,std,min,max} is projected "
         "to integers (min/max, llround(mean*n), llround(std^2*100)) and TLC judges it in exact 32-bit-safe integer arithmetic (StatsContract.tla via "
         "JlsApi!RdStatsVerdict): single windows - min/max exact, n*mean within the stored precision, (d-1)/d*var <= std^2 <= var; multi-window - every entry "
         "within the extremes of its window widened by one increment, sum of means = exact range mean. StatsMC.tla model-checks the closed forms "
         "against their definitions and that exact statistics are accepted while those of a shifted window are rejected. Every stored FSR summary entry whose span is at most 4096 samples is also lifted from the bytes of each file and judged against the closed-form truth (exact min / max / mean and population variance at level 1; upper levels where nothing is missing).",
    design_ref="DESIGN.md section 6 C02, section 7, section 12",
    note="Trusted: as C01. Not decided: floating-point rounding on arbitrary values (no closed form); 64-bit types may refuse requests (level-0 statistics unsupported); "
         "24-bit types are not summarisable. The std clause is evaluated where n*(M-1) <= 46000.",
    technique="TLC trace validation against an exact-integer TLA+ contract for closed-form streams; TLC model checking of the oracle",
)

CHECKS["C05"] = dict(
    category="model_checking",
    text="Every file produced by generated programs - synchronous writer, threaded writer (real threads), jls_copy destinations - is decoded from its "
         "bytes by tools/lifter.py (written from format.h only, own CRC-32C) into a chunk list, and TLC evaluates on it JlsFormat!WellFormed (file header "
         "fields and length = size; forward walk by payload_length reaches END exactly at the end; backward walk by payload_prev_length; every header and "
         "payload CRC; 8-byte alignment; zero padding; item lists doubly linked, homogeneous in (list, tag, signal, level), one head and one tail each; track "
         "heads = first DATA/INDEX chunk per level; every INDEX immediately followed by its SUMMARY with the same timestamp; every FSR / annotation / UTC "
         "index entry leading to the chunk of the expected kind, signal, level and timestamp with the level's stride) and JlsFormat!Decodes (definitions as "
         "normalised by SigDef.tla, stored samples by candidate runs, annotations, UTC, user data = the content submitted through the API). "
         "JlsLinks.tla model-checks the writer's cached-tail list maintenance and head-table updates against the same Links/Heads predicates. Tier B: JlsWriter.tla (FSR writer: which DATA / INDEX / SUMMARY chunk is emitted when; plus the reader's index descent) and JlsTsWriter.tla (annotation / UTC tracks) are model-checked (tiling, index completeness, nothing pending after close, every sample found by the descent) and every produced file's chunk sequence is compared with them (JlsWriterTrace.tla; deviation = MODEL-DRIFT). Besides the randomly generated programs, the writer histories come from the state graph of JlsShapes.tla (every combination of present / absent tracks and amount classes; TLC dumps the graph, tools/shapes.py turns paths that take the (shape, call) pairs into programs for the real library).",
    design_ref="DESIGN.md section 6 C05, section 12",
    note="Trusted: TLC, tools/lifter.py, harness/crc_ref.c. SUMMARY values are judged by C02/C15 (here: structure). Repaired files are judged with the same "
         "predicates by the C03/C19 check.",
    technique="TLC evaluation of a TLA+ format specification on independently decoded files (trace validation) + TLC model checking of the list maintenance design",
)

CHECKS["C17"] = dict(
    category="model_checking",
    text="Generated files (several signals/types, offsets, gaps, overlaps, omission, annotations/UTC/user data interleaved, structured streams for "
         "statistics, payloads > 1 MiB) are copied with the real jls_copy. The destination is decoded from its bytes and must be a well-formed, properly "
         "closed file that decodes to the submitted content (JlsFormat!WellFormed / Decodes), and it is read through the API with the same request list "
         "as the source - definitions, lengths, windows, statistics, annotations, UTC, user data - all judged by TLC against the same abstract content "
         "(JlsApi contract), which is what 'reads back the same as from the original' means when both sides are held to one reference. User data sized at the edge of the copy buffer (2^20-4 .. 2^20+1, 2^21-2, 2^21) are included. Besides the randomly generated programs, the writer histories come from the state graph of JlsShapes.tla (every combination of present / absent tracks and amount classes; TLC dumps the graph, tools/shapes.py turns paths that take the (shape, call) pairs into programs for the real library).",
    design_ref="DESIGN.md section 6 C17, section 12",
    note="Trusted: as C01/C05. Known finding C17-K1 (blocks that exist only as summaries become gaps in the copy) is probed and reported. "
         "Unclosed originals are exercised by the crash-image corpus of the C03 check.",
    technique="TLC trace validation of source and copy against one TLA+ contract + TLC evaluation of the format specification on the copy's bytes",
)

CHECKS["C16"] = dict(
    category="model_checking",
    text="SigDef.tla transcribes signal_def_defaults + jls_core_signal_def_align (incl. the 'reduce until fits' loop as largest-divisor search and the "
         "accept/refuse rule) and states the relations the format relies on; TLC checks on a grid of 15 (thorough 31) values per parameter x widths "
         "{1,4,8,16,32,64} (3*10^5 .. 6*10^6 points) that the normalised parameters satisfy the relations, that normalising again changes nothing, and that "
         "zero fields take the per-width defaults. Every grid point, plus boundary values up to 2^30 and unrepresentable ones up to UINT32_MAX, is then fed to "
         "the real jls_core_signal_def_align once and twice (1.4*10^6 points quick); TLC checks each output row against the transcription, the relations, "
         "idempotence and the accept/refuse rule (SigDefTrace.tla). The file round trip (jls_rd_signal equals SigDef!Normalise) is judged in C13.",
    design_ref="DESIGN.md section 6 C16, section 7, section 12",
    note="Trusted: TLC. Inputs >= 2^31 are logged clipped (they only need to be refused). No SMT proof over the full bit-vector domain. "
         "Known finding C16-K1: 24-bit types (no defaults, 240-bit entries).",
    technique="TLC model checking of a TLA+ transcription on a parameter grid + replay of the whole grid into the C function + TLC validation of its outputs",
)

CHECKS["C18"] = dict(
    category="model_checking",
    text="Crc32c.tla defines CRC-32C from the reflected polynomial 0x82F63B78 (bit-serial update, byte table derived from it, init/final XOR); TLC checks the "
         "definition itself (check value of '123456789' = E3069283, table-driven = bit-serial for all 256 bytes on a spread of registers, split invariance). "
         "harness/crc_probe.c then calls the real jls_crc32c of BOTH builds compiled from the working tree (default SSE4.2; -DJLS_OPTIMIZE_CRC_DISABLE "
         "slicing-by-8) for ALL lengths 0..4096 x ALL start alignments 0..7 on seeded and single-bit contents (thorough: also zeros, ones, a second seed), "
         "jls_crc32c_hdr of both builds on 1000 seeded headers, and dumps the 8x256 software tables; TLC walks each buffer byte by byte (one state per "
         "byte, register derived from the polynomial) and judges every returned value, every header CRC and every table entry (Crc32cTrace.tla).",
    design_ref="DESIGN.md section 6 C18, section 7, section 12",
    note="Trusted: TLC + CommunityModules Bitwise. Exhaustive over lengths x alignments x builds for the contents used, not over all contents. "
         "The ARM NEON implementation cannot be compiled on this host.",
    technique="TLC model checking of the CRC definition + TLC trace validation of every value returned by both implementations",
)

CHECKS["C20"] = dict(
    category="model_checking",
    text="Stats.tla transcribes jls_statistics_add (Welford), jls_statistics_compute_* (two-pass) and jls_statistics_combine (four-way case split, parallel "
         "variance formula) over exact rationals; TLC checks for every sequence of <= 5 (thorough 6) samples over {-3,-1,0,2,3}, every split into two and "
         "three parts and both groupings, that all evaluation routes give the same statistics, that the variance is non-negative, min <= mean <= max, and "
         "that the empty accumulator is the identity. Every sequence of that state space, seeded longer ones (constant, alternating, random, with offset) "
         "and structured 10^4-sample streams are then run through the same routes on the real jls_statistics_* - including operand aliasing (result "
         "overwrites either operand) and the f32/f64 compute variants - and TLC judges the integer projections (count, min, max, llround(mean*k), "
         "llround(s+mean^2*k), residuals <= 1e-6, var >= 0, mean within [min,max]) against the exact triple (StatsTrace.tla). Sequences around offsets of 3e7 .. 1e9 are judged through shift invariance with a direct projection of s (catches formulas that lose the deviations in the magnitude of the samples).",
    design_ref="DESIGN.md section 6 C20, section 7, section 12",
    note="Trusted: TLC. Integer-valued inputs only: precision loss over many decades of magnitude / large offsets is numeric analysis and is not decided.",
    technique="TLC model checking of an exact-rational transcription + replay of its state space into the C code + TLC validation of integer projections",
)

_CRASH = ("Generated writer programs (1-3 signals of any type, 1-4 summary levels, omission, gaps, annotations/UTC/user data interleaved, late definitions) are "
          "run once with the backend I/O interposed; before every backend write (thinned evenly beyond a per-program budget) and for byte prefixes of writes "
          "(1, 8, 16, len/2, len-1; thorough: every byte of writes <= 40 bytes) the crash image is rebuilt from the write log and opened by the REAL reader in a "
          "child process under a watchdog; termination kind, return code, every length, all samples (candidate runs), annotations, UTC entries and user data, and "
          "two further opens are recorded as one CrashObs event per image. ")
CHECKS["C03"] = dict(
    category="model_checking",
    text=_CRASH + "TLC judges each image with JlsCrash.tla against everything submitted up to the interrupted call: the open terminates; on success nothing "
         "exceeds or differs from the submitted prefix; annotations/UTC/user data are in-order selections of unaltered submitted items; for a stop between "
         "two complete writes with all definitions on disk the open succeeds, every call works and no more than the block in flight is lost (vs. the "
         "samples in complete DATA chunks of the image). JlsLinks.tla model-checks, per backend write, that after ANY prefix of writes every pointer on disk "
         "is 0 or leads to a complete chunk. For signals without omitted blocks the statistics the reader reports on each image (single-window and entry-aligned requests) are compared with the samples it returned. Besides the randomly generated programs, the writer histories come from the state graph of JlsShapes.tla (every combination of present / absent tracks and amount classes; TLC dumps the graph, tools/shapes.py turns paths that take the (shape, call) pairs into programs for the real library). Tier B: JlsRepair.tla (jls_core_repair_fsr as a resumed JlsWriter.tla: replay of the chunks no index lists yet, top level first, then close) is model-checked on every crash image of the writer model (RepairOk: nothing altered, nothing pending, every reachable block listed and summarised exactly once, every sample found), and the FSR chunk sequence before / after every real repairing open of an image cut between two writes is compared with it (JlsRepairTrace.tla; deviation = MODEL-DRIFT). JlsTsRepair.tla (jls_track_repair_pointers on annotation / UTC tracks: top-down walk, cut behind the last good INDEX+SUMMARY / DATA chunk, head entries cleared) is model-checked on every image of the JlsTsWriter.tla chunk sequence - stop after any chunk, last chunk attached or not, and every truncation of the closed track (TsRepairOk: no list leads to a chunk the file does not hold, nothing linked is lost; TsEntriesOk) - and the links of every annotation / UTC track before / after each real repairing open (crash and truncation images) must be the ones it predicts (JlsTsRepairTrace.tla; deviation = MODEL-DRIFT). Every image that opens also reports where the links a reader can follow lead (head-table entries, item_next of reachable chunks): JlsCrash!LinksLead demands the same list and forward (C19).",
    design_ref="DESIGN.md section 6 C03, section 12",
    note="Trusted: as C01 plus the crash model (file = byte prefix of the write stream). Known findings C03-K1 (repair skips blocks that exist only as "
         "summaries) and C19-K1 (torn in-place header stays corrupt) are classified structurally and reported.",
    technique="TLC trace validation of reader observations on every crash image against a TLA+ prefix contract + TLC model checking of the write ordering",
)
CHECKS["C19"] = dict(
    category="model_checking",
    text=_CRASH + "C19: (a) every properly closed file of the corpus is opened and read (definitions, windows, annotations, UTC, user data) and TLC requires it to be "
         "byte-identical afterwards with no backend write at all; (b) every crash image that opens is opened a second and a third time: TLC requires no write, "
         "no change, identical observations, and - when the first open repaired the image - a well-formed closed file (header length = size, forward walk to "
         "END, all CRCs). Besides the randomly generated programs, the writer histories come from the state graph of JlsShapes.tla (every combination of present / absent tracks and amount classes; TLC dumps the graph, tools/shapes.py turns paths that take the (shape, call) pairs into programs for the real library). Tier B: JlsRepair.tla (jls_core_repair_fsr as a resumed JlsWriter.tla: replay of the chunks no index lists yet, top level first, then close) is model-checked on every crash image of the writer model (RepairOk: nothing altered, nothing pending, every reachable block listed and summarised exactly once, every sample found), and the FSR chunk sequence before / after every real repairing open of an image cut between two writes is compared with it (JlsRepairTrace.tla; deviation = MODEL-DRIFT). JlsTsRepair.tla (jls_track_repair_pointers on annotation / UTC tracks: top-down walk, cut behind the last good INDEX+SUMMARY / DATA chunk, head entries cleared) is model-checked on every image of the JlsTsWriter.tla chunk sequence - stop after any chunk, last chunk attached or not, and every truncation of the closed track (TsRepairOk: no list leads to a chunk the file does not hold, nothing linked is lost; TsEntriesOk) - and the links of every annotation / UTC track before / after each real repairing open (crash and truncation images) must be the ones it predicts (JlsTsRepairTrace.tla; deviation = MODEL-DRIFT). Every image that opens also reports where the links a reader can follow lead (head-table entries, item_next of reachable chunks): JlsCrash!LinksLead demands the same list and forward (C19).",
    design_ref="DESIGN.md section 6 C19, section 12",
    note="Trusted: as C03. Known finding C19-K1: a stop inside an in-place 32-byte header rewrite leaves a corrupt header that repair does not mend.",
    technique="TLC trace validation of repeated opens of closed files and crash images against a TLA+ convergence contract",
)

CHECKS["C04"] = dict(
    category="fault_enumeration",
    text="Fault enumeration judged by TLC. On closed files with two signals (f32/u8, i16/u1, f64/u4), two summary levels, annotations, UTC and user data: EVERY "
         "single-bit flip of the file (exhaustive: ~68k faults per file), plus sampled 2-/3-bit flips and bursts <= 32 bits inside one protected region, zeroed "
         "ranges and flips in two regions. Each altered copy is opened by the real reader in a child process under a watchdog and dumped (definitions, "
         "lengths, all samples as candidate runs, annotations, UTC, user data); TLC judges each FaultObs event with JlsCorrupt.tla against the content written: "
         "every observation is an error, or exactly the original, or - only if the open repaired the file - a genuine prefix (C03 semantics); never altered "
         "content as valid, never a crash or hang. CrcHD.tla decides exhaustively, by GF(2)-linearity on the single-bit syndromes derived from the polynomial, "
         "that every alteration of <= 3 bits within a protected region of 28+4 / 132+4 (thorough 300+4) bytes changes the CRC. Sampled faults inside payloads larger than the reader's initial 1 MiB chunk buffer (big user data, big FSR block) are included; sample-id -> time conversions are asked twice on every altered file and must agree with the UTC entries written.",
    design_ref="DESIGN.md section 6 C04, section 12",
    note="Trusted: TLC, the driver's projections, the crash/fault child-process harness. Bursts <= 32 bits rely on the standard CRC burst theorem (sampled, not enumerated). "
         "Statistics of altered files are not dumped.",
    technique="exhaustive single-bit + sampled multi-bit fault enumeration on real files, every outcome judged by TLC against a TLA+ contract; CRC Hamming-distance by TLC on syndromes",
)

_TWR = ("The real jls_twr_* code (library objects compiled from the working tree with -DJLS_VERIF and a 256-byte queue) runs under a cooperative scheduler "
        "(harness/sched_shim.c, link-time interposition of every pthread / nanosleep / clock_gettime call): threads interleave exactly at their "
        "synchronisation operations, time is virtual, the schedule is a script or a seeded priority policy. Twr.tla models the same system at the same "
        "grain (one step = one pthread operation of one thread plus its local code; queue decisions of msg_ring_buffer.c; msg_send / flush / close retry "
        "loops; clock ticks that may overshoot by 6 s or 21 s). ")
CHECKS["C06"] = dict(
    category="model_checking",
    text=_TWR + "TLC explores the complete state space of Twr.tla for small programs (1-3 producers, messages that fill and wrap the queue, drop on/off) "
         "with the invariants 'applied = prefix of accepted in enqueue order' and 'return code agrees with what was queued'. Every edge of the complete "
         "state graph of small programs (thorough: more programs plus TLC simulation behaviours) is turned into a schedule and executed on the real code; "
         "these runs plus random programs (fsr of all widths, annotation, UTC, user data, omit, flush; sizes forcing wrap-around and overflow) under seeded "
         "PCT-style schedules are judged event by event by TwrContractTrace.tla: every accepted message reaches the synchronous writer exactly once, in "
         "enqueue order, with the producer's bytes, under the process lock; queue access only under the message lock; error return <=> nothing queued; the "
         "file equals the one the synchronous writer produces from the accepted calls. TwrTrace.tla checks that each recorded run is a behaviour of Twr.tla "
         "with identical outputs (deviation is reported as MODEL-DRIFT). Real threads: harness/twr_tsan_drv.c (2-4 producer threads, 2 KiB queue, drop on / off) runs on the library built with ThreadSanitizer; every distinct data-race report is a violation (supporting dynamic check for the clause the one-thread-at-a-time scheduler cannot observe).",
    design_ref="DESIGN.md section 6 C06, section 12",
    note="Trusted: TLC; the scheduler shim and the observation wraps in harness/twr_drv.c. Grain: interleavings at synchronisation operations only (sequential "
         "consistency between them); the unlocked reads of flush_processed_id / quit are not examined at instruction level. No run on free-running threads.",
    technique="TLA+ model checking (TLC) of the thread system + replay of every state-graph edge into the real code under a deterministic scheduler + TLC trace validation (contract and model conformance)",
)
CHECKS["C07"] = dict(
    category="model_checking",
    text=_TWR + "TLC explores the complete state space of Twr.tla for small programs with flushes and the close behind a full queue: invariants 'a flush that "
         "returns success has every earlier accepted message applied and synced' and 'close applies everything, joins the writer thread, closes the file', TLC's "
         "deadlock check, and termination under fairness (strong fairness per thread, weak fairness of the clock), so every retry loop ends. Every edge of the "
         "state graph of small programs is executed on the real code under virtual time (all timeout paths reachable); those runs plus random programs with "
         "flushes behind big messages under seeded schedules are judged by TwrContractTrace.tla (flush/close clauses; Deadlock = nothing enabled, no timer, "
         "threads unfinished; Livelock = step budget exhausted under a weakly fair schedule) and compared with Twr.tla by TwrTrace.tla. Programs include definitions that are refused (the process lock must be released on the error path).",
    design_ref="DESIGN.md section 6 C07, section 12",
    note="Trusted: as C06. 'Synced' is observed as the call of jls_wr_flush by the writer thread, not as fsync reaching the device. Fairness: the shim runs an "
         "enabled thread after at most 20000 decisions; the model assumes strong fairness for lock acquisition.",
    technique="TLA+ model checking (TLC) incl. deadlock and liveness under fairness + state-graph replay into the real code under a deterministic scheduler with virtual time + TLC trace validation",
)

CHECKS["C10"] = dict(
    category="model_checking",
    text="Misuse.tla is the contract of an API session with arbitrary arguments: abstract state (open handle, sources / signals defined in the writer session "
         "with their types and sample counts, content of the closed file) and, for every call with concrete arguments, whether it must be refused, must succeed, "
         "or may do either. MisuseGen.tla turns it into the finite graph of all sessions over a call alphabet with ids 0 / undefined / 200 / 256 / 65535, wrong "
         "types, duplicate and malformed definitions, extreme definition parameters, zero / negative / huge windows, lengths and increments, bad enum values, "
         "missing / garbage / empty / truncated files, for the synchronous writer, the threaded writer, the reader and jls_copy. TLC dumps the graph (1551 states, "
         "~128k (state, call) pairs); the pairs are executed on the library built with AddressSanitizer + UBSan by harness/misuse_drv.c (every caller buffer a heap "
         "block of exactly the documented size; library allocations counted by link-time wraps; watchdog), following observed outcomes where the contract leaves "
         "them open (quick: a 15k sample of the pairs, thorough: all), plus random sessions with arbitrary ids / windows / lengths / enum values / definition "
         "parameters. MisuseTrace.tla judges every recorded call: invalid => error code, no crash / hang / sanitizer report, every close and every failed open "
         "returns the library's heap to its level before the open. The raw chunk API (jls_raw_*) has its own contract Raw.tla / graph RawGen.tla / judge RawTrace.tla: every implementation-reachable (state, call) pair over open mode x file kind x cursor class x cached header, and random raw sessions with arbitrary tags, lengths and offsets, run on the same sanitizer build. The alphabet includes destinations that cannot be opened (the failed open must keep no memory) and 64-bit windows and increments up to 2^63 - 1 (sums and products in the range checks must not wrap).",
    design_ref="DESIGN.md section 6 C10, section 12",
    note="Trusted: TLC, ASan/UBSan (clang 14), the driver. Handles are used only while open and NULL data pointers are not passed (the property's 'valid pointers'). "
         "Threaded-writer data calls are asynchronous: their return code for invalid ids is not judged. jls_rd_utc on a defined non-FSR signal may return an "
         "empty result (documented in the code as fine). Raw API (jls_raw_*) is exercised only through reader / writer / copy.",
    technique="TLA+ contract of API sessions; TLC state graph of all sessions over a misuse alphabet replayed into the sanitizer build; TLC trace validation of every call's outcome",
)

NOT_YET = {}


def main():
    props = [json.loads(l)["id"] for l in open(os.path.join(ROOT, "properties.jsonl"))]
    checks = []
    for pid in props:
        if pid not in CHECKS:
            continue
        c = CHECKS[pid]
        checks.append({
            "property_id": pid,
            "quick_cmd": "./check %s --tier quick" % pid,
            "thorough_cmd": "./check %s --tier thorough" % pid,
            "evidence_file": "/verif/evidence/%s.json" % pid,
            "replay_cmd_template": "./check %s --replay {path}" % pid,
            "engine": "tlc",
            "level_claimed": {"category": c["category"], "text": c["text"], "design_ref": c["design_ref"]},
            "level_note": c["note"],
            "technique": c["technique"],
        })
    na = [{"property_id": p, "reason": NOT_YET.get(p, "check under construction in this round (see DESIGN.md section 6 for its design); not claimed until it runs clean")}
          for p in props if p not in CHECKS]
    m = {
        "version": 1,
        "setup_cmd": "true",
        "hooks": {
            "guard": "JLS_VERIF",
            "enable": "harness/build.sh verif|asan compiles /repo/src with -DJLS_VERIF=1 (plus -DJLS_VERIF_MRB_BUFFER_SIZE=<n> for the threaded-writer checks)",
            "baseline_off_cmd": "tools/baseline.sh",
            "source_commits": ["8856985"],
            "add_only": True,
        },
        "engines": [
            {"name": "tlc", "path": "/opt/veriftools/tla/tla2tools.jar", "serves_properties": sorted(CHECKS),
             "kind_free_text": "TLC 1.8.0 explicit-state model checker: exhaustive checking of the /verif/spec modules and trace validation of recorded executions"},
        ],
        "checks": checks,
        "not_applicable": na,
        "notes": "Every check: ./check <ID> --tier quick|thorough; rebuilds the library objects from /repo's working tree into /verif/build, "
                 "scratch under /dev/shm (removed at exit). Known findings: known_findings.json (read-only for the checks).",
    }
    with open(os.path.join(ROOT, "MANIFEST.json"), "w") as f:
        json.dump(m, f, indent=1)
        f.write("\n")


if __name__ == "__main__":
    main()
