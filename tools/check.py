#!/usr/bin/env python3
"""./check <ID> [--tier quick|thorough] : run the check of one property.
exit 0 = held on everything explored, 1 = VIOLATION printed, 2 = tool failure."""
import argparse
import importlib
import os
import sys
import traceback

sys.path.insert(0, os.path.dirname(os.path.abspath(__file__)))
import common  # noqa: E402


def main():
    ap = argparse.ArgumentParser()
    ap.add_argument("pid")
    ap.add_argument("--tier", default=os.environ.get("VERIF_TIER", "quick"))
    a = ap.parse_args()
    os.environ["VERIF_TIER"] = a.tier
    try:
        mod = importlib.import_module("props." + a.pid.lower())
        rc = mod.run(a.tier)
    except common.ToolFailure as ex:
        print("TOOL-FAILURE property=%s: %s" % (a.pid, ex), flush=True)
        sys.exit(2)
    except Exception:
        traceback.print_exc()
        print("TOOL-FAILURE property=%s: internal error" % a.pid, flush=True)
        sys.exit(2)
    sys.exit(rc)


if __name__ == "__main__":
    main()
