#!/bin/bash
# Runs the repository's own test suite (77 tests) with the JLS_VERIF guard OFF,
# built from /repo's current working tree into a scratch directory.
# Serial ctest: jls_test and repair_test share jls_test_tmp.jls in the cwd.
set -e
REPO=${JLS_REPO:-/repo}
B=$(mktemp -d /dev/shm/jls_baseline.XXXXXX)
trap 'rm -rf "$B"' EXIT
cmake -G Ninja -S "$REPO" -B "$B" -DCMAKE_BUILD_TYPE=Release >"$B/cmake.log" 2>&1 || { cat "$B/cmake.log"; exit 2; }
cmake --build "$B" -j16 >"$B/build.log" 2>&1 || { tail -50 "$B/build.log"; exit 2; }
ctest --test-dir "$B" -j1 --timeout 900 --output-junit "$B/junit.xml" 2>&1 | tail -25
python3 - "$B/junit.xml" <<'PY'
import sys, xml.etree.ElementTree as ET
r = ET.parse(sys.argv[1]).getroot()
print("ctest executables: tests=%s failures=%s" % (r.get("tests"), r.get("failures")))
sys.exit(0 if r.get("failures") in ("0", None) else 1)
PY
