#!/usr/bin/env python3
"""seedsweep.py [-j N] [ids...] : re-run, for every kept seeded change, the checks its meta.json names (caught_by)
against a scratch copy of /repo's sources with the patch applied; writes seeded/sweep_result.json and prints a table.
Each run builds into its own directory (JLS_BUILD_DIR is set by the check itself), so runs can go in parallel."""
import concurrent.futures
import json
import os
import shutil
import subprocess
import sys
import tempfile
import time

ROOT = os.path.dirname(os.path.dirname(os.path.abspath(__file__)))
SEEDED = os.path.join(ROOT, "seeded")


def one(sid):
    d = os.path.join(SEEDED, sid)
    meta = json.load(open(os.path.join(d, "meta.json")))
    checks = meta.get("caught_by") or [meta.get("property")]
    tmp = tempfile.mkdtemp(prefix="seedsweep.", dir="/dev/shm")
    res = {"id": sid, "checks": {}, "applies": True}
    try:
        for sub in ("src", "include", "include_prv"):
            shutil.copytree(os.path.join("/repo", sub), os.path.join(tmp, sub))
        p = subprocess.run(["patch", "-p1", "-s", "--fuzz=2", "-i", os.path.join(d, "patch.diff")], cwd=tmp, stdout=subprocess.PIPE, stderr=subprocess.STDOUT)
        if p.returncode != 0:
            res["applies"] = False
            res["patch_output"] = p.stdout.decode("utf-8", "replace")[-400:]
            return res
        for c in checks:
            t0 = time.time()
            env = dict(os.environ)
            env["JLS_REPO"] = tmp
            env["VERIF_EVIDENCE_DIR"] = os.path.join(tmp, "evidence")      # keep evidence/ of the clean tree untouched
            env["VERIF_REPLAY_DIR"] = os.path.join(tmp, "replay")
            try:
                q = subprocess.run([os.path.join(ROOT, "check"), c], env=env, stdout=subprocess.PIPE, stderr=subprocess.STDOUT, timeout=3000)
                out = q.stdout.decode("utf-8", "replace")
                rc = q.returncode
            except subprocess.TimeoutExpired:
                out, rc = "", -9
            res["checks"][c] = {"exit": rc, "violations": sum(1 for l in out.split("\n") if l.startswith("VIOLATION")),
                                "drift": sum(1 for l in out.split("\n") if l.startswith("MODEL-DRIFT")),
                                "tool_failure": "TOOL-FAILURE" in out, "wall_s": round(time.time() - t0, 1),
                                "reasons": [l.strip()[:160] for l in out.split("\n") if " x " in l and not l.startswith("[")][:3]}
    finally:
        shutil.rmtree(tmp, ignore_errors=True)
    return res


def main():
    args = sys.argv[1:]
    jobs = 3
    if args[:1] == ["-j"]:
        jobs = int(args[1])
        args = args[2:]
    ids = args or sorted(x for x in os.listdir(SEEDED) if os.path.exists(os.path.join(SEEDED, x, "meta.json")))
    results = []
    with concurrent.futures.ThreadPoolExecutor(max_workers=jobs) as ex:
        for r in ex.map(one, ids):
            results.append(r)
            if not r["applies"]:
                print("%-7s patch does not apply to /repo HEAD" % r["id"], flush=True)
                continue
            for c, v in r["checks"].items():
                print("%-7s %s exit=%d violations=%d drift=%d%s %ss  %s" % (r["id"], c, v["exit"], v["violations"], v["drift"],
                      " TOOL-FAILURE" if v["tool_failure"] else "", v["wall_s"], "; ".join(v["reasons"])[:150]), flush=True)
    head = subprocess.check_output(["git", "-C", "/repo", "rev-parse", "--short", "HEAD"]).decode().strip()
    out = os.path.join(SEEDED, "sweep_result.json")
    merged = {}
    if args and os.path.exists(out):          # a partial run updates the entries of the seeds it ran
        merged = {r["id"]: r for r in json.load(open(out)).get("results", [])}
    for r in results:
        r["repo_head"] = head
        merged[r["id"]] = r
    json.dump({"repo_head": head, "results": [merged[k] for k in sorted(merged)]}, open(out, "w"), indent=1)
    missed = [r["id"] for r in results if r["applies"] and not any(v["exit"] == 1 and v["violations"] > 0 for v in r["checks"].values())]
    print("seeds: %d, not applicable at HEAD: %d, not reported: %s" % (len(results), sum(1 for r in results if not r["applies"]), missed or "none"))


if __name__ == "__main__":
    main()
