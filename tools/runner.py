"""Running batches of driver programs on the real library in worker processes,
with crash and hang detection (an abnormal termination becomes an event)."""
import json
import os
import subprocess
import sys
import time

import common as C

PY = "/opt/veriftools/pyvenv/bin/python"
if not os.path.exists(PY):
    PY = sys.executable


def _last_done(trace):
    last = -1
    lastx = None
    nlines = 0
    if os.path.exists(trace):
        with open(trace) as f:
            for line in f:
                nlines += 1
                if line.startswith('{"e": "Done"') or line.startswith('{"e":"Done"'):
                    try:
                        last = json.loads(line)["i"]
                    except ValueError:
                        pass
    return last, nlines


def run_programs(programs, seed=1, flavour="so", nproc=None, per_program_timeout=60, tag="p"):
    """programs: list of program dicts (each with unique 'x').  Returns the path of
    one ndjson trace holding all executions in order, and the list of abnormal
    terminations [(x, kind)]."""
    sc = C.scratch()
    nproc = nproc or C.NCPU
    chunks = [programs[i::nproc] for i in range(nproc)]
    chunks = [c for c in chunks if c]
    jobs = []
    for k, chunk in enumerate(chunks):
        pj = os.path.join(sc, "%s_progs_%d.json" % (tag, k))
        tr = os.path.join(sc, "%s_trace_%d.ndjson" % (tag, k))
        wd = os.path.join(sc, "%s_work_%d" % (tag, k))
        os.makedirs(wd, exist_ok=True)
        if os.path.exists(tr):
            os.remove(tr)
        json.dump({"seed": seed, "programs": chunk}, open(pj, "w"))
        jobs.append({"pj": pj, "tr": tr, "wd": wd, "chunk": chunk, "first": 0, "proc": None, "t": 0, "lines": 0})
    abnormal = []

    def start(j):
        j["proc"] = subprocess.Popen([PY, os.path.join(C.ROOT, "tools", "jlsdrv.py"), j["pj"], j["tr"], j["wd"], flavour, str(j["first"])],
                                     stdout=subprocess.DEVNULL, stderr=subprocess.PIPE)
        j["t"] = time.time()

    for j in jobs:
        start(j)
    active = list(jobs)
    while active:
        time.sleep(0.05)
        for j in list(active):
            rc = j["proc"].poll()
            done, nlines = _last_done(j["tr"]) if (rc is not None or time.time() - j["t"] > per_program_timeout) else (None, None)
            if rc is None:
                if done is None:
                    continue
                if nlines != j["lines"]:
                    # progress since the last look: restart the clock
                    j["lines"] = nlines
                    j["t"] = time.time()
                    continue
                j["proc"].kill()
                j["proc"].wait()
                kind = "hang"
            elif rc == 0:
                active.remove(j)
                continue
            else:
                kind = "crash"
                err = j["proc"].stderr.read().decode("utf-8", "replace")[-400:]
                j["err"] = err
            bad = done + 1
            if bad >= len(j["chunk"]):
                if kind == "crash":
                    raise C.ToolFailure("driver worker failed outside a program (rc=%s): %s" % (rc, j.get("err", "")))
                active.remove(j)
                continue
            x = j["chunk"][bad]["x"]
            abnormal.append((x, kind))
            with open(j["tr"], "a") as f:
                f.write(json.dumps({"e": "Abnormal", "kind": kind, "x": x, "q": 0,
                                    "detail": j.get("err", "")[-200:] if kind == "crash" else ""}) + "\n")
                f.write(json.dumps({"e": "Done", "x": x, "q": 0, "i": bad}) + "\n")
            j["first"] = bad + 1
            j["lines"] = 0
            if j["first"] >= len(j["chunk"]):
                active.remove(j)
            else:
                start(j)
    # merge in order of x (each execution is contiguous inside its worker's trace)
    execs = {}
    for j in jobs:
        cur = None
        with open(j["tr"]) as f:
            for line in f:
                if '"e":"Reset"' in line or '"e": "Reset"' in line:
                    cur = json.loads(line)["x"]
                    execs[cur] = [line]
                elif line.startswith('{"e": "Done"') or line.startswith('{"e":"Done"'):
                    continue
                elif '"e": "Abnormal"' in line or '"e":"Abnormal"' in line:
                    xx = json.loads(line)["x"]
                    execs.setdefault(xx, []).append(line)
                elif cur is not None:
                    execs[cur].append(line)
    out = os.path.join(sc, "%s_trace.ndjson" % tag)
    with open(out, "w") as f:
        for x in sorted(execs):
            f.writelines(execs[x])
    return out, abnormal
