"""Threaded-writer machinery shared by C06 and C07.

The real jls_twr_* code runs under the cooperative scheduler (harness/sched_shim.c): every
lock/unlock/wait/signal/create/join/sleep of the library objects is a scheduling point, time is
virtual, and the schedule is either a seeded priority policy or a script generated from a TLC
behaviour of spec/Twr.tla.  Recorded executions are judged by spec/TwrContractTrace.tla (tier A)
and the synchronisation skeleton is compared with spec/Twr.tla (tier B)."""
import concurrent.futures
import json
import os
import subprocess

import common as C

HDR = 40          # sizeof(struct msg_header_s)
BITS = {"u1": 1, "u4": 4, "u8": 8, "u16": 16, "u32": 32, "f32": 32, "f64": 64}

# which property a rejection reason speaks about
REASON_PROP = {
    "call started inside another call of the same thread": "C06",
    "queue written without holding the message lock": "C06",
    "message queued outside its call": "C06",
    "one call queued two messages": "C06",
    "message accepted after the file was closed": "C07",
    "queue read without holding the message lock": "C06",
    "definition applied without holding the process lock": "C06",
    "file closed twice": "C07",
    "file closed before every accepted message was applied": "C07",
    "file closed while the writer thread was still running": "C07",
    "message applied after the file was closed": "C07",
    "file state written without holding the process lock": "C06",
    "sync applied out of order": "C06",
    "applied message bytes differ from what the producer supplied": "C06",
    "accepted message applied twice": "C06",
    "accepted messages applied out of order": "C06",
    "applied a message that was never accepted": "C06",
    "return without a matching call": "C06",
    "call returned success but its message was never queued": "C06",
    "call returned an error but its message was queued": "C06",
    "flush returned success before every earlier message was applied": "C07",
    "flush returned success before the earlier messages were synced": "C07",
    "close returned before the file was closed": "C07",
    "deadlock: no thread can run, no timer is pending, threads are unfinished": "C07",
    "no progress: step budget exhausted": "C07",
    "process crashed or hung": "C06",
    "a call never returned": "C07",
    "file content differs from the synchronous reference": "C06",
}


def build(out, qbytes=256):
    rc, o = C.run([os.path.join(C.HARNESS, "build_twr.sh"), out, str(qbytes)], timeout=600, check=False)
    if rc != 0:
        raise C.ToolFailure("threaded-writer driver build failed:\n%s" % o[-3000:])
    return out


def msg_size(op, sigs):
    """Bytes handed to jls_mrb_alloc for an op (header + payload)."""
    k = op[0]
    if k == "F":
        return HDR + (op[2] * BITS[sigs[op[1]]] + 7) // 8
    if k == "A":
        return HDR + len("anno-%d-%d" % (op[1], 1)) + 1      # one digit counters in generated programs
    if k == "D":
        return HDR + op[1]
    return HDR


def gen_program(rng, qbytes=256, nthreads=None, maxops=8, flushes=True, style=None):
    """A program: per producer thread its own signals and a list of ops.
    ops: ("F", sig, n) ("A", sig) ("U", sig) ("D", len) ("O", sig, en) ("L",)"""
    nthreads = nthreads or rng.choice([1, 1, 2, 2, 3])
    style = style or rng.choice(["small", "mixed", "big", "full"])
    sigs = {}
    threads = []
    cap = qbytes - HDR - 12
    for k in range(1, nthreads + 1):
        mine = []
        for j in range(2):
            g = 2 * k - 1 + j
            sigs[g] = rng.choice(["u8", "u8", "u16", "f32", "u1", "u4", "u32", "f64"])
            mine.append(g)
        ops = []
        nanno = {g: 0 for g in mine}
        for _ in range(rng.randint(1, maxops)):
            r = rng.random()
            g = rng.choice(mine)
            bits = BITS[sigs[g]]
            if r < 0.55:
                if style == "small":
                    nbytes = rng.randint(1, 24)
                elif style == "big":
                    nbytes = rng.randint(cap // 3, cap)
                elif style == "full":
                    nbytes = rng.choice([cap, cap - 1, cap + 1, cap // 2, cap // 2 + 1, qbytes, 8])
                else:
                    nbytes = rng.randint(1, cap)
                n = max(1, nbytes * 8 // bits)
                if bits < 8 and rng.random() < 0.5:
                    n = max(8, n - n % 8)
                elif bits < 8:
                    n = max(1, n - rng.randint(1, 8 // bits - 1))     # the last byte of the payload is only partly used
                ops.append(("F", g, n))
            elif r < 0.65 and nanno[g] < 9:
                nanno[g] += 1
                ops.append(("A", g))
            elif r < 0.73:
                ops.append(("U", g))
            elif r < 0.83:
                ops.append(("D", rng.choice([0, 1, 7, 33, 100, cap]) if style != "small" else rng.randint(0, 20)))
            elif r < 0.88:
                ops.append(("O", g, rng.choice([0, 1])))
            elif r < 0.91:
                ops.append(("X", g))          # a definition that is refused (duplicate id)
            elif flushes:
                ops.append(("L",))
            else:
                ops.append(("U", g))
        threads.append(ops)
    closer = 0
    if nthreads == 1 and rng.random() < 0.5:
        closer = 1
    return {"sigs": sigs, "threads": threads, "closer": closer}


def program_text(prog, cfg, script=None):
    lines = ["cfg " + " ".join("%s=%s" % kv for kv in sorted(cfg.items()))]
    if script:
        lines.append("script " + script)
    for g, dt in sorted(prog["sigs"].items()):
        lines.append("sig %d %s" % (g, dt))
    for k, ops in enumerate(prog["threads"], 1):
        toks = []
        for op in ops:
            if op[0] == "F":
                toks.append("F%d:%d" % (op[1], op[2]))
            elif op[0] in "AUX":
                toks.append("%s%d" % (op[0], op[1]))
            elif op[0] == "D":
                toks.append("D%d" % op[1])
            elif op[0] == "O":
                toks.append("O%d:%d" % (op[1], op[2]))
            else:
                toks.append("L")
        lines.append("thread %d %s" % (k, " ".join(toks)))
    lines.append("close %d" % prog["closer"])
    return "\n".join(lines) + "\n"


def gen_cfg(rng, drop=None, thorough=False):
    style = rng.random()
    cfg = {"seed": rng.randint(1, 2 ** 31 - 1), "steps": STEP_BUDGET,
           "drop": rng.choice([0, 1]) if drop is None else drop,
           "pct": rng.choice([0, 1, 2, 3, 5, 8]), "span": rng.choice([30, 100, 400, 2000])}
    if style < 0.45:
        cfg.update(tick=rng.choice([0, 10, 30]), jump=0)
    elif style < 0.75:
        cfg.update(tick=rng.choice([100, 300, 700]), jump=rng.choice([0, 50, 300]))
    elif style < 0.95:
        cfg.update(tick=rng.choice([30, 300]), jump=rng.choice([500, 1000]))
    else:
        cfg.update(tick=1000, jump=0)       # time runs whenever it can: the 5 ms retry loops run to their timeout
    return cfg


MAX_TRACE_BYTES = 64 * 1024 * 1024      # backstop only: the scheduler's step budget (200000 decisions) ends a run long before
STEP_BUDGET = 200000
KEEP_AFTER_LIVELOCK = 3000              # a run that ended without progress is kept as this prefix plus the verdict


class Exec:
    """One recorded execution: the trace stays in a file; only its features and size are kept in memory."""
    __slots__ = ("path", "nlines", "feats", "abnormal")

    def lines(self):
        with open(self.path) as f:
            return [l for l in f.read().split("\n") if l]


def _run_one(exe, d, idx, text, timeout):
    pf = os.path.join(d, "p%d.txt" % idx)
    tf = os.path.join(d, "t%d.ndjson" % idx)
    open(pf, "w").write(text)
    abnormal = None
    overflow = False
    try:
        p = subprocess.Popen([exe, pf, tf, os.path.join(d, "o%d.jls" % idx), os.path.join(d, "r%d.jls" % idx)],
                             stdout=subprocess.DEVNULL, stderr=subprocess.PIPE)
        import time as _t
        t0 = _t.time()
        while p.poll() is None:
            _t.sleep(0.02)
            if _t.time() - t0 > timeout:
                p.kill()
                abnormal = "wall-clock timeout %ss" % timeout
                break
            try:
                if os.path.getsize(tf) > MAX_TRACE_BYTES:
                    p.kill()
                    overflow = True
                    break
            except OSError:
                pass
        err = p.stderr.read().decode("utf-8", "replace")
        p.wait()
        if abnormal is None and not overflow and p.returncode not in (0, 3, 4):
            abnormal = "exit %d: %s" % (p.returncode, err[-300:])
    except OSError as ex:
        abnormal = "cannot run: %s" % ex
    for fn in (pf, os.path.join(d, "o%d.jls" % idx), os.path.join(d, "r%d.jls" % idx)):
        try:
            os.remove(fn)
        except OSError:
            pass
    # normalise the file: drop a line cut by a kill, append the harness-level verdict
    lines = []
    if os.path.exists(tf):
        with open(tf) as f:
            lines = [l for l in f.read().split("\n") if l]
        if lines and not lines[-1].endswith("}"):
            lines.pop()
    if overflow:
        lines.append(json.dumps({"e": "Livelock", "why": "trace larger than %d bytes" % MAX_TRACE_BYTES}))
    if lines and lines[-1].startswith('{"e":"Livelock"') and len(lines) > KEEP_AFTER_LIVELOCK + 1:
        lines = lines[:KEEP_AFTER_LIVELOCK] + [lines[-1]]
    if abnormal:
        lines.append(json.dumps({"e": "Abnormal", "why": abnormal}))
    with open(tf, "w") as f:
        f.write("\n".join(lines) + "\n")
    e = Exec()
    e.path, e.nlines, e.feats, e.abnormal = tf, len(lines), features(lines), abnormal
    return idx, e


def run_all(exe, d, texts, timeout=60, workers=None):
    """Run every program text; returns a list of Exec (index = execution)."""
    out = [None] * len(texts)
    with concurrent.futures.ThreadPoolExecutor(max_workers=workers or C.NCPU) as ex:
        for idx, e in ex.map(lambda a: _run_one(exe, d, a[0], a[1], timeout), enumerate(texts)):
            out[idx] = e
    return out


def write_traces(execs, full_path, contract_path, x0=1, resets=None):
    """Concatenate executions.  The full trace keeps every event (tier B; its Reset events carry the program as
    the model's configuration); the contract trace drops the scheduler steps the contract does not look at
    (all Sync events except thread exits, and Ticks)."""
    nfull = ncon = 0
    with open(full_path, "w") as ff, open(contract_path, "w") as fc:
        for i, e in enumerate(execs):
            with open(e.path) as f:
                for ln in f:
                    ln = ln.rstrip("\n")
                    if not ln:
                        continue
                    if ln.startswith('{"e":"Reset"'):
                        base = '{"e":"Reset","x":%d,' % (x0 + i)
                        fc.write(base + ln[len('{"e":"Reset",'):] + "\n")
                        ncon += 1
                        if resets:
                            ff.write(base + json.dumps(resets[i], separators=(",", ":"))[1:] + "\n")
                        else:
                            ff.write(base + ln[len('{"e":"Reset",'):] + "\n")
                        nfull += 1
                        continue
                    ff.write(ln + "\n")
                    nfull += 1
                    if ln.startswith('{"e":"Sync"'):
                        if '"op":"exit"' not in ln:
                            continue
                    elif ln.startswith('{"e":"Tick"') or ln.startswith('{"e":"Infeasible"'):
                        continue
                    fc.write(ln + "\n")
                    ncon += 1
    return nfull, ncon


def features(lines):
    """What an execution exercised (for coverage accounting and for steering)."""
    f = set()
    for ln in lines:
        if ln.startswith('{"e":"Sync"') or ln.startswith('{"e":"Tick"'):
            if '"jump":6000' in ln or '"jump":21000' in ln:
                f.add("time-jump")
            continue
        ev = json.loads(ln)
        e = ev["e"]
        if e == "Enq":
            if not ev["ok"]:
                f.add("queue-full")
                if ev["kind"] == "L":
                    f.add("queue-full-at-flush")
                if ev["kind"] == "C":
                    f.add("queue-full-at-close")
            else:
                if ev["count"] >= 2:
                    f.add("queue-depth>=2")
                if ev["count"] >= 4:
                    f.add("queue-depth>=4")
                if ev["head"] < ev["tail"]:
                    f.add("queue-wrapped")
        elif e == "Ret":
            if ev["rc"] != 0:
                f.add("ret-%s-%d" % (ev["kind"], ev["rc"]))
            elif ev["kind"] == "L":
                f.add("flush-ok")
        elif e == "Apply":
            if ev["kind"] not in "SCL":
                f.add("apply-" + ev["kind"])
        elif e in ("Deadlock", "Livelock", "Abnormal", "Infeasible"):
            f.add(e.lower())
    return f


MAX_REPORTED = 60        # rejections turned into violation records with replay material; the rest are counted


def judge(ck, prop, sc, execs, texts, tag, x0=1, others=None, resets=None):
    """Validate executions against the contract; report rejections that speak about `prop`.
    Returns (number of executions accepted for prop, verdict)."""
    full = os.path.join(sc, "twr_%s_full.ndjson" % tag)
    con = os.path.join(sc, "twr_%s_contract.ndjson" % tag)
    nfull, ncon = write_traces(execs, full, con, x0, resets)
    v = C.validate_trace_parallel("TwrContractTrace", "TwrContractTrace.cfg", con, parts=8, timeout=1500)
    ck.log("%s: %d executions, %d events recorded, %d judged by TwrContractTrace: %d rejection(s)"
           % (tag, len(execs), nfull, v.consumed, len(v.rejections)))
    bad = set()
    foreign = []
    want = {}
    for (x, line, why) in v.rejections:
        p = REASON_PROP.get(why, prop)
        if p != prop:
            foreign.append((x, why))
            continue
        bad.add(x)
        want[line] = (x, why)
    if want:
        # fetch the rejected events in one pass over the contract trace
        evs = {}
        with open(con) as f:
            for n, ln in enumerate(f, 1):
                if n in want:
                    evs[n] = json.loads(ln)
        for k, (line, (x, why)) in enumerate(sorted(want.items())):
            ev = evs.get(line, {})
            i = x - x0
            files = []
            lines = None
            if k < MAX_REPORTED:
                rp = os.path.join(sc, "twr_%s_x%d.program.txt" % (tag, x))
                open(rp, "w").write(texts[i])
                files = [rp, execs[i].path]
                lines = execs[i].lines()
            descr = {"where": "implementation", "execution": x, "reason": why, "event": ev.get("e"),
                     "kind": ev.get("kind", ""), "call": ev.get("key", ""),
                     "class": classify(lines, ev, why) if lines is not None else ""}
            ck.violation(descr, files)
    if foreign and others is not None:
        others.extend(foreign)
    return len(execs) - len(bad), v


def classify(lines, ev, why):
    """Structural class of a rejection for matching known findings."""
    cls = []
    if why.startswith("deadlock"):
        # who waits for what at the end
        last = json.loads(lines[-1]) if lines else {}
        pend = last.get("pend", [])
        if "join" in pend and "wake" in pend:
            cls.append("closer-joins-writer-waits")
        # was the close message refused?
        for ln in lines:
            if '"e":"Enq"' in ln and '"kind":"C"' in ln and '"ok":false' in ln:
                cls.append("close-message-refused")
                break
    return "+".join(cls)


# ---------------------------------------------------------------- tier B: Twr.tla
def tla_prog(prog):
    """The program as the TLA+ constant Prog ([thread -> Seq([k, sz, key])]); thread k of the harness is thread k+1."""
    parts = []
    for k, ops in enumerate(prog["threads"], 1):
        t = k + 1
        nanno = {}
        items = []
        for c, op in enumerate(ops):
            if op[0] == "A":
                nanno[op[1]] = nanno.get(op[1], 0) + 1
                sz = HDR + len("anno-%d-%d" % (op[1], nanno[op[1]])) + 1
            else:
                sz = msg_size(op, prog["sigs"])
            items.append('[k |-> "%s", sz |-> %d, key |-> "%s%d.%d"]' % (op[0], sz, op[0], t, c))
        parts.append("(%d :> <<%s>>)" % (t, ", ".join(items)))
    return " @@ ".join(parts) if parts else "<<>>"


def json_prog(prog, maxt=4):
    """The same program as JSON for the Reset event of the tier-B trace (list per thread 2..maxt)."""
    out = []
    for k in range(1, maxt):
        items = []
        if k <= len(prog["threads"]):
            t = k + 1
            nanno = {}
            for c, op in enumerate(prog["threads"][k - 1]):
                if op[0] == "A":
                    nanno[op[1]] = nanno.get(op[1], 0) + 1
                    sz = HDR + len("anno-%d-%d" % (op[1], nanno[op[1]])) + 1
                else:
                    sz = msg_size(op, prog["sigs"])
                items.append({"k": op[0], "sz": sz, "key": "%s%d.%d" % (op[0], t, c)})
        out.append(items)
    return out


def reset_fields(prog, drop, qn, close_retry=True):
    return {"np": len(prog["threads"]), "prog": json_prog(prog), "ndefs": 1 + len(prog["sigs"]),
            "closer": (prog["closer"] + 1 if prog["closer"] else 0), "drop": bool(drop), "qn": qn,
            "closeRetry": bool(close_retry)}


MC_TEMPLATE = r"""---- MODULE %(name)s ----
EXTENDS Integers, Sequences, FiniteSets, TLC
INSTANCE Twr WITH MaxT <- %(maxt)d
cK == [np |-> %(np)d, prog |-> %(prog)s, ndefs |-> %(ndefs)d, closer |-> %(closer)d, drop |-> %(drop)s, qn |-> %(qn)d,
       sendTimeout |-> %(send_timeout)d, sendSleep |-> %(send_sleep)d, flushTimeout |-> %(flush_timeout)d,
       pollSleep |-> %(poll_sleep)d, closeRetry |-> %(close_retry)s]
Jumps == %(jumps)s
MaxTicks == %(max_ticks)d
VARIABLE S, hist, ticks
vars == <<S, hist, ticks>>

\* time is kept relative to now, so that the state space is finite without a bound on the clock
Rel(s, v) == IF v - s.now < -1 THEN -1 ELSE v - s.now
Norm(s) == [s EXCEPT !.now = 0,
                     !.wake = [t \in Thr |-> IF s.pend[t].op \in {"sleep", "slept"} THEN (IF s.wake[t] - s.now < 0 THEN 0 ELSE s.wake[t] - s.now) ELSE 0],
                     !.tstop = [t \in Thr |-> IF s.pc[t] \in {"s_lockM", "s_unlockM", "s_sleep", "s_slept", "f_sleep", "f_slept", "f_pLockM", "f_pUnlockM"} THEN Rel(s, s.tstop[t]) ELSE 0]]

Init == S = S0(cK) /\ hist = <<>> /\ ticks = 0
ThreadStep(t) == Enabled(S, t) /\ S' = Norm(Step(S, t)) /\ hist' = %(hist_thread)s /\ UNCHANGED ticks
TickStep(j) == TickEnabled(S) /\ S' = Norm(Tick(S, j)) /\ hist' = %(hist_tick)s /\ ticks' = %(ticks_next)s
Done == AllDone(S) /\ UNCHANGED vars
Next == (\E t \in Thr : ThreadStep(t)) \/ (\E j \in Jumps : TickStep(j)) \/ Done
Spec == Init /\ [][Next]_vars
SimSpec == Init /\ [][(\E t \in Thr : ThreadStep(t)) \/ (\E j \in Jumps : TickStep(j))]_vars
FairSpec == Spec /\ (\A t \in Thr : SF_vars(ThreadStep(t))) /\ WF_vars(\E j \in Jumps : TickStep(j))

View == <<[S EXCEPT !.out = <<>>], ticks>>
TickBound == ticks <= MaxTicks

InvC06 == C06ok(S)
InvC07 == C07ok(S)
InvFinal == FinalOk(S)
InvType == TypeOk(S)
Termination == <>AllDone(S)
EmitScript == AllDone(S) => PrintT(<<"SCRIPT", hist>>)
====
"""


def mc_module(d, name, prog, drop=0, qn=256, ndefs=None, scaled=True, close_retry=True, jumps=None, max_ticks=0,
              history=False):
    consts = dict(name=name, prog=tla_prog(prog), np=len(prog["threads"]), maxt=len(prog["threads"]) + 1,
                  ndefs=(1 + len(prog["sigs"])) if ndefs is None else ndefs, closer=(prog["closer"] + 1 if prog["closer"] else 0),
                  drop="TRUE" if drop else "FALSE", qn=qn, close_retry="TRUE" if close_retry else "FALSE")
    if scaled:
        consts.update(send_timeout=10, send_sleep=5, flush_timeout=20, poll_sleep=10)
        consts["jumps"] = jumps or "{0, 11, 21}"
    else:
        consts.update(send_timeout=5000, send_sleep=5, flush_timeout=20000, poll_sleep=10)
        consts["jumps"] = jumps or "{0, 6000, 21000}"
    consts["max_ticks"] = max_ticks
    if history:
        consts["hist_thread"] = "Append(hist, t)"
        consts["hist_tick"] = "Append(hist, -1 - j)"
    else:
        consts["hist_thread"] = "hist"
        consts["hist_tick"] = "hist"
    consts["ticks_next"] = "ticks + 1" if max_ticks else "ticks"
    path = os.path.join(d, name + ".tla")
    open(path, "w").write(MC_TEMPLATE % consts)
    return path


def mc_cfg(d, name, liveness=False, constraint=False, emit=False, view=True):
    path = os.path.join(d, name + ".cfg")
    lines = ["SPECIFICATION %s" % ("FairSpec" if liveness else "SimSpec" if emit else "Spec"),
             "INVARIANT InvC06", "INVARIANT InvC07", "INVARIANT InvFinal", "INVARIANT InvType"]
    if liveness:
        lines.append("PROPERTY Termination")
    if constraint:
        lines.append("CONSTRAINT TickBound")
    if emit:
        lines.append("INVARIANT EmitScript")
        lines.append("CHECK_DEADLOCK FALSE")
    if view:
        lines.append("VIEW View")
    open(path, "w").write("\n".join(lines) + "\n")
    return path


def conformance(ck, sc, tag, x0=1):
    """Tier B: the recorded schedules must be behaviours of Twr.tla with identical outputs (TwrTrace)."""
    full = os.path.join(sc, "twr_%s_full.ndjson" % tag)
    v = C.validate_trace_parallel("TwrTrace", "TwrTrace.cfg", full, parts=12, timeout=1500)
    ck.log("%s: tier-B conformance with Twr.tla: %d events, %d execution(s) left the model" % (tag, v.consumed, len(v.rejections)))
    return v


# ---------------------------------------------------------------- scripts from TLC's state graph
import re as _re
from collections import defaultdict as _dd, deque as _dq

_EDGE = _re.compile(r'^(-?\d+) -> (-?\d+) \[label="([^"]*)"')
_INIT = _re.compile(r'^(-?\d+) \[label=.*style = filled\]')


def _token(label):
    m = _re.match(r"ThreadStep\((\d+)\)", label)
    if m:
        return m.group(1)
    m = _re.match(r"TickStep\((\d+)\)", label)
    if m:
        j = int(m.group(1))
        return "T" if j == 0 else ("J" if j < 21000 and j != 21 else "K")
    return None


def edge_cover_scripts(dot, limit=None):
    """Schedules (strings of shim decisions) that together take every edge of the dumped Twr state graph:
    each is a path from the initial state to a terminal state (or to the exploration bound)."""
    edges = _dd(list)
    init = None
    with open(dot) as f:
        for line in f:
            m = _EDGE.match(line)
            if m:
                tok = _token(m.group(3))
                if tok is not None and m.group(1) != m.group(2):
                    edges[m.group(1)].append((tok, m.group(2)))
                continue
            if init is None:
                m = _INIT.match(line)
                if m:
                    init = m.group(1)
    if init is None:
        raise C.ToolFailure("no initial state in " + dot)
    # BFS tree from the initial state
    parent = {init: None}
    dq = _dq([init])
    while dq:
        u = dq.popleft()
        for tok, v in edges.get(u, ()):
            if v not in parent:
                parent[v] = (u, tok)
                dq.append(v)
    # distance to a terminal state (no out-edges), for finishing a path
    rev = _dd(list)
    for u, outs in edges.items():
        for tok, v in outs:
            rev[v].append(u)
    dist = {}
    dq = _dq()
    for u in parent:
        if not edges.get(u):
            dist[u] = 0
            dq.append(u)
    while dq:
        v = dq.popleft()
        for u in rev.get(v, ()):
            if u not in dist:
                dist[u] = dist[v] + 1
                dq.append(u)
    uncovered = {(u, i) for u in parent for i in range(len(edges.get(u, ())))}
    nedges = len(uncovered)
    scripts = []
    order = sorted(uncovered)
    for (u0, i0) in order:
        if (u0, i0) not in uncovered:
            continue
        # path to u0
        toks = []
        x = u0
        while parent[x] is not None:
            toks.append(parent[x][1])
            x = parent[x][0]
        toks.reverse()
        # take the edge, then keep going: prefer uncovered edges, otherwise head for a terminal state
        u, i = u0, i0
        steps = 0
        while True:
            tok, v = edges[u][i]
            uncovered.discard((u, i))
            toks.append(tok)
            u = v
            steps += 1
            outs = edges.get(u, ())
            if not outs or steps > 5000:
                break
            cand = [k for k in range(len(outs)) if (u, k) in uncovered]
            if cand:
                i = cand[0]
            else:
                best = None
                for k, (tk, w) in enumerate(outs):
                    if w in dist and (best is None or dist[w] < dist[outs[best][1]]):
                        best = k
                if best is None:
                    break
                i = best
        scripts.append("".join(toks))
        if limit and len(scripts) >= limit:
            break
    return scripts, len(parent), nedges, nedges - len(uncovered)


# ---------------------------------------------------------------- the campaign shared by C06 and C07
def sim_scripts(sc, name, prog, drop, num, depth, qn=256):
    """Schedules from TLC's random simulation of Twr.tla (real time constants)."""
    m = mc_module(sc, name, prog, drop=drop, qn=qn, scaled=False, history=True)
    cfg = mc_cfg(sc, name, emit=True, view=False)
    r = C.tlc(m, cfg, workers=4, timeout=900, heap="4g", simulate="num=%d" % num, args=["-depth", str(depth)])
    scripts = []
    for mm in _re.finditer(r'<<\s*"SCRIPT",\s*<<([^>]*)>>\s*>>', r.out):
        toks = []
        for v in mm.group(1).replace("\n", " ").split(","):
            v = v.strip()
            if not v:
                continue
            n = int(v)
            toks.append(str(n) if n >= 0 else {0: "T", 6000: "J", 21000: "K"}[-1 - n])
        scripts.append("".join(toks))
    scripts = sorted(set(scripts))
    return scripts, r


def run_campaign(ck, prop, sc, exe, rng, mc_progs, graph_progs, nrandom, sim=None, liveness=False, qn=256,
                 flush_bias=False, extra=()):
    """mc_progs: [(prog, drop)] model-checked exhaustively with scaled time constants;
    graph_progs: [(prog, drop, max_ticks)] whose complete state graph (real time constants, bounded number of
    clock ticks) is covered edge by edge with scripted runs of the real code;
    nrandom random programs under seeded priority schedules;  sim: (prog, drop, num, depth) simulation scripts."""
    texts, resets, origin = [], [], []
    # 1. exhaustive model checking of the design
    for k, (prog, drop) in enumerate(mc_progs):
        name = "TwrMC_%s_%d" % (prop, k)
        m = mc_module(sc, name, prog, drop=drop, qn=qn, scaled=True)
        cfg = mc_cfg(sc, name, liveness=liveness)
        r = C.tlc(m, cfg, timeout=2400, heap="16g")
        ok = ck.add_mc("Twr %s drop=%d%s" % (program_text(prog, {}).replace("\n", "; ")[5:], drop,
                                             " +termination under fairness" if liveness else ""), r)
        if not ok:
            cx = os.path.join(sc, name + "_cex.txt")
            open(cx, "w").write(r.out[-200000:])
            ck.violation({"where": "model", "config": name, "invariant": r.violated, "reason": "Twr.tla violates " + str(r.violated)},
                         [cx, m])
    # 2. every edge of the state graph, replayed
    gstats = []
    for k, (prog, drop, max_ticks) in enumerate(graph_progs):
        name = "TwrG_%s_%d" % (prop, k)
        m = mc_module(sc, name, prog, drop=drop, qn=qn, scaled=False, max_ticks=max_ticks)
        cfg = mc_cfg(sc, name, constraint=True)
        dot = os.path.join(sc, name)
        r = C.tlc(m, cfg, workers=1, timeout=2400, heap="16g", args=["-dump", "dot,actionlabels", dot])
        ok = ck.add_mc("Twr graph %s drop=%d ticks<=%d" % (program_text(prog, {}).replace("\n", "; ")[5:], drop, max_ticks), r)
        if not ok:
            cx = os.path.join(sc, name + "_cex.txt")
            open(cx, "w").write(r.out[-200000:])
            ck.violation({"where": "model", "config": name, "invariant": r.violated, "reason": "Twr.tla violates " + str(r.violated)},
                         [cx, m])
            continue
        scripts, nn, ne, cov = edge_cover_scripts(dot + ".dot")
        os.remove(dot + ".dot")
        gstats.append((nn, ne, cov, len(scripts)))
        cfgd = {"seed": 1 + k, "steps": STEP_BUDGET, "drop": drop, "pct": 0, "span": 100, "tick": 0, "jump": 0}
        for s in scripts:
            texts.append(program_text(prog, cfgd, script=s))
            resets.append(reset_fields(prog, drop, qn))
            origin.append("graph")
    # 3. simulation scripts of a larger program
    if sim:
        prog, drop, num, depth = sim
        scripts, r = sim_scripts(sc, "TwrSim_%s" % prop, prog, drop, num, depth, qn)
        ck.log("simulation of Twr.tla: %d complete behaviours turned into scripts" % len(scripts))
        cfgd = {"seed": 7, "steps": STEP_BUDGET, "drop": drop, "pct": 0, "span": 100, "tick": 0, "jump": 0}
        for s in scripts:
            texts.append(program_text(prog, cfgd, script=s))
            resets.append(reset_fields(prog, drop, qn))
            origin.append("sim")
    # 4. random programs under seeded priority schedules
    for i in range(nrandom):
        prog = gen_program(rng, qbytes=qn, flushes=True)
        if flush_bias and rng.random() < 0.6:
            # flushes and the close right behind big messages: the queue is full when they are issued
            for ops in prog["threads"]:
                for j in range(len(ops), 0, -1):
                    if rng.random() < 0.35:
                        ops.insert(j, ("L",))
        cfg = gen_cfg(rng)
        if cfg["tick"] == 1000:
            # time runs whenever it can, every retry loop runs to its timeout (thousands of steps per call): small programs
            prog = gen_program(rng, qbytes=qn, nthreads=rng.choice([1, 2]), maxops=2)
        texts.append(program_text(prog, cfg))
        resets.append(reset_fields(prog, cfg["drop"], qn))
        origin.append("random")
    for (prog, cfg) in extra:
        texts.append(program_text(prog, cfg))
        resets.append(reset_fields(prog, cfg["drop"], qn))
        origin.append("random")
    execs = run_all(exe, sc, texts)
    feats = {}
    ninfeasible = 0
    for e, o in zip(execs, origin):
        fs = e.feats
        if "infeasible" in fs and o != "random":
            ninfeasible += 1
        for f in fs:
            feats[f] = feats.get(f, 0) + 1
    others = []
    nok, v = judge(ck, prop, sc, execs, texts, prop.lower(), others=others, resets=resets)
    vb = conformance(ck, sc, prop.lower())
    if others:
        from collections import Counter
        for why, n in Counter(w for _, w in others).most_common(5):
            ck.log("note: %d execution(s) rejected for a reason that speaks about %s: %s" % (n, REASON_PROP.get(why, "?"), why))
    drift = len(vb.rejections) + ninfeasible
    if drift:
        ck.cov["design_conformance"] = "drift"
        first = vb.rejections[0] if vb.rejections else ["-", "-", "a scripted decision was not possible in the real code"]
        print("MODEL-DRIFT property=%s %d recorded execution(s) are not behaviours of Twr.tla (first: execution %s line %s: %s); "
              "the model-checking results do not speak about this tree" % (prop, drift, first[0], first[1], first[2]))
    nev = sum(e.nlines for e in execs)
    ck.cov["traces_validated_against_impl"] = nok
    ck.cov["evaluations"] = nev
    ck.cov["graph_edges_replayed"] = sum(g[2] for g in gstats)
    ck.cov["scripted_runs"] = sum(1 for o in origin if o != "random")
    ck.cov["random_runs"] = sum(1 for o in origin if o == "random")
    ck.cov["features"] = feats
    ck.cov["distinct_nontrivial"] = sum(g[2] for g in gstats) + sum(1 for o in origin if o == "random")
    ck.cov["rule"] = ("one case = one edge (state, scheduling decision) of the complete Twr.tla state graph executed on the real code, "
                      "or one random program under one seeded schedule; non-trivial = run to completion on the real jls_twr_* and "
                      "judged event by event by TwrContractTrace, with the synchronisation skeleton and every queue/apply/return "
                      "output compared with Twr.tla (TwrTrace)")
    ck.cov["exhaustive"] = False
    for e in execs[:1]:
        ck.cov["samples"] = [l[:200] for l in e.lines() if not l.startswith('{"e":"Sync"')][:8]
    ck.assumptions += [
        "the real code runs under a cooperative scheduler (harness/sched_shim.c): threads interleave only at pthread / nanosleep "
        "operations, i.e. sequentially consistent interleavings at synchronisation points; data races between such points "
        "(flush_processed_id and quit are read without a lock) are outside this grain",
        "virtual time: a Tick moves the clock to the next wake-up time, optionally 6 s or 21 s beyond it",
        "queue buffer shrunk to %d bytes through the JLS_VERIF_MRB_BUFFER_SIZE hook" % qn,
        "schedules are weakly fair (an enabled thread is run after at most 20000 decisions); model liveness uses strong fairness per thread",
    ]
    return execs
