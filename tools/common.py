"""Shared machinery for the /verif checks: building /repo, running TLC,
trace validation, evidence and known-finding bookkeeping.

Nothing in here decides a property.  Verdicts come from TLC (invariants of the
exhaustive configurations, and the trace specifications' rejections)."""
import atexit
import json
import os
import re
import shutil
import subprocess
import sys
import tempfile
import time

ROOT = os.path.dirname(os.path.dirname(os.path.abspath(__file__)))
SPEC = os.path.join(ROOT, "spec")
HARNESS = os.path.join(ROOT, "harness")
REPO = os.environ.get("JLS_REPO", "/repo")
NCPU = os.cpu_count() or 4

_scratch = None


def scratch():
    """Per-run scratch directory on tmpfs (removed at exit)."""
    global _scratch
    if _scratch is None:
        base = "/dev/shm" if os.path.isdir("/dev/shm") else tempfile.gettempdir()
        _scratch = tempfile.mkdtemp(prefix="jlsv.", dir=base)
        atexit.register(lambda: shutil.rmtree(_scratch, ignore_errors=True))
    return _scratch


def build_dir():
    """Where harness/build.sh puts the library objects of this run: private to the run (inside the scratch directory),
    inherited by worker processes through the environment."""
    if not os.environ.get("JLS_BUILD_DIR"):
        os.environ["JLS_BUILD_DIR"] = os.path.join(scratch(), "build")
    os.makedirs(os.environ["JLS_BUILD_DIR"], exist_ok=True)
    return os.environ["JLS_BUILD_DIR"]


def seed():
    try:
        return int(os.environ.get("VERIF_SEED", "1"))
    except ValueError:
        return 1


class ToolFailure(Exception):
    pass


def run(cmd, timeout=600, cwd=None, env=None, stdin=None, check=True, capture=True):
    e = dict(os.environ)
    if env:
        e.update(env)
    try:
        p = subprocess.run(cmd, cwd=cwd, env=e, input=stdin, timeout=timeout,
                           stdout=subprocess.PIPE if capture else None,
                           stderr=subprocess.STDOUT if capture else None)
    except subprocess.TimeoutExpired as ex:
        raise ToolFailure("timeout after %ss: %s" % (timeout, " ".join(map(str, cmd))[:300])) from ex
    out = p.stdout.decode("utf-8", "replace") if capture and p.stdout is not None else ""
    if check and p.returncode != 0:
        raise ToolFailure("exit %d: %s\n%s" % (p.returncode, " ".join(map(str, cmd))[:300], out[-4000:]))
    return p.returncode, out


def build(flavour="plain", defs=()):
    """(Re)build the library objects from /repo's working tree."""
    bd = build_dir()
    rc, out = run([os.path.join(HARNESS, "build.sh"), flavour] + list(defs), timeout=600, check=False)
    if rc != 0:
        raise ToolFailure("library build failed (%s):\n%s" % (flavour, out[-4000:]))
    return os.path.join(bd, flavour)


def link(out, sources, flavour="plain", wraps=(), cflags=(), libs=("-lm", "-lpthread"), extra_objs=()):
    cc = "clang" if flavour == "asan" else "gcc"
    cmd = [cc, "-std=gnu99", "-O1", "-g", "-msse4.2", "-I%s/include" % REPO, "-I%s/include_prv" % REPO,
           "-I%s" % HARNESS]
    if flavour == "asan":
        cmd += ["-fsanitize=address,undefined", "-fno-sanitize=alignment", "-fno-omit-frame-pointer"]
    cmd += list(cflags)
    cmd += [os.path.join(HARNESS, s) if not os.path.isabs(s) else s for s in sources]
    cmd += list(extra_objs)
    cmd += [os.path.join(build_dir(), flavour, "libjls.a")]
    for w in wraps:
        cmd.append("-Wl,--wrap=%s" % w)
    cmd += ["-o", out] + list(libs)
    rc, o = run(cmd, timeout=300, check=False)
    if rc != 0:
        raise ToolFailure("harness build failed:\n%s" % o[-4000:])
    return out


def isolated(func, timeout=900):
    """Run func() in a forked child so that a fault or an endless loop of the code under test (called in-process
    through ctypes) cannot take the check down.  Returns "ok", "signal N", "exit N" or "timeout"."""
    sys.stdout.flush()
    pid = os.fork()
    if pid == 0:
        code = 0
        try:
            func()
        except BaseException:
            import traceback
            traceback.print_exc()
            code = 77
        finally:
            sys.stdout.flush()
            os._exit(code)
    t0 = time.time()
    while True:
        wpid, status = os.waitpid(pid, os.WNOHANG)
        if wpid == pid:
            if os.WIFSIGNALED(status):
                return "signal %d" % os.WTERMSIG(status)
            rc = os.WEXITSTATUS(status)
            return "ok" if rc == 0 else "exit %d" % rc
        if time.time() - t0 > timeout:
            os.kill(pid, 9)
            os.waitpid(pid, 0)
            return "timeout"
        time.sleep(0.05)


class TlcResult:
    def __init__(self):
        self.exit = None
        self.out = ""
        self.generated = 0
        self.distinct = 0
        self.depth = 0
        self.violated = None      # name of violated invariant / property
        self.error = None         # other error text
        self.prints = []          # PrintT'd tuples as raw strings
        self.wall = 0.0
        self.coverage = {}

    @property
    def ok(self):
        return self.exit == 0 and self.violated is None and self.error is None


_tlc_counter = [0]
_tlc_lock = __import__("threading").Lock()


def tlc(module, cfg, workers=None, timeout=1200, env=None, args=(), heap=None, simulate=None, coverage=False):
    """Run TLC on spec/<module>.tla with configuration cfg (path or name in spec/)."""
    with _tlc_lock:
        _tlc_counter[0] += 1
        meta = os.path.join(scratch(), "tlcmeta%d" % _tlc_counter[0])
    cfgp = cfg if os.path.isabs(cfg) else os.path.join(SPEC, cfg)
    cmd = ["java", "-XX:+UseParallelGC", "-Xss64m"]
    if heap:
        cmd.append("-Xmx%s" % heap)
    cmd += ["-DTLA-Library=%s" % SPEC, "-cp", "/opt/veriftools/tla/tla2tools.jar:/opt/veriftools/tla/CommunityModules-deps.jar",
            "tlc2.TLC", "-noGenerateSpecTE", "-metadir", meta, "-config", cfgp,
            "-workers", str(workers or NCPU)]
    if coverage:
        cmd += ["-coverage", "1"]
    if simulate:
        cmd += ["-simulate", simulate]
    cmd += list(args)
    cmd.append(module if module.endswith(".tla") else module + ".tla")
    t0 = time.time()
    r = TlcResult()
    try:
        rc, out = run(cmd, timeout=timeout, cwd=(os.path.dirname(module) if os.path.isabs(module) else SPEC), env=env, check=False)
    finally:
        shutil.rmtree(meta, ignore_errors=True)
    r.wall = time.time() - t0
    r.exit, r.out = rc, out
    m = re.findall(r"(\d+) states generated, (\d+) distinct states found", out)
    if m:
        r.generated, r.distinct = int(m[-1][0]), int(m[-1][1])
    m = re.search(r"depth of the complete state graph search is (\d+)", out)
    if m:
        r.depth = int(m.group(1))
    m = re.search(r"Error: Invariant (\S+) is violated", out)
    if m:
        r.violated = m.group(1)
    m2 = re.search(r"Error: (Action property|Temporal properties|Property) ?(\S*)", out)
    if m2 and not r.violated:
        r.violated = (m2.group(2) or m2.group(1)).strip()
    if "Error: Deadlock reached" in out and not r.violated:
        r.violated = "Deadlock"
    if "Temporal properties were violated" in out and not r.violated:
        r.violated = "Temporal"
    if rc != 0 and r.violated is None:
        m3 = re.search(r"Error: (.*)", out)
        r.error = (m3.group(1) if m3 else "exit %d" % rc) + "\n" + (out[m3.start():m3.start() + 2500] if m3 else out[-3000:])
    r.prints = re.findall(r"^<<.*>>$", out, flags=re.M)
    if coverage:
        for mm in re.finditer(r"^<(\w+) line \d+, col \d+ to line \d+, col \d+ of module (\w+)>: (\d+):(\d+)", out, flags=re.M):
            r.coverage[mm.group(1)] = r.coverage.get(mm.group(1), 0) + int(mm.group(3))
    return r


def parse_tla_value(s):
    """Parse the small subset of TLA+ value syntax that our PrintT lines use:
    tuples <<..>>, strings, integers, TRUE/FALSE, sets {..}.  Returns Python lists."""
    pos = [0]

    def ws():
        while pos[0] < len(s) and s[pos[0]] in " \n\t":
            pos[0] += 1

    def val():
        ws()
        if s.startswith("<<", pos[0]):
            pos[0] += 2
            return seq(">>")
        if s[pos[0]] == "{":
            pos[0] += 1
            return seq("}")
        if s[pos[0]] == '"':
            j = pos[0] + 1
            buf = []
            while s[j] != '"':
                if s[j] == "\\":
                    j += 1
                buf.append(s[j])
                j += 1
            pos[0] = j + 1
            return "".join(buf)
        m = re.match(r"-?\d+", s[pos[0]:])
        if m:
            pos[0] += len(m.group(0))
            return int(m.group(0))
        m = re.match(r"[A-Za-z_]\w*", s[pos[0]:])
        if m:
            pos[0] += len(m.group(0))
            w = m.group(0)
            return True if w == "TRUE" else False if w == "FALSE" else w
        raise ValueError("cannot parse TLA value at %d: %r" % (pos[0], s[pos[0]:pos[0] + 40]))

    def seq(close):
        items = []
        ws()
        if s.startswith(close, pos[0]):
            pos[0] += len(close)
            return items
        while True:
            items.append(val())
            ws()
            if s.startswith(",", pos[0]):
                pos[0] += 1
                continue
            if s.startswith(close, pos[0]):
                pos[0] += len(close)
                return items
            raise ValueError("cannot parse TLA value near %r" % s[pos[0]:pos[0] + 40])

    return val()


class TraceVerdict:
    def __init__(self):
        self.consumed = 0
        self.total = 0
        self.rejections = []   # [execution, line, reason]
        self.tlc = None

    @property
    def complete(self):
        return self.total > 0 and self.consumed == self.total


def validate_trace(module, cfg, trace_path, timeout=1200, env=None, heap="4g"):
    """Validate an ndjson trace with a total-style trace specification.
    The spec prints <<"TRACE_RESULT", consumed, total>> and <<"TRACE_REJ", rej>>."""
    e = {"TRACE": trace_path}
    if env:
        e.update(env)
    r = tlc(module, cfg, workers=1, timeout=timeout, env=e, heap=heap)
    v = TraceVerdict()
    v.tlc = r
    if r.error or r.violated:
        try:
            shutil.copy(trace_path, "/dev/shm/last_failed_trace.ndjson")
            open("/dev/shm/last_failed_tlc.out", "w").write(r.out)
        except OSError:
            pass
        raise ToolFailure("trace validation run failed (%s / %s):\n%s" % (module, r.violated, (r.error or r.out)[-3000:]))
    for m in re.finditer(r'^<<\s*"TRACE_(RESULT|REJ)"', r.out, flags=re.M):
        # values may be pretty-printed over several lines: parse from the match on
        try:
            t = parse_tla_value(r.out[m.start():])
        except (ValueError, IndexError):
            raise ToolFailure("cannot parse TLC output of %s near: %s" % (module, r.out[m.start():m.start() + 200]))
        if t[0] == "TRACE_RESULT":
            v.consumed, v.total = t[1], t[2]
        else:
            v.rejections = t[1]
    if not v.complete:
        raise ToolFailure("trace not consumed completely by %s: %d of %d lines\n%s" % (module, v.consumed, v.total, r.out[-2000:]))
    return v


def validate_trace_parallel(module, cfg, trace_path, parts=8, timeout=2400, heap="4g"):
    """Split the trace at execution boundaries (Reset events) into `parts` files and validate them with
    concurrent TLC processes; line numbers of rejections are mapped back to the whole trace."""
    import concurrent.futures
    with open(trace_path) as f:
        lines = f.readlines()
    starts = [i for i, l in enumerate(lines) if l.startswith('{"e":"Reset"')]
    if len(starts) < 2 * parts or len(lines) < 4000:
        return validate_trace(module, cfg, trace_path, timeout=timeout, heap=heap)
    # balance by number of lines
    target = len(lines) / parts
    cuts = [0]
    for st in starts[1:]:
        if st - cuts[-1] >= target and len(cuts) < parts:
            cuts.append(st)
    cuts.append(len(lines))
    files = []
    for k in range(len(cuts) - 1):
        fp = "%s.part%d" % (trace_path, k)
        with open(fp, "w") as f:
            f.writelines(lines[cuts[k]:cuts[k + 1]])
        files.append((fp, cuts[k]))
    out = TraceVerdict()
    out.tlc = None
    with concurrent.futures.ThreadPoolExecutor(max_workers=len(files)) as ex:
        futs = [ex.submit(validate_trace, module, cfg, fp, timeout, None, heap) for fp, _ in files]
        for (fp, off), fu in zip(files, futs):
            v = fu.result()
            out.consumed += v.consumed
            out.total += v.total
            out.rejections += [[r[0], r[1] + off, r[2]] for r in v.rejections]
            if out.tlc is None:
                out.tlc = v.tlc
            else:
                out.tlc.prints += v.tlc.prints
                out.tlc.wall = max(out.tlc.wall, v.tlc.wall)
            os.remove(fp)
    return out


def validate_independent(module, cfg, trace_path, parts=12, timeout=2400, heap="3g"):
    """For traces whose lines are judged independently of each other: deal the lines
    round-robin to `parts` concurrent TLC processes; line numbers are mapped back."""
    import concurrent.futures
    lines = open(trace_path).readlines()
    parts = max(1, min(parts, len(lines)))
    files = []
    for k in range(parts):
        sub = lines[k::parts]
        if sub:
            fp = "%s.p%d" % (trace_path, k)
            open(fp, "w").writelines(sub)
            files.append((fp, k))
    out = TraceVerdict()
    with concurrent.futures.ThreadPoolExecutor(max_workers=parts) as ex:
        futs = [ex.submit(validate_trace, module, cfg, fp, timeout, None, heap) for fp, _ in files]
        for (fp, k), fu in zip(files, futs):
            v = fu.result()
            out.consumed += v.consumed
            out.total += v.total
            out.rejections += [[r[0], (r[1] - 1) * parts + k + 1, r[2]] for r in v.rejections]
            if out.tlc is None:
                out.tlc = v.tlc
            else:
                out.tlc.prints += v.tlc.prints
            os.remove(fp)
    return out


def load_known_findings():
    p = os.path.join(ROOT, "known_findings.json")
    if not os.path.exists(p):
        return []
    with open(p) as f:
        return json.load(f)["findings"]


class Check:
    """Bookkeeping of one property check: evidence, violations, known findings."""

    def __init__(self, pid, level="model_checking"):
        self.pid = pid
        self.level = level
        self.tier = os.environ.get("VERIF_TIER", "quick")
        self.t0 = time.time()
        self.cov = {"states": 0, "transitions": 0, "traces_validated_against_impl": 0, "samples": [],
                    "evaluations": 0, "distinct_nontrivial": 0, "rule": "", "mc_runs": [], "design_conformance": "ok",
                    "known_findings_seen": []}
        self.assumptions = []
        self.violations = []
        self.known = [k for k in load_known_findings()
                      if (k["property"] == pid or pid in k.get("also", [])) and k.get("status") == "known"]
        self.known_seen = {}
        self.notes = []

    def log(self, *a):
        print("[%s %6.1fs]" % (self.pid, time.time() - self.t0), *a, flush=True)

    def add_mc(self, name, r, require_ok=True):
        """Record an exhaustive TLC run.  A violated invariant of a design model is a
        violation of the property *on the model*; callers decide how to confirm it."""
        self.cov["states"] += r.distinct
        self.cov["transitions"] += r.generated
        self.cov["mc_runs"].append({"config": name, "distinct": r.distinct, "generated": r.generated,
                                    "depth": r.depth, "wall_s": round(r.wall, 1), "ok": r.ok,
                                    "violated": r.violated})
        if r.error:
            raise ToolFailure("TLC failed on %s: %s" % (name, r.error))
        self.log("MC %s: %d distinct / %d generated, depth %d, %.1fs%s" % (
            name, r.distinct, r.generated, r.depth, r.wall, "" if r.ok else " VIOLATED " + str(r.violated)))
        return r.ok

    def match_known(self, descr):
        """descr: dict describing a rejection.  A known finding matches when every key of
        its 'match' equals the description's value (lists = any-of)."""
        for k in self.known:
            ok = True
            for key, want in k["match"].items():
                got = descr.get(key)
                if isinstance(want, list):
                    if got not in want:
                        ok = False
                elif got != want:
                    ok = False
            if ok:
                return k
        return None

    def violation(self, descr, replay_files=None):
        """Register a rejection; returns True if it is a new (unlisted) violation."""
        k = self.match_known(descr)
        if k is not None:
            self.known_seen.setdefault(k["id"], 0)
            self.known_seen[k["id"]] += 1
            return False
        rid = len(self.violations) + 1
        d = os.path.join(os.environ.get("VERIF_REPLAY_DIR") or os.path.join(ROOT, "replay"), "%s-%d" % (self.pid, min(rid, 40)))
        if rid <= 40:       # replay material for the first 40 violations; the rest are counted
            shutil.rmtree(d, ignore_errors=True)
            os.makedirs(d, exist_ok=True)
            with open(os.path.join(d, "violation.json"), "w") as f:
                json.dump(descr, f, indent=1, default=str)
            for src in (replay_files or []):
                if os.path.exists(src):
                    shutil.copy(src, d)
        self.violations.append((descr, d))
        return True

    def finish(self):
        for k in self.known:
            if k["id"] in self.known_seen:
                print("KNOWN-FINDING: property=%s %s (%s; reproduced %d times)" % (self.pid, k["id"], k["what"], self.known_seen[k["id"]]))
        self.cov["known_findings_seen"] = sorted(self.known_seen)
        if self.violations:
            from collections import Counter
            cnt = Counter(str(d.get("reason", d.get("invariant", "?")))[:90] for d, _ in self.violations)
            for why, n in cnt.most_common(12):
                print("  %6d x %s" % (n, why))
        for descr, d in self.violations[:20]:
            print("VIOLATION property=%s replay=%s" % (self.pid, d))
            print("  ", json.dumps(descr, default=str)[:600])
        ev = {"property_id": self.pid, "tier": self.tier if self.tier in ("quick", "thorough") else "quick",
              "seed": seed(), "level": self.level, "coverage": self.cov, "assumptions": self.assumptions,
              "wall_s": round(time.time() - self.t0, 1), "violations": len(self.violations)}
        if not self.cov["samples"]:
            self.cov["samples"] = ["(no sample recorded)"]
        # (runs against other trees - seeded changes - set VERIF_EVIDENCE_DIR so that evidence/ keeps describing /repo)
        evd = os.environ.get("VERIF_EVIDENCE_DIR") or os.path.join(ROOT, "evidence")
        os.makedirs(evd, exist_ok=True)
        with open(os.path.join(evd, "%s.json" % self.pid), "w") as f:
            json.dump(ev, f, indent=1, default=str)
        self.log("done: %d violation(s), %d known finding(s) reproduced" % (len(self.violations), len(self.known_seen)))
        return 1 if self.violations else 0
