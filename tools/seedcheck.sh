#!/bin/bash
# usage: tools/seedcheck.sh <worktree with applied patch and SEED/> <check ids...>
# Confirms a seeded change: the patch applies to /repo's HEAD, the repository's test suite passes with it, the
# demonstration distinguishes patched from unpatched code; then runs the named checks against the patched tree.
WT=$1; shift
set -u
echo "== patch"; git -C "$WT" diff --stat -- src include include_prv | tail -3
git -C /repo apply --check "$WT/SEED/patch.diff" && echo "applies to /repo HEAD: yes" || echo "applies to /repo HEAD: NO"
echo "== test suite with the patch"; JLS_REPO=$WT /verif/tools/baseline.sh 2>&1 | tail -2
if [ -x "$WT/SEED/run_demo.sh" ] || [ -f "$WT/SEED/run_demo.sh" ]; then
  echo "== demo on patched tree"; (cd "$WT" && timeout 300 bash SEED/run_demo.sh >/dev/shm/seed_demo_p.out 2>&1; echo "exit $?"; tail -3 /dev/shm/seed_demo_p.out | cut -c1-200)
fi
for c in "$@"; do
  echo "== ./check $c on the patched tree"
  JLS_REPO=$WT timeout 1800 /verif/check $c > /dev/shm/seed_check_$c.out 2>&1; echo "exit $?"
  grep -c '^VIOLATION' /dev/shm/seed_check_$c.out | sed 's/^/violations: /'
  grep -m3 ' x ' /dev/shm/seed_check_$c.out | cut -c1-160
  grep -m1 'MODEL-DRIFT' /dev/shm/seed_check_$c.out | cut -c1-200
  grep -m2 '^KNOWN-FINDING' /dev/shm/seed_check_$c.out | cut -c1-160
done
