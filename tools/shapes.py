"""Writer-session shapes: the graph of spec/JlsShapes.tla turned into concrete programs for the real library.

graph(ck)            model-checks JlsShapes.tla, dumps its state graph, returns (init, out) as props.c10.parse_graph does
scripts(...)         paths from the initial state that together take the wanted (shape, call) pairs
program(...)         one path -> (program, model) in the convention of progs.gen_writer_program
programs(ck, ...)    the three steps together; logs and records coverage in the check's evidence"""
import os
import re
from collections import defaultdict

import common as C
import progs

CAPS_QUICK = dict(CapWr=2, CapAnno0=2, CapAnno=1, CapUtc=1, CapUd=1)
CAPS_THOROUGH = dict(CapWr=2, CapAnno0=2, CapAnno=1, CapUtc=1, CapUd=2)
_EDGE = re.compile(r'^(-?\d+) -> (-?\d+) \[label="Do\(<<(.*)>>\)"')
_INIT = re.compile(r'^(-?\d+) \[label=.*style = filled\]')


def _cfg(caps, extra=""):
    return ("SPECIFICATION Spec\nCONSTANTS\n" + "".join("  %s = %d\n" % kv for kv in sorted(caps.items()))
            + "INVARIANT TypeOk\n" + extra + "CHECK_DEADLOCK FALSE\n")


def graph(ck, caps):
    sc = C.scratch()
    cfg = os.path.join(sc, "JlsShapes_%d.cfg" % sum(caps.values()))
    open(cfg, "w").write(_cfg(caps))
    dot = os.path.join(sc, "shapes")
    r = C.tlc("JlsShapes", cfg, workers=1, timeout=900, heap="6g", args=["-fp", "0", "-dump", "dot,actionlabels", dot])
    if not ck.add_mc("JlsShapes %s (all writer-session shapes; graph dumped for replay)" % " ".join("%s=%d" % kv for kv in sorted(caps.items())), r):
        raise C.ToolFailure("JlsShapes.tla is inconsistent: %s" % r.violated)
    # vacuity guard: the shape that exposed the repair defect (no FSR signal, annotations on signal 0) is reachable
    cfg2 = os.path.join(sc, "JlsShapes_reach.cfg")
    open(cfg2, "w").write(_cfg(caps, "INVARIANT NoFsrShapeReachable\n"))
    r2 = C.tlc("JlsShapes", cfg2, workers=2, timeout=600, heap="4g")
    if r2.violated != "NoFsrShapeReachable":
        raise C.ToolFailure("JlsShapes.tla: the closed file without any FSR signal is not reachable (%s)" % r2.violated)
    out = defaultdict(dict)
    init = None
    with open(dot + ".dot") as f:
        for line in f:
            m = _EDGE.match(line)
            if m:
                call = " ".join(t.strip().strip('\\"') for t in m.group(3).split(","))
                out[m.group(1)][call] = m.group(2)
                continue
            if init is None:
                m = _INIT.match(line)
                if m:
                    init = m.group(1)
    os.remove(dot + ".dot")
    if init is None:
        raise C.ToolFailure("no initial state in the JlsShapes graph")
    return init, out


def scripts(init, out, want, max_scripts, max_len=40):
    """Greedy cover: each script walks from the initial state to the nearest state with wanted calls, takes wanted
    calls while it can (self-loops first), and ends with close."""
    from collections import deque
    by_state = {}
    for (u, c) in sorted(want):
        by_state.setdefault(u, []).append(c)          # lists in a fixed order: the same seed gives the same programs
    res = []
    covered = set()
    # one breadth-first tree from the initial state (the graph is deterministic): shortest call sequence to every shape
    parent = {init: None}
    order = []
    dq = deque([init])
    while dq:
        u = dq.popleft()
        order.append(u)
        for c, v in sorted(out[u].items()) if u in out else ():
            if v not in parent and c != "close":
                parent[v] = (u, c)
                dq.append(v)
    nxt_i = 0
    while by_state and len(res) < max_scripts:
        while nxt_i < len(order) and not by_state.get(order[nxt_i]):
            nxt_i += 1                       # work only ever disappears: the nearest shape with work moves outwards
        if nxt_i >= len(order):
            break
        goal = order[nxt_i]
        calls = []
        x = goal
        while parent[x] is not None:
            calls.append(parent[x][1])
            x = parent[x][0]
        calls.reverse()
        u = goal
        closed = False
        while len(calls) < max_len:
            mine = by_state.get(u)
            if not mine:
                nxt = None
                for c, v in sorted(out[u].items()):
                    if c != "close" and v != u and by_state.get(v):
                        nxt = (c, v)
                        break
                if nxt is None:
                    break
                calls.append(nxt[0])
                u = nxt[1]
                continue
            stay = [c for c in mine if out[u][c] == u]
            leave = [c for c in mine if out[u][c] != u and c != "close"]
            c = stay[0] if stay else (leave[0] if leave else "close")
            mine.remove(c)
            if not mine:
                del by_state[u]
            covered.add((u, c))
            calls.append(c)
            u = out[u][c]
            if c == "close":
                closed = True
                break
        if not closed:
            calls.append("close")
            if "close" in by_state.get(u, ()):
                by_state[u].remove("close")
                covered.add((u, "close"))
                if not by_state[u]:
                    del by_state[u]
        res.append(calls)
    return res, covered


def program(rng, x, kind, calls, types=None):
    """One history -> (program, model).  Amount classes become sample counts relative to the signal's normalised
    geometry: few = less than one summary entry, block = exactly one data block, many = several blocks and a rest."""
    lit = progs.lit
    types = types or progs.ALL_TYPES
    ops = [{"op": "wopen", "twr": False}]
    feat = {"shape"}
    sigs = {}
    nud = 0
    step = 0
    ts0 = 0
    have_src = False
    for c in calls:
        step += 1
        t = c.split()
        if t[0] == "src":
            have_src = True
            ops.append({"op": "source", "id": 1, "name": lit("src1"), "vendor": rng.choice([None, lit("v")]), "model": None,
                        "version": None, "serial": None})
        elif t[0] in ("fsr", "vsr"):
            g = int(t[1])
            dt = rng.choice(types) if t[0] == "fsr" else "f32"
            spd, sdf, eps, sumdf = progs.small_geometry(rng, dt)
            base = rng.choice([0, 0, 1000, -500])
            first = base + rng.choice([0, 0, 3, -2, 100])
            tb = rng.choice([0, 1700000000 * (1 << 30)])
            nspd, nsdf, neps, nsum = progs.normalise(dt, spd, sdf, eps, sumdf)
            sigs[g] = {"id": g, "src": 1 if have_src else 0, "dt": dt, "spd": spd, "sdf": sdf, "eps": eps, "sumdf": sumdf, "adf": rng.choice([0, 10]),
                       "udf": rng.choice([0, 10]), "rate": rng.choice([1000, 48000, 1000000000]), "base": base, "tbase": tb,
                       "next": first, "first": first, "norm": (nspd, nsdf, neps, nsum), "defined": True, "nanno": 0, "nutc": 0,
                       "written": 0, "anno_ts": first, "utc_id": first, "utc_t": 0, "vsr": t[0] == "vsr",
                       "gen": (["bpat", rng.choice([0x10, 0x31, 0x55, 0x80])] if progs.WIDTH[dt] <= 8 and rng.random() < 0.3 else ["rnd"])}
            s = sigs[g]
            if not have_src:
                feat.add("source-0")
            op = {"op": "signal", "id": g, "src": 1 if have_src else 0, "dt": dt, "q": rng.choice([0, 0, 0, 5, 250]) if not dt.startswith("f") else 0, "rate": s["rate"], "spd": spd, "sdf": sdf, "eps": eps, "sumdf": sumdf,
                  "adf": s["adf"], "udf": s["udf"], "name": lit("sig%d" % g), "units": rng.choice([None, lit("V")]), "base": base, "tbase": tb}
            if t[0] == "vsr":
                op["st"] = 1
                op["rate"] = 0
                feat.add("vsr")
            else:
                feat.add("type-" + dt)
            ops.append(op)
        elif t[0] in ("wr", "gap"):
            g = int(t[1])
            s = sigs[g]
            nspd, nsdf = s["norm"][0], s["norm"][1]
            idv = s["next"]
            if t[0] == "gap":
                gap = rng.choice([1, nsdf, nspd - 1, nspd + 1])
                idv += gap
                n = nspd + rng.randint(1, nspd)
                feat.add("gap")
                feat.add("gap-" + s["dt"])
            elif t[2] == "few":
                n = rng.randint(1, max(1, nsdf - 1))
            elif t[2] == "block":
                n = nspd
            else:
                n = nspd * rng.choice([2, 3, 11]) + rng.randint(1, nspd - 1)
            ops.append({"op": "fsr", "sig": g, "id": idv, "n": n, "gen": s["gen"]})
            s["next"] = idv + n
            s["written"] += n
        elif t[0] == "anno":
            g = int(t[1])
            stype = rng.choice([1, 1, 2, 3])
            if g == 0:
                ts0 += rng.choice([0, 1, 5])
                ts = ts0
                feat.add("anno-sig0")
            else:
                s = sigs[g]
                s["anno_ts"] += rng.choice([0, 1, 5, 100])
                ts = s["anno_ts"]
                s["nanno"] += 1
            ops.append({"op": "anno", "sig": g, "ts": ts, "atype": rng.choice([0, 1, 2, 3]), "group": rng.choice([0, 1, 255]), "stype": stype,
                        "ybits": rng.choice([0, 0x3f800000]),
                        "data": ["rep", rng.choice([0, 1, 33]), rng.randint(1, 10 ** 6)] if stype == 1 else lit("a%d" % step)})
        elif t[0] == "utc":
            g = int(t[1])
            s = sigs[g]
            s["utc_id"] += rng.choice([1, 10, 100])
            s["utc_t"] += rng.choice([1000, 50000, 1 << 20])
            ops.append({"op": "utc", "sig": g, "id": s["utc_id"], "t": s["tbase"] + s["utc_t"]})
            s["nutc"] += 1
        elif t[0] == "ud":
            if t[1] == "empty":
                ops.append({"op": "userdata", "meta": rng.choice([0, 5, 0xfff]), "stype": 1, "data": ["rep", 0, 1]})
                feat.add("ud-empty")
            elif t[1] == "small":
                ops.append({"op": "userdata", "meta": rng.choice([0, 5, 0xfff]), "stype": 1, "data": ["rep", rng.choice([1, 7, 100]), rng.randint(1, 10 ** 6)]})
            else:
                ops.append({"op": "userdata", "meta": rng.choice([0, 5, 0xfff]), "stype": rng.choice([2, 3]), "data": lit("ud%d" % step)})
            nud += 1
        elif t[0] == "omit":
            ops.append({"op": "omit", "sig": 1, "en": int(t[1])})
            feat.add("omit")
        elif t[0] == "flush":
            ops.append({"op": "flush"})
            feat.add("flush")
        elif t[0] == "close":
            ops.append({"op": "wclose"})
    if not any(not s["vsr"] for s in sigs.values()):
        feat.add("no-fsr")
    model = {"sigs": {}, "nud": nud, "anno_ts": ts0}
    for g, s in sigs.items():
        if s["vsr"]:
            continue               # reader windows, lengths and UTC are FSR matters; the VSR signal's annotations are read below
        s["length"] = s["next"] - s["first"] if s["written"] else 0
        s["end"] = s["next"]
        if 0 < s["length"] < s["norm"][1]:
            feat.add("shorter-than-entry")
        if s["written"] == 0:
            feat.add("empty-signal")
        model["sigs"][g] = s
    prog = {"x": x, "kind": kind, "feat": sorted(feat), "ops": ops, "shape": calls}
    model["vsr"] = [g for g, s in sigs.items() if s["vsr"]]
    return prog, model


def reader_ops(rng, model, nreads=6):
    """progs.reader_ops plus the annotations of the VSR signal"""
    rd = progs.reader_ops(rng, model, nreads=nreads, with_defs=True)
    for g in model.get("vsr", []):
        rd.insert(-1, {"op": "signal1", "id": g})
        rd.insert(-1, {"op": "annos", "sig": g, "t": -(10 ** 6)})
    return rd


def programs(ck, rng, kind, thorough, budget, x0=0, types=None):
    """(program, model) for scripts that cover `budget` sampled (shape, call) pairs (budget None: all of them)."""
    init, out = graph(ck, CAPS_THOROUGH if thorough else CAPS_QUICK)
    pairs = sorted((u, c) for u in sorted(out) for c in sorted(out[u]))
    want = pairs if (budget is None or budget >= len(pairs)) else rng.sample(pairs, budget)
    scr, covered = scripts(init, out, set(want), max_scripts=len(want))
    res = [program(rng, x0 + i + 1, kind, calls, types=types) for i, calls in enumerate(scr)]
    ck.log("shape graph: %d shapes, %d (shape, call) pairs; %d histories take %d of them" % (len(out), len(pairs), len(scr), len(covered)))
    ck.cov["shape_pairs"] = len(pairs)
    ck.cov["shape_pairs_executed"] = len(covered)
    ck.cov["shape_histories"] = len(scr)
    return res
