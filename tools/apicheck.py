"""Common part of the API-contract checks (C01 C09 C11 C12 C13 C15 ...): run
generated programs on the real library, validate the recorded trace against
JlsApiTrace.tla, and turn TLC's rejections into violations / known findings."""
import json
import os

import common as C
import runner

# which property a rejection reason speaks about
REASON_PROP = {
    "returned samples differ from what was written": "C01",
    "returned runs do not cover the window": "C01",
    "read inside the signal failed": "C01",
    "wrong signal length": "C01",
    "length query failed": "C01",
    "wrote outside the caller's buffer": "C10",
    "read outside the signal succeeded": "C10",
    "read of an undefined or non-FSR signal succeeded": "C10",
    "length of an undefined or non-FSR signal": "C10",
    "empty read refused": "C10",
    "annotation iteration is not the expected tail": "C11",
    "annotation read failed": "C11",
    "annotations of an undefined signal": "C10",
    "UTC entries differ from those written at or after the id": "C12",
    "UTC entries differ (stopped iteration)": "C12",
    "UTC read failed": "C12",
    "UTC of an undefined signal": "C10",
    "user data differ from what was written": "C13",
    "user data differ (stopped iteration)": "C13",
    "user data read failed": "C13",
    "sources differ from the definitions written": "C13",
    "sources read failed": "C13",
    "signal definitions differ from those written (as normalised)": "C13",
    "signals read failed": "C13",
    "signal definition differs from the one written (as normalised)": "C13",
    "signal read failed": "C13",
    "definition of an undefined signal": "C10",
    "a valid call was refused": "C13",
    "an invalid call was accepted": "C13",
    "open for writing failed": "C13",
    "close failed": "C13",
    "a properly closed file could not be opened": "C19",
    "opening a properly closed file modified it": "C19",
}


def classify(prog, ev):
    """Input class of a rejected event, for matching known findings structurally."""
    cls = []
    model = prog.get("model") or {}
    sigs = model.get("sigs", {})
    s = sigs.get(str(ev.get("sig"))) or sigs.get(ev.get("sig"))
    if s:
        nspd, nsdf = s["norm"][0], s["norm"][1]
        L = s.get("length", 0)
        bits = s["bits"]
        cls.append("dt-" + s["dt"])
        if ev["e"] == "RdFsr" and ev.get("rc", 0) != 0 and 0 < L < nsdf:
            cls.append("shorter-than-entry")
        if (ev["e"] == "RdLength" and L % nspd != 0 and L % nsdf != 0 and ev.get("len", -1) == L - (L % nsdf)
                and (bits <= 8 or "omit" in prog.get("feat", []))):
            # the final partial block was omitted: only its whole summary entries count
            cls.append("omitted-final-partial-block")
    return cls


def run_api(ck, programs, tag, in_scope, per_program_timeout=60, extra_classify=None, trace_module="JlsApiTrace"):
    """Returns (trace path, verdict, list of out-of-scope rejections)."""
    trace, abnormal = runner.run_programs(programs, seed=C.seed(), tag=tag, per_program_timeout=per_program_timeout)
    nev = sum(1 for _ in open(trace))
    ck.log("executed %d programs on the real library: %d events, %d abnormal termination(s)" % (len(programs), nev, len(abnormal)))
    v = C.validate_trace_parallel(trace_module, trace_module + ".cfg", trace, parts=8, timeout=2400, heap="4g")
    njudged = 0
    for p in v.tlc.prints:
        if "TRACE_INFO" in p:
            njudged += C.parse_tla_value(p)[1]
    ck.log("trace validation: %d/%d events consumed, %d events judged by the contract, %d rejection(s)" % (v.consumed, v.total, njudged, len(v.rejections)))
    byx = {p["x"]: p for p in programs}
    lines = open(trace).read().split("\n") if v.rejections else []
    import bisect
    resets = [i for i, l_ in enumerate(lines) if l_.startswith('{"e":"Reset"')]

    def reset_before(line):
        """index of the Reset event that opens the execution containing (1-based) trace line `line`"""
        return resets[bisect.bisect_right(resets, line - 1) - 1]
    other = []
    sc = C.scratch()
    for (ex, line, why) in v.rejections:
        evj = json.loads(lines[line - 1])
        prog = byx[ex]
        prop = REASON_PROP.get(why, "?")
        if why.startswith("abnormal termination"):
            prop = "C10"
        cls = classify(prog, evj)
        if extra_classify:
            # the events of this execution up to the rejected one (for classes that depend on what the files hold)
            st0 = reset_before(line)
            cls += extra_classify(prog, evj, lines[st0:line])
        descr = {"where": "implementation", "execution": ex, "reason": why, "event_kind": evj.get("e"), "cls": cls,
                 "feat": prog.get("feat", []), "event": lines[line - 1][:500]}
        if prop not in in_scope and not why.startswith("abnormal termination"):
            other.append((prop, descr))
            continue
        pf = os.path.join(sc, "%s_prog_%d.json" % (tag, ex))
        json.dump(prog, open(pf, "w"))
        tf = os.path.join(sc, "%s_trace_%d.ndjson" % (tag, ex))
        start = reset_before(line)
        open(tf, "w").write("\n".join(lines[start:line]) + "\n")
        # one known-finding class at a time: match on each class separately
        matched = False
        for c in cls or [""]:
            d2 = dict(descr)
            d2["class"] = c
            if ck.match_known(d2) is not None:
                ck.violation(d2)
                matched = True
                break
        if not matched:
            descr["class"] = ""
            ck.violation(descr, [pf, tf])
    if other:
        from collections import Counter
        cnt = Counter((p, d["reason"]) for p, d in other)
        for (p, r), n in cnt.items():
            ck.log("out of scope here (judged by %s's own check): %d x %s" % (p, n, r))
    ck.cov["traces_validated_against_impl"] += len(programs) - len({r[0] for r in v.rejections})
    ck.cov["evaluations"] += njudged
    return trace, v, other
REASON_PROP["a refused call wrote to the file"] = "C13"
for _r in ("conversion without any UTC entry succeeded", "conversion failed although UTC entries exist",
           "single-entry conversion is off the nominal sample rate", "conversion does not reproduce a stored pair",
           "conversion is more than one unit off the linear interpolation", "conversion is not monotone",
           "time -> sample id is not the inverse of sample id -> time within one sample"):
    REASON_PROP[_r] = "C12"
REASON_PROP["conversion on an undefined or non-FSR signal"] = "C10"
for _r in ("stored summaries differ between omission on and off", "the first block of a signal was omitted",
           "omitted blocks differ from the documented one-block delay"):
    REASON_PROP[_r] = "C15"
for _r in ("statistics request inside the signal failed", "wrong number of statistics entries",
           "statistics are NaN although the window has no gap", "min is not the minimum of the window",
           "max is not the maximum of the window", "mean is not the mean of the window", "std is not a number",
           "std exceeds the sample standard deviation of the window",
           "std is below sqrt((d-1)/d) of the sample standard deviation",
           "an entry is outside the extremes of its widened window",
           "the average of the entries' means is not the mean of the range"):
    REASON_PROP[_r] = "C02"
for _r in ("statistics of an undefined or non-FSR signal", "statistics with a non-positive increment succeeded",
           "statistics outside the signal succeeded"):
    REASON_PROP[_r] = "C10"
REASON_PROP["a stored summary entry does not describe its samples"] = "C02"
REASON_PROP["a stored summary entry does not treat gap samples as absent"] = "C09"
REASON_PROP["copy of a properly closed file failed"] = "C17"
REASON_PROP["reading a properly closed file modified it"] = "C19"
C03_REASONS = ["a stop between two complete writes left a file that does not open", "more signals than were defined",
               "a signal that was never defined appeared", "length query failed on a file that opened", "more samples than were submitted",
               "samples inside the reported length cannot be read", "first sample id differs from the one submitted",
               "samples differ from the submitted prefix", "statistics disagree with the samples of the prefix",
               "more than the block in flight was lost",
               "a read call failed on a file that opened after a stop between two complete writes",
               "annotations are not an in-order selection of unaltered submitted ones",
               "UTC entries are not an in-order selection of unaltered submitted ones",
               "user data are not an in-order selection of unaltered submitted items"]
C19_REASONS = ["a file that opened once does not open again", "opening the file again modified it",
               "a second open shows different content than the first", "after the repairing open the file is not a well-formed closed file",
               "after the open a link of the file leads to a chunk of another list or to no chunk"]
for _r in C03_REASONS:
    REASON_PROP[_r] = "C03"
for _r in C19_REASONS:
    REASON_PROP[_r] = "C19"
for _r in ("altered file reports a different signal length as valid", "altered file reports a different first sample id as valid",
           "altered samples returned as valid", "altered statistics returned as valid", "altered source definitions returned as valid",
           "altered signal definitions returned as valid",
           "the open wrote to the altered file without changing it", "altered or incomplete annotations returned as valid",
           "altered or incomplete UTC entries returned as valid", "altered or incomplete user data returned as valid",
           "a time conversion on the altered file disagrees with the UTC entries written"):
    REASON_PROP[_r] = "C04"
