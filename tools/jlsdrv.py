"""ctypes driver for the real jetperch/jls library (libjlsv.so built from /repo's
working tree by harness/build.sh so|sov, with backend I/O interposed by
harness/iowrap.c).

Executes *programs* (lists of op dicts) and records one ndjson event per API
call at the call's return.  The driver drives, records and projects concrete
bytes to compact abstract observations (tokens, candidate runs, integer
projections of doubles).  It never decides a property: that is done by TLC on
the trace specifications in /verif/spec.
"""
import ctypes as ct
import hashlib
import json
import os
import struct
import sys

import numpy as np

# ---------------------------------------------------------------- data types
BT_INT, BT_UINT, BT_FLOAT = 1, 3, 4
DTYPES = {
    "u1": (BT_UINT, 1), "u4": (BT_UINT, 4), "u8": (BT_UINT, 8), "u16": (BT_UINT, 16), "u24": (BT_UINT, 24),
    "u32": (BT_UINT, 32), "u64": (BT_UINT, 64),
    "i4": (BT_INT, 4), "i8": (BT_INT, 8), "i16": (BT_INT, 16), "i24": (BT_INT, 24), "i32": (BT_INT, 32),
    "i64": (BT_INT, 64), "f32": (BT_FLOAT, 32), "f64": (BT_FLOAT, 64),
}


def dt_code(name):
    bt, bits = DTYPES[name]
    return bt | (bits << 8)


def dt_name(code):
    for k in DTYPES:
        if dt_code(k) == (code & 0xffff):
            return k
    return "?%x" % code


# ---------------------------------------------------------------- ctypes
class SourceDef(ct.Structure):
    _fields_ = [("source_id", ct.c_uint16), ("name", ct.c_char_p), ("vendor", ct.c_char_p), ("model", ct.c_char_p),
                ("version", ct.c_char_p), ("serial_number", ct.c_char_p)]


class SignalDef(ct.Structure):
    _fields_ = [("signal_id", ct.c_uint16), ("source_id", ct.c_uint16), ("signal_type", ct.c_uint8),
                ("rsv16_0", ct.c_uint16), ("data_type", ct.c_uint32), ("sample_rate", ct.c_uint32),
                ("samples_per_data", ct.c_uint32), ("sample_decimate_factor", ct.c_uint32),
                ("entries_per_summary", ct.c_uint32), ("summary_decimate_factor", ct.c_uint32),
                ("annotation_decimate_factor", ct.c_uint32), ("utc_decimate_factor", ct.c_uint32),
                ("sample_id_offset", ct.c_int64), ("name", ct.c_char_p), ("units", ct.c_char_p)]


class Annotation(ct.Structure):
    _fields_ = [("timestamp", ct.c_int64), ("rsv64_1", ct.c_uint64), ("annotation_type", ct.c_uint8),
                ("storage_type", ct.c_uint8), ("group_id", ct.c_uint8), ("rsv8_1", ct.c_uint8),
                ("y", ct.c_float), ("data_size", ct.c_uint32)]   # data[] follows


class UtcEntry(ct.Structure):
    _fields_ = [("sample_id", ct.c_int64), ("timestamp", ct.c_int64)]


class IowEntry(ct.Structure):
    _fields_ = [("kind", ct.c_int32), ("fd", ct.c_int32), ("off", ct.c_int64), ("len", ct.c_int64),
                ("size_before", ct.c_int64), ("mark", ct.c_int64), ("data", ct.POINTER(ct.c_uint8))]


ANNO_CBK = ct.CFUNCTYPE(ct.c_int32, ct.c_void_p, ct.POINTER(Annotation))
UD_CBK = ct.CFUNCTYPE(ct.c_int32, ct.c_void_p, ct.c_uint16, ct.c_int, ct.POINTER(ct.c_uint8), ct.c_uint32)
UTC_CBK = ct.CFUNCTYPE(ct.c_int32, ct.c_void_p, ct.POINTER(UtcEntry), ct.c_uint32)

IOW_OPEN, IOW_CLOSE, IOW_WRITE, IOW_TRUNC, IOW_SYNC = 1, 2, 3, 4, 5


def load(flavour="so"):
    root = os.path.dirname(os.path.dirname(os.path.abspath(__file__)))
    L = ct.CDLL(os.path.join(os.environ.get("JLS_BUILD_DIR") or os.path.join(root, "build"), flavour, "libjlsv.so"))
    vp, i32, u16, u32, i64 = ct.c_void_p, ct.c_int32, ct.c_uint16, ct.c_uint32, ct.c_int64
    P = ct.POINTER
    sig = {
        "jls_wr_open": ([P(vp), ct.c_char_p], i32), "jls_wr_close": ([vp], i32), "jls_wr_flush": ([vp], i32),
        "jls_wr_source_def": ([vp, P(SourceDef)], i32), "jls_wr_signal_def": ([vp, P(SignalDef)], i32),
        "jls_wr_user_data": ([vp, u16, ct.c_int, ct.c_char_p, u32], i32),
        "jls_wr_fsr": ([vp, u16, i64, ct.c_void_p, u32], i32),
        "jls_wr_fsr_omit_data": ([vp, u16, u32], i32),
        "jls_wr_annotation": ([vp, u16, i64, ct.c_float, ct.c_int, ct.c_uint8, ct.c_int, ct.c_char_p, u32], i32),
        "jls_wr_utc": ([vp, u16, i64, i64], i32),
        "jls_twr_open": ([P(vp), ct.c_char_p], i32), "jls_twr_close": ([vp], i32), "jls_twr_flush": ([vp], i32),
        "jls_twr_flags_set": ([vp, u32], i32),
        "jls_twr_source_def": ([vp, P(SourceDef)], i32), "jls_twr_signal_def": ([vp, P(SignalDef)], i32),
        "jls_twr_user_data": ([vp, u16, ct.c_int, ct.c_char_p, u32], i32),
        "jls_twr_fsr": ([vp, u16, i64, ct.c_void_p, u32], i32),
        "jls_twr_fsr_omit_data": ([vp, u16, u32], i32),
        "jls_twr_annotation": ([vp, u16, i64, ct.c_float, ct.c_int, ct.c_uint8, ct.c_int, ct.c_char_p, u32], i32),
        "jls_twr_utc": ([vp, u16, i64, i64], i32),
        "jls_rd_open": ([P(vp), ct.c_char_p], i32), "jls_rd_close": ([vp], None),
        "jls_rd_sources": ([vp, P(P(SourceDef)), P(u16)], i32), "jls_rd_signals": ([vp, P(P(SignalDef)), P(u16)], i32),
        "jls_rd_signal": ([vp, u16, P(SignalDef)], i32),
        "jls_rd_fsr_length": ([vp, u16, P(i64)], i32),
        "jls_rd_fsr": ([vp, u16, i64, ct.c_void_p, i64], i32),
        "jls_rd_fsr_statistics": ([vp, u16, i64, i64, P(ct.c_double), i64], i32),
        "jls_rd_annotations": ([vp, u16, i64, ANNO_CBK, vp], i32),
        "jls_rd_user_data": ([vp, UD_CBK, vp], i32),
        "jls_rd_utc": ([vp, u16, i64, UTC_CBK, vp], i32),
        "jls_rd_sample_id_to_timestamp": ([vp, u16, i64, P(i64)], i32),
        "jls_rd_timestamp_to_sample_id": ([vp, u16, i64, P(i64)], i32),
        "jls_copy": ([ct.c_char_p, ct.c_char_p, vp, vp, vp, vp], i32),
        "iow_enable": ([ct.c_int], None), "iow_mark": ([i64], None), "iow_count": ([], i64), "iow_clear": ([], None),
        "iow_get": ([i64], P(IowEntry)), "iow_reads": ([], i64),
    }
    for name, (args, res) in sig.items():
        f = getattr(L, name)
        f.argtypes = args
        f.restype = res
    return L


# ---------------------------------------------------------------- tokens
def fnv(b):
    return hashlib.blake2b(b, digest_size=8).hexdigest()


def str_tok(s):
    """string -> short token; None (absent) -> "~".  Short printable strings are
    kept literally so that traces stay readable."""
    if s is None:
        return "~"
    if isinstance(s, str):
        s = s.encode("utf-8")
    if len(s) <= 20 and all(48 <= c < 123 and c not in (92, 96) or c in (32, 45, 46, 95) for c in s):
        return "s:" + s.decode("ascii")
    return "h:%d:%s" % (len(s), fnv(s))


def make_str(spec):
    """string spec -> bytes or None.  ["lit", text] | ["rep", length, seed] | None."""
    if spec is None:
        return None
    if spec[0] == "lit":
        return spec[1].encode("utf-8")
    n, seed = spec[1], spec[2]
    if n == 0:
        return b""
    # printable pseudo-random UTF-8 free of NUL; includes multi-byte sequences
    rng = np.random.default_rng(seed)
    out = bytearray()
    alphabet = [chr(c) for c in range(33, 127)] + ["é", "µ", "Ω", "€", "\U0001f600"]
    idx = rng.integers(0, len(alphabet), size=n)
    for i in idx:
        ch = alphabet[int(i)].encode("utf-8")
        if len(out) + len(ch) > n:
            ch = b"x"
        out += ch
        if len(out) >= n:
            break
    return bytes(out[:n])


def make_payload(spec):
    """payload spec -> bytes.  ["lit", text] | ["rep", length, seed] (binary)."""
    if spec is None:
        return b""
    if spec[0] == "lit":
        return spec[1].encode("utf-8")
    n, seed = spec[1], spec[2]
    rng = np.random.default_rng(seed)
    return rng.integers(0, 256, size=n, dtype=np.uint8).tobytes()


# ---------------------------------------------------------------- sample generators
_M1 = np.uint64(0x9E3779B97F4A7C15)
_M2 = np.uint64(0xBF58476D1CE4E5B9)
_M3 = np.uint64(0x94D049BB133111EB)


def _hash(ids, ev, seed):
    with np.errstate(over="ignore"):
        h = ids.astype(np.uint64) * _M1 + np.uint64((ev * 0x632BE59BD9B4E019 + seed * 0xD1342543DE82EF95) & 0xFFFFFFFFFFFFFFFF)
        h ^= h >> np.uint64(30)
        h *= _M2
        h ^= h >> np.uint64(27)
        h *= _M3
        h ^= h >> np.uint64(31)
    return h


def gen_values(dt, gen, ev, ids, base, seed):
    """Sample values as raw unsigned bit patterns (uint64 array), one per id.
    gen: ["rnd"] | ["ramp", M] | ["bit", P] | ["const", c] | ["bpat", B] | ["rampo", M, offset] (ramp on a large offset:
    reported to the contract as the plain ramp, statistics are projected after subtracting the offset)"""
    bt, bits = DTYPES[dt]
    n = len(ids)
    kind = gen[0]
    if kind == "rnd":
        h = _hash(ids, ev, seed)
        if bt == BT_FLOAT:
            v = ((h >> np.uint64(40)) & np.uint64(0xFFFF)).astype(np.int64) - 32768
            f = v.astype(np.float64) / 8.0
            return f.astype(np.float32).view(np.uint32).astype(np.uint64) if bits == 32 else f.view(np.uint64)
        if bits == 64:
            return h
        return h >> np.uint64(64 - bits)
    if kind == "ramp":
        iv = np.mod(ids - base, gen[1]).astype(np.int64)
    elif kind == "rampo":
        iv = np.mod(ids - base, gen[1]).astype(np.int64) + np.int64(gen[2])
    elif kind == "bit":
        iv = (np.mod(ids - base, gen[1]) < (gen[1] + 1) // 2).astype(np.int64)
    elif kind == "const":
        iv = np.full(n, gen[1], dtype=np.int64)
    elif kind == "bpat":
        # every stored byte is gen[1]: sub-byte samples repeat with period 8 (1 bit) / 2 (4 bits) relative to
        # the signal's first sample; wider samples are the byte repeated
        B = int(gen[1]) & 0xFF
        if bits < 8:
            per = 8 // bits
            ph = np.mod(ids - base, per).astype(np.int64)
            iv = (B >> (ph * bits)) & ((1 << bits) - 1)
        else:
            v = 0
            for _ in range(bits // 8):
                v = (v << 8) | B
            return np.full(n, v, dtype=np.uint64)
    else:
        raise ValueError(gen)
    if bt == BT_FLOAT:
        f = iv.astype(np.float64)
        return f.astype(np.float32).view(np.uint32).astype(np.uint64) if bits == 32 else f.view(np.uint64)
    mask = np.uint64((1 << bits) - 1) if bits < 64 else np.uint64(0xFFFFFFFFFFFFFFFF)
    return iv.astype(np.uint64) & mask


def pack(dt, vals):
    """raw bit patterns -> bytes in the JLS sample layout (little endian; sub-byte
    samples fill bytes from the least significant bits)."""
    bt, bits = DTYPES[dt]
    if bits == 1:
        return np.packbits(vals.astype(np.uint8), bitorder="little").tobytes()
    if bits == 4:
        v = vals.astype(np.uint8)
        if len(v) % 2:
            v = np.append(v, np.uint8(0))
        return (v[0::2] | (v[1::2] << 4)).astype(np.uint8).tobytes()
    if bits == 24:
        b = vals.astype("<u4").view(np.uint8).reshape(-1, 4)[:, :3]
        return np.ascontiguousarray(b).tobytes()
    return vals.astype("<u%d" % (bits // 8)).tobytes()


def unpack(dt, buf, n):
    bt, bits = DTYPES[dt]
    a = np.frombuffer(buf, dtype=np.uint8)
    if bits == 1:
        return np.unpackbits(a, bitorder="little")[:n].astype(np.uint64)
    if bits == 4:
        out = np.empty(len(a) * 2, dtype=np.uint64)
        out[0::2] = a & 0x0F
        out[1::2] = a >> 4
        return out[:n]
    if bits == 24:
        b = np.zeros((n, 4), dtype=np.uint8)
        b[:, :3] = a[:n * 3].reshape(n, 3)
        return b.view("<u4").reshape(n).astype(np.uint64)
    return np.frombuffer(buf, dtype="<u%d" % (bits // 8), count=n).astype(np.uint64)


def is_fill(dt, vals):
    bt, bits = DTYPES[dt]
    if bt == BT_FLOAT:
        f = vals.astype(np.uint32).view(np.float32) if bits == 32 else vals.view(np.float64)
        return np.isnan(f)
    return vals == 0


def to_float(dt, vals):
    """raw bit patterns -> float64 numeric values (for integer projections of statistics)."""
    bt, bits = DTYPES[dt]
    if bt == BT_FLOAT:
        return (vals.astype(np.uint32).view(np.float32).astype(np.float64) if bits == 32 else vals.view(np.float64))
    if bt == BT_INT:
        v = vals.astype(np.int64)
        if bits < 64:
            sign = np.int64(1) << np.int64(bits - 1)
            v = (v ^ sign) - sign
        return v.astype(np.float64)
    return vals.astype(np.float64)


# ---------------------------------------------------------------- the driver
class Driver:
    def __init__(self, lib, out, workdir, seed=1):
        self.L = lib
        self.out = out
        self.workdir = workdir
        self.seed = seed
        self.x = 0
        self.q = 0
        self.reset_state()

    # -- bookkeeping ------------------------------------------------------
    def reset_state(self):
        self.wr = None
        self.twr = False
        self.rd = None
        self.sigs = {}      # sig id -> dict(dt, base, tbase, wev=[(q,id0,n,gen)], first)
        self.keep = []      # keep ctypes buffers alive for the writer's lifetime
        self.kinds = {}
        self.snap = {}

    def emit(self, ev):
        self.q += 1
        ev["x"] = self.x
        ev["q"] = self.q
        self.kinds[self.q] = ev["e"]
        self.out.write(json.dumps(ev, separators=(",", ":")) + "\n")
        return ev

    def nextq(self):
        return self.q + 1

    def path(self, k):
        return os.path.join(self.workdir, "f%d_%s.jls" % (self.x, k)).encode()

    def sig(self, s):
        return self.sigs.setdefault(s, {"dt": None, "base": 0, "tbase": 0, "wev": [], "first": None})

    def iow0(self):
        self.L.iow_mark(self.nextq())
        return self.L.iow_count()

    def wspan(self, w0):
        return [int(w0), int(self.L.iow_count())]

    def fn(self, name):
        return getattr(self.L, ("jls_twr_" if self.twr else "jls_wr_") + name)

    # -- program execution --------------------------------------------------
    def run_program(self, prog):
        self.x = prog["x"]
        self.q = 0
        self.reset_state()
        self.L.iow_clear()
        self.L.iow_enable(1)
        self.emit({"e": "Reset", "kind": prog.get("kind", ""), "feat": prog.get("feat", [])})
        self.crash_cfg = prog.get("crash")
        self.shadow = bytearray()
        self.shadow_w = 0          # log entries already applied to the shadow image
        self.crash_fd = None
        self.ncrash = 0
        self.repseq = bool((prog.get("crash") or {}).get("repseq")) and "omit" not in prog.get("feat", [])
        self.repseq_seen = set()
        self.thin = 0
        for op in prog["ops"]:
            getattr(self, "op_" + op["op"])(op)
            if self.crash_cfg and self.wr is not None or (self.crash_cfg and op["op"] == "wclose"):
                self.crash_scan(op["op"] == "wclose")
        # leave nothing open
        if self.rd:
            self.L.jls_rd_close(self.rd)
            self.rd = None
        if self.wr:
            (self.L.jls_twr_close if self.twr else self.L.jls_wr_close)(self.wr)
            self.wr = None
        self.L.iow_enable(0)
        if not prog.get("keep_files"):
            for f in os.listdir(self.workdir):
                if f.startswith("f%d_" % self.x):
                    os.remove(os.path.join(self.workdir, f))

    # -- writer ops -----------------------------------------------------------
    def op_wopen(self, op):
        h = ct.c_void_p()
        self.twr = bool(op.get("twr"))
        w0 = self.iow0()
        rc = (self.L.jls_twr_open if self.twr else self.L.jls_wr_open)(ct.byref(h), self.path(op.get("file", "a")))
        self.wr = h if rc == 0 else None
        if self.twr and rc == 0 and op.get("drop"):
            self.L.jls_twr_flags_set(self.wr, 1)
        self.emit({"e": "WOpen", "rc": rc, "twr": self.twr, "w": self.wspan(w0)})

    def op_source(self, op):
        strs = [make_str(op.get(k)) for k in ("name", "vendor", "model", "version", "serial")]
        d = SourceDef(op["id"], *strs)
        w0 = self.iow0()
        rc = self.fn("source_def")(self.wr, ct.byref(d))
        self.emit({"e": "SourceDef", "id": op["id"], "s": [str_tok(s) for s in strs], "maxlen": max([len(s) for s in strs if s is not None] + [0]),
                   "rc": rc, "w": self.wspan(w0)})

    def op_signal(self, op):
        name, units = make_str(op.get("name")), make_str(op.get("units"))
        d = SignalDef()
        d.signal_id, d.source_id, d.signal_type = op["id"], op["src"], op.get("st", 0)
        d.data_type = dt_code(op["dt"]) | ((op.get("q", 0) & 0xff) << 16) if op["dt"] in DTYPES else op.get("dtcode", 0)
        d.sample_rate = op.get("rate", 1000)
        d.samples_per_data, d.sample_decimate_factor = op.get("spd", 0), op.get("sdf", 0)
        d.entries_per_summary, d.summary_decimate_factor = op.get("eps", 0), op.get("sumdf", 0)
        d.annotation_decimate_factor, d.utc_decimate_factor = op.get("adf", 0), op.get("udf", 0)
        d.sample_id_offset = 0
        d.name, d.units = name, units
        w0 = self.iow0()
        rc = self.fn("signal_def")(self.wr, ct.byref(d))
        s = self.sig(op["id"])
        if rc == 0:
            s["dt"] = op["dt"]
        s["base"] = op.get("base", 0)
        s["tbase"] = op.get("tbase", 0)
        self.emit({"e": "SignalDef", "id": op["id"], "src": op["src"], "st": op.get("st", 0), "dt": op["dt"], "fq": op.get("q", 0) & 0xff,
                   "bits": DTYPES[op["dt"]][1] if op["dt"] in DTYPES else 0, "rate": _clip(op.get("rate", 1000)),
                   "spd": _clip(op.get("spd", 0)), "sdf": _clip(op.get("sdf", 0)), "eps": _clip(op.get("eps", 0)), "sumdf": _clip(op.get("sumdf", 0)),
                   "adf": _clip(op.get("adf", 0)), "udf": _clip(op.get("udf", 0)), "name": str_tok(name), "units": str_tok(units),
                   "maxlen": max([len(s) for s in (name, units) if s is not None] + [0]),
                   "rc": rc, "w": self.wspan(w0)})

    def op_fsr(self, op):
        s = self.sig(op["sig"])
        dt = op.get("dt") or s["dt"] or "f32"
        n, id0 = op["n"], op["id"]
        q = self.nextq()
        gid = op.get("gid", q)      # identity of the generated data (default: the event number)
        ids = np.arange(id0, id0 + n, dtype=np.int64)
        vals = gen_values(dt, op.get("gen", ["rnd"]), gid, ids, s["base"], self.seed)
        buf = pack(dt, vals)
        cbuf = ct.create_string_buffer(buf, len(buf) + 8)   # +8: see note on shift_buffer read-ahead
        w0 = self.iow0()
        rc = self.fn("fsr")(self.wr, op["sig"], id0, cbuf, n)
        if self.twr:
            self.keep.append(cbuf)
        if rc == 0 and s["dt"] is not None:
            s["wev"].append((q, id0, n, op.get("gen", ["rnd"]), gid))
            if s["first"] is None and n > 0:
                s["first"] = id0
        if op.get("gen", ["rnd"])[0] == "rampo":
            s["soff"] = int(op["gen"][2])
        self.emit({"e": "WrFsr", "sig": op["sig"], "id": id0 - s["base"], "n": n, "gen": "ramp" if op.get("gen", ["rnd"])[0] == "rampo" else op.get("gen", ["rnd"])[0],
                   "gp": (op.get("gen", ["rnd"]) + [0])[1], "rc": rc, "w": self.wspan(w0)})

    def op_omit(self, op):
        rc = self.fn("fsr_omit_data")(self.wr, op["sig"], op["en"])
        if rc == 0 and op["en"]:
            self.sig(op["sig"])["omitted"] = True
        self.emit({"e": "Omit", "sig": op["sig"], "en": op["en"], "rc": rc})

    @staticmethod
    def anno_tok(ts_rel, atype, stype, group, ybits, data):
        return fnv(struct.pack("<qBBBI", ts_rel, atype, stype, group, ybits) + struct.pack("<I", len(data)) + data)

    def op_anno(self, op):
        s = self.sig(op["sig"])
        data = make_payload(op.get("data"))
        stype = op.get("stype", 1)
        if stype in (2, 3):
            data = data.replace(b"\0", b"x") + b"\0"       # strings are stored with their terminator
        y = struct.unpack("<f", struct.pack("<I", op.get("ybits", 0)))[0]
        w0 = self.iow0()
        rc = self.fn("annotation")(self.wr, op["sig"], op["ts"], y, op.get("atype", 0), op.get("group", 0), stype,
                                   data, len(data) if stype == 1 else 0)
        self.emit({"e": "Anno", "sig": op["sig"], "ts": op["ts"] - s["base"],
                   "tok": self.anno_tok(op["ts"] - s["base"], op.get("atype", 0), stype, op.get("group", 0), op.get("ybits", 0), data),
                   "size": len(data), "rc": rc, "w": self.wspan(w0)})

    def op_utc(self, op):
        s = self.sig(op["sig"])
        w0 = self.iow0()
        rc = self.fn("utc")(self.wr, op["sig"], op["id"], op["t"])
        if rc == 0:
            s.setdefault("utcw", []).append((op["id"] - s["base"], op["t"] - s["tbase"]))
        self.emit({"e": "Utc", "sig": op["sig"], "id": op["id"] - s["base"], "t": op["t"] - s["tbase"], "rc": rc,
                   "w": self.wspan(w0)})

    def op_userdata(self, op):
        data = make_payload(op.get("data"))
        stype = op.get("stype", 1)
        if stype in (2, 3):
            data = data.replace(b"\0", b"x") + b"\0"
        w0 = self.iow0()
        dsz = len(data)
        if stype != 1:
            # data_size is documented as ignored for strings: any value must store the whole string
            n = len(data) - 1
            dsz = op["dsz"] if "dsz" in op else [0, 0, n, n + 1, 1, n // 2, 4096][(n * 7 + op["meta"]) % 7]
        rc = self.fn("user_data")(self.wr, op["meta"], stype, data, dsz)
        self.emit({"e": "UserData", "meta": op["meta"], "st": stype, "tok": fnv(data), "size": len(data), "rc": rc,
                   "w": self.wspan(w0)})

    def op_flush(self, op):
        w0 = self.iow0()
        rc = (self.L.jls_twr_flush if self.twr else self.L.jls_wr_flush)(self.wr)
        self.emit({"e": "Flush", "rc": rc, "w": self.wspan(w0)})

    def op_wclose(self, op):
        w0 = self.iow0()
        rc = (self.L.jls_twr_close if self.twr else self.L.jls_wr_close)(self.wr)
        self.wr = None
        self.keep = []
        self.emit({"e": "WClose", "rc": rc, "w": self.wspan(w0)})

    # -- reader ops -------------------------------------------------------------
    def file_digest(self, k):
        try:
            with open(self.path(k), "rb") as f:
                return fnv(f.read())
        except OSError:
            return "none"

    def op_ropen(self, op):
        h = ct.c_void_p()
        k = op.get("file", "a")
        d0 = self.file_digest(k)
        w0 = self.iow0()
        self.rd_digest0 = d0
        self.rd_open_w0 = w0
        rc = self.L.jls_rd_open(ct.byref(h), self.path(k))
        self.rd = h if rc == 0 else None
        self.rd_file = k
        ws = self.wspan(w0)
        nwr = sum(1 for i in range(ws[0], ws[1]) if self.L.iow_get(i).contents.kind in (IOW_WRITE, IOW_TRUNC))
        self.emit({"e": "ROpen", "rc": rc, "wcount": nwr, "modified": d0 != self.file_digest(k), "w": ws})

    def op_unchanged(self, op):
        """after a read session: is the file byte-identical to what it was before the open, did the
        library write to it at all?"""
        n = self.L.iow_count()
        nwr = sum(1 for i in range(self.rd_open_w0, n) if self.L.iow_get(i).contents.kind in (IOW_WRITE, IOW_TRUNC))
        self.emit({"e": "Unchanged", "same": self.file_digest(self.rd_file) == self.rd_digest0, "wcount": nwr})

    def op_rclose(self, op):
        if self.rd:
            self.L.jls_rd_close(self.rd)
        self.rd = None
        self.emit({"e": "RClose"})

    def op_len(self, op):
        v = ct.c_int64(-1)
        rc = self.L.jls_rd_fsr_length(self.rd, op["sig"], ct.byref(v))
        self.emit({"e": "RdLength", "sig": op["sig"], "rc": rc, "len": int(v.value) if rc == 0 else -1})

    def runs_of(self, s, dt, start, got):
        """candidate runs: split the returned window at every write-event boundary;
        per piece, the write events whose generated data equal what was returned
        (0 stands for the type's fill value)."""
        n = len(got)
        first = s["first"] if s["first"] is not None else 0
        a0 = start + first
        cuts = {a0, a0 + n}
        for (q, id0, m, gen, gid) in s["wev"]:
            for c in (id0, id0 + m):
                if a0 < c < a0 + n:
                    cuts.add(c)
        cuts = sorted(cuts)
        fill = is_fill(dt, got)
        runs = []
        for a, b in zip(cuts[:-1], cuts[1:]):
            piece = got[a - a0:b - a0]
            ids = np.arange(a, b, dtype=np.int64)
            cands = []
            if fill[a - a0:b - a0].all():
                cands.append(0)
            for (q, id0, m, gen, gid) in s["wev"]:
                if id0 <= a and b <= id0 + m:
                    if np.array_equal(gen_values(dt, gen, gid, ids, s["base"], self.seed), piece):
                        cands.append(q)
            runs.append({"p": a - first, "n": b - a, "c": cands})
        return runs

    def op_rd(self, op):
        s = self.sig(op["sig"])
        dt = s["dt"] or op.get("dt") or "f32"
        bits = DTYPES[dt][1]
        n, start = op["n"], op["start"]
        nbytes = (max(n, 0) * bits + 7) // 8
        G = 64
        buf = (ct.c_uint8 * (nbytes + 2 * G))(*([0xA5] * (nbytes + 2 * G)))
        rc = self.L.jls_rd_fsr(self.rd, op["sig"], start, ct.byref(buf, G), n)
        raw = bytes(buf)
        gok = raw[:G] == b"\xA5" * G and raw[G + nbytes:] == b"\xA5" * G
        ev = {"e": "RdFsr", "sig": op["sig"], "start": start, "n": n, "rc": rc, "g": gok, "runs": []}
        if rc == 0 and n > 0:
            got = unpack(dt, raw[G:G + nbytes], n)
            ev["runs"] = self.runs_of(s, dt, start, got)
        self.emit(ev)

    def op_stats(self, op):
        s = self.sig(op["sig"])
        cnt = op["cnt"]
        G = 4
        arr = (ct.c_double * (max(cnt, 0) * 4 + 2 * G))(*([12345.678] * (max(cnt, 0) * 4 + 2 * G)))
        rc = self.L.jls_rd_fsr_statistics(self.rd, op["sig"], op["start"], op["incr"],
                                          ct.cast(ct.byref(arr, G * 8), ct.POINTER(ct.c_double)), cnt)
        vals = list(arr)
        gok = all(v == 12345.678 for v in vals[:G] + vals[G + max(cnt, 0) * 4:])
        ent = []
        if rc == 0:
            incr = op["incr"]
            for i in range(max(cnt, 0)):
                mean, std, mn, mx = vals[G + 4 * i:G + 4 * i + 4]
                off = float(s.get("soff", 0))       # exact in double: offsets stay below 2^53
                ent.append(stat_projection(mean - off, std, mn - off, mx - off, incr))
        self.emit({"e": "RdStats", "sig": op["sig"], "start": op["start"], "incr": op["incr"], "cnt": cnt, "rc": rc,
                   "g": gok, "ent": ent})

    def op_annos(self, op):
        s = self.sig(op["sig"])
        out = []
        stop = op.get("stop", 0)

        def cb(_u, a):
            a0 = a.contents
            size = a0.data_size
            data = ct.string_at(ct.addressof(a0) + Annotation.data_size.offset + 4, size) if size < (1 << 26) else b""
            ybits = struct.unpack("<I", struct.pack("<f", a0.y))[0]
            ts_rel = a0.timestamp - self._tsrel(s)
            out.append([_clip(ts_rel), self.anno_tok(ts_rel, a0.annotation_type, a0.storage_type, a0.group_id, ybits, data)])
            return 1 if (stop and len(out) >= stop) else 0

        c = ANNO_CBK(cb)
        # annotation timestamps of FSR signals are exchanged relative to the first sample id
        t = op["t"]
        rc = self.L.jls_rd_annotations(self.rd, op["sig"], t, c, None)
        self.emit({"e": "RdAnno", "sig": op["sig"], "t": _clip(t - self._tsrel(s)), "stop": stop, "rc": rc, "items": out})

    def _tsrel(self, s):
        # API timestamp -> trace timestamp:  api = abs - first (0 when no sample was
        # written) ; trace = abs - base
        return s["base"] - (s["first"] if s["first"] is not None else 0)

    def op_utcs(self, op):
        s = self.sig(op["sig"])
        out = []
        stop = op.get("stop", 0)
        calls = [0]

        def cb(_u, ents, size):
            calls[0] += 1
            for i in range(size):
                out.append([_clip(ents[i].sample_id - self._tsrel(s)), _clip(ents[i].timestamp - s["tbase"])])
            return 1 if (stop and calls[0] >= stop) else 0

        c = UTC_CBK(cb)
        rc = self.L.jls_rd_utc(self.rd, op["sig"], op["id"], c, None)
        self.emit({"e": "RdUtc", "sig": op["sig"], "id": _clip(op["id"] - self._tsrel(s)), "stop": stop, "rc": rc,
                   "calls": calls[0], "items": out})

    def op_userdatas(self, op):
        out = []
        stop = op.get("stop", 0)

        def cb(_u, meta, stype, data, size):
            b = ct.string_at(data, size) if size else b""
            out.append([int(meta), int(stype), fnv(b), int(size)])
            return 1 if (stop and len(out) >= stop) else 0

        c = UD_CBK(cb)
        rc = self.L.jls_rd_user_data(self.rd, c, None)
        self.emit({"e": "RdUserData", "stop": stop, "rc": rc, "items": out})

    def op_sources(self, op):
        p = ct.POINTER(SourceDef)()
        cnt = ct.c_uint16(0)
        rc = self.L.jls_rd_sources(self.rd, ct.byref(p), ct.byref(cnt))
        items = []
        if rc == 0:
            for i in range(cnt.value):
                d = p[i]
                items.append([d.source_id] + [str_tok(x) for x in (d.name, d.vendor, d.model, d.version, d.serial_number)])
        self.emit({"e": "RdSources", "rc": rc, "items": items})

    @staticmethod
    def sigdef_rec(d):
        return {"id": d.signal_id, "src": d.source_id, "st": d.signal_type, "dt": dt_name(d.data_type), "fq": (d.data_type >> 16) & 0xff,
                "rate": _clip(d.sample_rate), "spd": _clip(d.samples_per_data), "sdf": _clip(d.sample_decimate_factor),
                "eps": _clip(d.entries_per_summary), "sumdf": _clip(d.summary_decimate_factor),
                "adf": _clip(d.annotation_decimate_factor), "udf": _clip(d.utc_decimate_factor),
                "name": str_tok(d.name), "units": str_tok(d.units)}

    def op_signals(self, op):
        p = ct.POINTER(SignalDef)()
        cnt = ct.c_uint16(0)
        rc = self.L.jls_rd_signals(self.rd, ct.byref(p), ct.byref(cnt))
        items = [self.sigdef_rec(p[i]) for i in range(cnt.value)] if rc == 0 else []
        self.emit({"e": "RdSignals", "rc": rc, "items": items})

    def op_signal1(self, op):
        d = SignalDef()
        rc = self.L.jls_rd_signal(self.rd, op["id"], ct.byref(d))
        self.emit({"e": "RdSignal", "id": op["id"], "rc": rc, "def": self.sigdef_rec(d) if rc == 0 else {}})

    def op_i2t(self, op):
        s = self.sig(op["sig"])
        v = ct.c_int64(0)
        rc = self.L.jls_rd_sample_id_to_timestamp(self.rd, op["sig"], op["id"], ct.byref(v))
        self.emit({"e": "I2T", "sig": op["sig"], "id": _clip(op["id"] - self._tsrel(s)), "rc": rc,
                   "res": _clip(v.value - s["tbase"]) if rc == 0 else 0})
        if rc == 0 and op.get("then_t2i"):
            self.op_t2i({"sig": op["sig"], "t": v.value})

    def op_t2i(self, op):
        s = self.sig(op["sig"])
        v = ct.c_int64(0)
        rc = self.L.jls_rd_timestamp_to_sample_id(self.rd, op["sig"], op["t"], ct.byref(v))
        self.emit({"e": "T2I", "sig": op["sig"], "t": _clip(op["t"] - s["tbase"]), "rc": rc,
                   "res": _clip(v.value - self._tsrel(s)) if rc == 0 else 0})

    def op_copy(self, op):
        w0 = self.iow0()
        rc = self.L.jls_copy(self.path(op.get("src", "a")), self.path(op.get("dst", "b")), None, None, None, None)
        self.emit({"e": "Copy", "rc": rc, "w": self.wspan(w0)})

    # -- crash points (C03 / C19) -------------------------------------------------
    def crash_scan(self, closing):
        """Apply the backend writes made since the last call to a shadow image of file 'a'; before
        applying write w, materialise the crash images 'first w writes + j bytes of write w', open each
        in a child process and record one CrashObs event."""
        cfg = self.crash_cfg
        n = self.L.iow_count()
        target = self.path("a")
        last_defs_q = max([q for q, k in self.kinds.items() if k in ("SourceDef", "SignalDef", "WOpen")] + [0])
        while self.shadow_w < n:
            e = self.L.iow_get(self.shadow_w).contents
            w = self.shadow_w
            self.shadow_w += 1
            if e.kind == IOW_OPEN:
                path = ct.string_at(ct.cast(e.data, ct.c_char_p)) if e.data else b""
                if path == target and e.len:
                    self.crash_fd = e.fd
                    if e.off & os.O_TRUNC:
                        self.shadow = bytearray()
                continue
            if e.fd != self.crash_fd:
                continue
            if e.kind == IOW_CLOSE:
                self.crash_fd = None
                continue
            if e.kind != IOW_WRITE or e.len <= 0:
                continue
            data = ct.string_at(e.data, e.len)
            off = e.off
            inplace = off < len(self.shadow)
            js = [0]
            if cfg.get("bytes", "some") == "all" and e.len <= cfg.get("all_max", 64):
                js = list(range(0, e.len))
            elif cfg.get("bytes") == "step8" and not inplace:
                js = list(range(0, e.len, 8))          # every 8-byte-aligned torn length of an appended write
            elif inplace or e.len <= 40:
                js = sorted({0, 1, 8, 16, e.len - 1, e.len // 2} & set(range(0, e.len)))
            else:
                # ... and torn tails of 8 / 16 / 24 bytes beyond a multiple of 1024 behind the last complete chunk (the
                # repairing open looks for that chunk in windows of 1024 bytes): the write may or may not follow a
                # complete 32-byte header
                edge = {k + d_ for k in (0, 992, 1024, 2016, 2048) for d_ in (8, 16, 24)}
                js = sorted(({0, 1, e.len // 2, e.len - 1} | edge) & set(range(0, e.len))) if cfg.get("bytes", "some") != "none" else [0]
            stride = cfg.get("stride", 1)
            # image budget per program: thin out evenly once it is being used up
            budget = cfg.get("budget", 800)
            while self.ncrash > budget * (1 + self.thin) // 2:
                self.thin += 1
            stride = stride * (1 << min(self.thin, 6))
            if stride > 1 and (w % stride) != 0 and not (closing and self.thin < 3):
                js = [] if not inplace else [j for j in js if j in (0, 16)][: (1 if self.thin > 1 else 2)]
                if inplace and self.thin > 2 and (w % (stride // 2 or 1)) != 0:
                    js = []
            if len(self.shadow) < 32:
                js = [j for j in js if j == 0][:0]        # before the file header exists nothing can be opened: one probe is enough
            for j in js:
                img = bytearray(self.shadow)
                if j:
                    if off > len(img):
                        img.extend(b"\0" * (off - len(img)))
                    img[off:off + j] = data[:j]
                self.crash_obs(bytes(img), w, j, e.mark, inplace, e.mark > last_defs_q)
            if off > len(self.shadow):
                self.shadow.extend(b"\0" * (off - len(self.shadow)))
            self.shadow[off:off + len(data)] = data

    def op_truncscan(self, op):
        """Cut the closed file 'a' at chosen byte positions (chunk boundaries and a few bytes around / inside them) and
        observe each truncated copy like a crash image whose last write is incomplete (all links are final here)."""
        import lifter
        with open(self.path(op.get("file", "a")), "rb") as f:
            img = f.read()
        fh, chunks, why = lifter.parse_image(img)
        rng = np.random.default_rng(op.get("seed", 1))
        cuts = set()
        for ch in chunks:
            o = ch["off"]
            size = 32 + (lifter.disk_size(ch["plen"]) if ch["plen"] else 0)
            for c in (o, o + 8, o + 31, o + 32, o + 33, o + size // 2, o + size - 4, o + size - 1, o + 1024 + 8, o + 1024 + 16, o + 1024 + 24,
                      o + 2048 + 16):
                if 32 < c < min(len(img), o + size):
                    cuts.add(c)
        cuts = sorted(cuts)
        count = op.get("count", 40)
        if len(cuts) > count:
            cuts = sorted(int(c) for c in rng.choice(np.array(cuts), size=count, replace=False))
        last_defs = max([q for q, k in self.kinds.items() if k in ("SourceDef", "SignalDef", "WOpen")] + [0])
        for c in cuts:
            self.crash_obs(img[:c], -1, 1, self.q, False, True)

    def observe_reader(self, h, defs=False):
        """dump of everything the reader exposes, as compact projections (runs, tokens)"""
        obs = {"sigs": [], "annos": [], "utcs": []}
        if defs:
            ps = ct.POINTER(SourceDef)()
            c1 = ct.c_uint16(0)
            rc1 = self.L.jls_rd_sources(h, ct.byref(ps), ct.byref(c1))
            pg = ct.POINTER(SignalDef)()
            c2 = ct.c_uint16(0)
            rc2 = self.L.jls_rd_signals(h, ct.byref(pg), ct.byref(c2))
            obs["defs"] = {"rc": rc1 or rc2,
                           "srcs": [[ps[i].source_id] + [str_tok(x) for x in (ps[i].name, ps[i].vendor, ps[i].model, ps[i].version, ps[i].serial_number)]
                                    for i in range(c1.value)] if rc1 == 0 else [],
                           "sigs": [self.sigdef_rec(pg[i]) for i in range(c2.value)] if rc2 == 0 else []}
        p = ct.POINTER(SignalDef)()
        cnt = ct.c_uint16(0)
        rc = self.L.jls_rd_signals(h, ct.byref(p), ct.byref(cnt))
        ids = [(p[i].signal_id, p[i].signal_type) for i in range(cnt.value)] if rc == 0 else []
        obs["nsig"] = len(ids)
        for (g, st) in ids:
            s = self.sigs.get(g)
            if st == 0 and s and s["dt"]:
                v = ct.c_int64(-1)
                lrc = self.L.jls_rd_fsr_length(h, g, ct.byref(v))
                ent = {"sig": g, "lrc": lrc, "len": _clip(v.value) if lrc == 0 else -1, "rrc": 0, "runs": [], "g": True, "st": []}
                if lrc == 0 and 0 < v.value <= 4000000:
                    nlen = int(v.value)
                    bits = DTYPES[s["dt"]][1]
                    nbytes = (nlen * bits + 7) // 8
                    buf = (ct.c_uint8 * (nbytes + 64))()
                    ent["rrc"] = self.L.jls_rd_fsr(h, g, 0, buf, nlen)
                    if ent["rrc"] == 0:
                        # on a crash image the first sample id is what the file says; the candidate
                        # projection needs the id of reader index 0: the first DATA chunk's timestamp
                        d = SignalDef()
                        self.L.jls_rd_signal(h, g, ct.byref(d))
                        first_abs = d.sample_id_offset
                        got = unpack(s["dt"], bytes(buf)[:nbytes], nlen)
                        runs = self.runs_abs(s, s["dt"], first_abs, got)
                        ent["runs"] = runs
                        ent["first"] = _clip(first_abs - s["base"])
                        # blocks stored only as summaries read back as their mean: statistics and returned samples
                        # legitimately differ there (omission on request; automatic for constant blocks of <= 8 bit types)
                        may_omit = s.get("omitted") or (bits <= 8 and any(w_[3][0] != "rnd" for w_ in s["wev"]))
                        ent["st"] = [] if may_omit else self.stats_obs(h, g, s["dt"], got, d)
                obs["sigs"].append(ent)
            if s is not None or g == 0:
                ss = self.sig(g)
                out = []

                def cb(_u, a, out=out, ss=ss, st=st):
                    a0 = a.contents
                    size = a0.data_size
                    data = ct.string_at(ct.addressof(a0) + Annotation.data_size.offset + 4, size) if size < (1 << 26) else b""
                    ybits = struct.unpack("<I", struct.pack("<f", a0.y))[0]
                    ts_rel = a0.timestamp + aoff[0] - ss["base"]
                    out.append([_clip(ts_rel), self.anno_tok(ts_rel, a0.annotation_type, a0.storage_type, a0.group_id, ybits, data)])
                    return 0
                dd = SignalDef()
                aoff = [dd.sample_id_offset if (st == 0 and self.L.jls_rd_signal(h, g, ct.byref(dd)) == 0) else 0]
                c = ANNO_CBK(cb)
                arc = self.L.jls_rd_annotations(h, g, -(1 << 60), c, None)
                obs["annos"].append({"sig": g, "rc": arc, "items": out})
                if st == 0:
                    uout = []

                    def ucb(_u, ents, size, uout=uout, ss=ss, g=g, off=aoff[0]):
                        for i in range(size):
                            uout.append([_clip(ents[i].sample_id + off - ss["base"]), _clip(ents[i].timestamp - ss["tbase"])])
                        return 0
                    uc = UTC_CBK(ucb)
                    urc = self.L.jls_rd_utc(h, g, -(1 << 60), uc, None)
                    # sample id -> time, asked twice (the second call uses whatever the first one loaded)
                    conv = []
                    if s is not None and s.get("utcw"):
                        ids_w = sorted({u_[0] for u_ in s["utcw"]})
                        qs = [ids_w[0], ids_w[len(ids_w) // 2], ids_w[-1]]
                        if len(ids_w) >= 2:
                            qs.append((ids_w[-1] + ids_w[-2]) // 2)
                        for q_rel in qs:           # q_rel is relative to the signal's base; the API wants it relative to the first sample
                            row = [_clip(q_rel)]
                            for _ in range(2):
                                tv = ct.c_int64(0)
                                crc = self.L.jls_rd_sample_id_to_timestamp(h, g, q_rel + ss["base"] - aoff[0], ct.byref(tv))
                                row += [int(crc), _clip(tv.value - ss["tbase"]) if crc == 0 else 0]
                            conv.append(row)
                    obs["utcs"].append({"sig": g, "rc": urc, "items": uout, "conv": conv})
        ud = []

        def udcb(_u, meta, stype, data, size):
            ud.append([int(meta), int(stype), fnv(ct.string_at(data, size) if size else b""), int(size)])
            return 0
        udc = UD_CBK(udcb)
        obs["ud"] = {"rc": self.L.jls_rd_user_data(h, udc, None), "items": ud}
        return obs

    def stats_obs(self, h, g, dt, got, d):
        """Statistics the reader reports for a few windows, next to the same quantities computed from the samples the
        reader just returned (projections only: sums and extremes scaled by 8 and rounded; the specification compares).
        One entry per window: [rc, sum_lib, sum_samples, min_lib, min_samples, max_lib, max_samples]."""
        n = len(got)
        if n == 0 or n > 200000:
            return []
        f = to_float(dt, got)
        if not np.isfinite(f).all() or np.abs(f).max() > 1e5 or np.abs(f).max() * n > 2e8:
            return []
        sdf = max(1, int(d.sample_decimate_factor))
        # single-window requests are sample accurate by contract; multi-window requests only when every window is
        # a whole number of level-1 entries (inner boundaries of other requests are approximated by design)
        queries = [(0, n, 1)]
        c = min(5, n)
        w = n // c
        for k in range(c):
            queries.append((k * w, w, 1))
        if n > 3:
            queries.append((1, n - 2, 1))
            queries.append((n // 2, n - n // 2, 1))
        if n >= sdf:
            c = min(12, n // sdf)
            queries.append((max(0, (n // sdf - c)) * sdf, sdf, c))
        out = []
        for (start, incr, cnt) in queries:
            arr = (ct.c_double * (cnt * 4))()
            rc = self.L.jls_rd_fsr_statistics(h, g, start, incr, arr, cnt)
            for k in range(cnt):
                w = f[start + k * incr:start + (k + 1) * incr]
                mean, mn, mx = arr[4 * k + 0], arr[4 * k + 2], arr[4 * k + 3]
                if rc != 0 or not all(np.isfinite([mean, mn, mx])) or abs(mean) > 1e6:
                    out.append([int(rc) if rc else -1, 0, 0, 0, 0, 0, 0])
                    continue
                out.append([0, _clip(round(mean * incr * 8)), _clip(round(float(w.sum()) * 8)),
                            _clip(round(mn * 8)), _clip(round(float(w.min()) * 8)),
                            _clip(round(mx * 8)), _clip(round(float(w.max()) * 8))])
        return out

    def crash_obs(self, img, w, j, mark, inplace, after_defs):
        import hashlib
        import lifter
        import select
        self.ncrash += 1
        ipath = self.path("crash")
        with open(ipath, "wb") as f:
            f.write(img)
        rfd, wfd = os.pipe()
        pid = os.fork()
        if pid == 0:
            # child: open the image with the real reader; everything it does is its own
            try:
                os.close(rfd)
                res = {"rc": -1}
                h = ct.c_void_p()
                w0 = self.L.iow_count()
                d0 = hashlib.blake2b(img, digest_size=8).hexdigest()
                rc = self.L.jls_rd_open(ct.byref(h), ipath)
                res["rc"] = rc
                res["wcount"] = sum(1 for i in range(w0, self.L.iow_count()) if self.L.iow_get(i).contents.kind in (IOW_WRITE, IOW_TRUNC))
                with open(ipath, "rb") as f:
                    img1 = f.read()
                res["modified"] = d0 != hashlib.blake2b(img1, digest_size=8).hexdigest()
                if rc == 0:
                    res["obs"] = self.observe_reader(h)
                    self.L.jls_rd_close(h)
                    # C19: a second and a third open must not modify the file and must show the same content
                    same = True
                    w2 = 0
                    mod2 = False
                    rc2 = 0
                    for _ in range(2):
                        h2 = ct.c_void_p()
                        w1 = self.L.iow_count()
                        rc2 = self.L.jls_rd_open(ct.byref(h2), ipath)
                        w2 += sum(1 for i in range(w1, self.L.iow_count()) if self.L.iow_get(i).contents.kind in (IOW_WRITE, IOW_TRUNC))
                        if rc2 != 0:
                            same = False
                            break
                        o2 = self.observe_reader(h2)
                        self.L.jls_rd_close(h2)
                        same = same and (json.dumps(o2, sort_keys=True) == json.dumps(res["obs"], sort_keys=True))
                    with open(ipath, "rb") as f:
                        mod2 = f.read() != img1
                    res["re"] = {"rc": rc2, "wcount": w2, "modified": mod2, "same": same}
                    if cfg_lift[0]:
                        fh, chunks, why = lifter.parse_image(img1)
                        # ... and the backward chain: every chunk names the payload length of the chunk before it
                        back = next((i for i in range(len(chunks)) if chunks[i]["pprev"] != (chunks[i - 1]["plen"] if i else 0)), -1)
                        res["closed_ok"] = bool(fh.get("present") and fh.get("crc_ok") and fh.get("length") == len(img1) and why == "eof"
                                                and chunks and chunks[-1]["tag"] == 0xFF and all(c["crc_ok"] and c["pcrc_ok"] for c in chunks)
                                                and back < 0)
                        res["links"] = lifter.link_projection(chunks)
                        res["closed_why"] = "%s len=%s size=%d last=%s back=%d" % (why, fh.get("length"), len(img1), chunks[-1]["tag"] if chunks else None, back)
                os.write(wfd, json.dumps(res).encode())
            finally:
                os._exit(0)
        os.close(wfd)
        buf = b""
        term = "ok"
        deadline = 3.0
        import time as _t
        t0 = _t.time()
        while True:
            r, _, _ = select.select([rfd], [], [], max(0.0, deadline - (_t.time() - t0)))
            if not r:
                term = "hang"
                os.kill(pid, 9)
                break
            chunk = os.read(rfd, 1 << 20)
            if not chunk:
                break
            buf += chunk
        os.close(rfd)
        _, status = os.waitpid(pid, 0)
        res = {}
        if term == "ok":
            try:
                res = json.loads(buf.decode())
            except ValueError:
                term = "crash"
        # what is completely on disk in this image (syntax only): samples in whole DATA chunks per signal
        fh, chunks, why = lifter.parse_image(img)
        ondisk = {}
        for ch in chunks:
            kind, tt, ck = lifter.tag_info(ch["tag"])
            if kind == "track" and tt == 0 and ck == 2 and ch["pcrc_ok"] and len(ch["payload"]) >= 16:
                ts, cnt = struct.unpack("<qI", ch["payload"][:12])
                g = ch["meta"] & 0xfff
                s = self.sigs.get(g)
                if s is not None:
                    lo, hi = ondisk.get(g, (ts, ts))
                    ondisk[g] = (min(lo, ts), max(hi, ts + cnt))
        obs = res.get("obs", {"sigs": [], "annos": [], "utcs": [], "ud": {"rc": 0, "items": []}, "nsig": 0})
        for ent in obs["sigs"]:
            lo, hi = ondisk.get(ent["sig"], (0, 0))
            ent["ondisk"] = _clip(hi - lo)
            ent.setdefault("first", 0)
        self.emit({"e": "CrashObs", "k": w, "j": j, "during": int(mark), "inplace": bool(inplace), "after_defs": bool(after_defs),
                   "term": term, "rc": res.get("rc", -1), "wcount": res.get("wcount", 0), "modified": bool(res.get("modified", False)),
                   "sigs": obs["sigs"], "annos": obs["annos"], "utcs": obs["utcs"], "ud": obs["ud"], "nsig": obs.get("nsig", 0),
                   "re": res.get("re", {"rc": 0, "wcount": 0, "modified": False, "same": True}),
                   "closed_ok": bool(res.get("closed_ok", True)), "closed_why": res.get("closed_why", ""), "size": len(img),
                   "lk": res.get("links", [])})
        if self.repseq and j == 0 and term == "ok" and res.get("rc", -1) == 0:
            # tier-B conformance of the repair (JlsRepair.tla): the FSR chunk sequence before and after the repairing open
            try:
                with open(ipath, "rb") as f:
                    post = fsr_chunk_seq(f.read())
                pre = fsr_chunk_seq(img)
            except (OSError, struct.error):
                pre, post = {}, {}
            for g, a in pre.items():
                b = post.get(g)
                if b is None or a["bits"] <= 8 or any(o <= 0 for c in a["seq"] + b["seq"] for o in c["o"]) or len(a["seq"]) > 400:
                    continue        # blocks may be omitted (not modelled), or a link the sequence cannot express
                key = (g, len(a["seq"]), a["att"])
                if key in self.repseq_seen:
                    continue        # the same image of this track (later writes went to other tracks)
                self.repseq_seen.add(key)
                self.emit({"e": "RepSeq", "sig": g, "k": w, "P": [_clip(v) for v in a["P"]], "att": bool(a["att"]), "pre": a["seq"], "post": b["seq"]})
        if self.repseq and (j == 0 or w == -1) and term == "ok" and res.get("rc", -1) == 0:
            # tier-B conformance of the pointer repair (JlsTsRepair.tla): links of the annotation / UTC tracks before / after
            try:
                tpre = ts_chunk_seq(img)
                with open(ipath, "rb") as f:
                    tpost = ts_chunk_seq(f.read(), limit={key: a["k"] for key, a in tpre.items()})
            except (OSError, struct.error):
                tpre, tpost = {}, {}
            for key, a in tpre.items():
                b = tpost.get(key)
                if b is None or b["k"] != a["k"] or any(v < 0 for v in a["nx"] + a["le"] + a["hd"]):
                    continue
                dk = ("ts", key, a["k"], tuple(a["nx"]), tuple(a["hd"]))
                if dk in self.repseq_seen:
                    continue
                self.repseq_seen.add(dk)
                self.emit({"e": "TsRepSeq", "sig": key[0], "tt": key[1], "w": w, "k": a["k"], "tag": a["tag"], "lvl": a["lvl"], "nx": a["nx"],
                           "le": a["le"], "hd": a["hd"], "pnx": b["nx"], "phd": b["hd"]})
        try:
            os.remove(ipath)
        except OSError:
            pass

    # -- corruption (C04) ---------------------------------------------------------
    def op_faultscan(self, op):
        """Alter bytes of the closed file 'a' (fault list from the program), open each altered copy with
        the real reader in a child process and record one FaultObs event per fault."""
        import lifter
        with open(self.path(op.get("file", "a")), "rb") as f:
            img = f.read()
        fh, chunks, why = lifter.parse_image(img)
        # protected regions of the file: file header, each chunk header, each payload+pad+crc
        regions = [(0, 32, "filehdr", 0)]
        for ch in chunks:
            regions.append((ch["off"], ch["off"] + 32, "hdr", ch["tag"]))
            if ch["plen"]:
                regions.append((ch["off"] + 32, ch["off"] + 32 + lifter.disk_size(ch["plen"]), "payload", ch["tag"]))
        rng = np.random.default_rng(op.get("seed", 1))
        faults = []
        mode = op.get("mode", "bits")
        nbits = len(img) * 8
        if mode == "bits":          # every single-bit flip (optionally strided)
            st = op.get("stride", 1)
            faults = [("bit", [b]) for b in range(op.get("phase", 0) % st, nbits, st)]
        elif mode == "multi":       # 2- and 3-bit flips and bursts inside one protected region; zeroed / overwritten ranges; several regions
            if op.get("minsize"):   # only regions at least this large (chunks beyond the reader's initial buffer)
                regions = [r_ for r_ in regions if r_[1] - r_[0] >= op["minsize"]]
            for _ in range(op.get("count", 1000) if regions else 0):
                lo, hi, kind, tag = regions[int(rng.integers(0, len(regions)))]
                r = rng.random()
                if r < 0.3:
                    faults.append(("bits2", [int(b) for b in rng.choice(np.arange(lo * 8, hi * 8), size=2, replace=False)]))
                elif r < 0.55:
                    faults.append(("bits3", [int(b) for b in rng.choice(np.arange(lo * 8, hi * 8), size=3, replace=False)]))
                elif r < 0.8:
                    ln = int(rng.integers(2, 33))
                    b0 = int(rng.integers(lo * 8, max(lo * 8 + 1, hi * 8 - ln)))
                    pat = [b0, b0 + ln - 1] + [b0 + int(k) for k in range(1, ln - 1) if rng.random() < 0.5]
                    faults.append(("burst", sorted(set(pat))))
                elif r < 0.9:
                    a = int(rng.integers(lo, hi))
                    n = int(rng.integers(1, min(64, hi - a) + 1))
                    faults.append(("zero", [a, n]))
                else:
                    lo2, hi2, _, _ = regions[int(rng.integers(0, len(regions)))]
                    faults.append(("bits2x", [int(rng.integers(lo * 8, hi * 8)), int(rng.integers(lo2 * 8, hi2 * 8))]))
        ipath_lock = self.path("crash")
        for (kind, arg) in faults:
            b = bytearray(img)
            if kind == "zero":
                b[arg[0]:arg[0] + arg[1]] = bytes(arg[1])
                where = arg[0]
            else:
                for bit in arg:
                    b[bit >> 3] ^= 1 << (bit & 7)
                where = arg[0] >> 3
            if bytes(b) == img:
                continue
            reg = next(((k_, t_) for (lo, hi, k_, t_) in regions if lo <= where < hi), ("none", 0))
            self.fault_obs(bytes(b), kind, arg, reg)

    def fault_obs(self, img, kind, arg, reg):
        import hashlib
        import select
        ipath = self.path("crash")
        with open(ipath, "wb") as f:
            f.write(img)
        rfd, wfd = os.pipe()
        pid = os.fork()
        if pid == 0:
            try:
                os.close(rfd)
                h = ct.c_void_p()
                w0 = self.L.iow_count()
                rc = self.L.jls_rd_open(ct.byref(h), ipath)
                res = {"rc": rc}
                res["wcount"] = sum(1 for i in range(w0, self.L.iow_count()) if self.L.iow_get(i).contents.kind in (IOW_WRITE, IOW_TRUNC))
                with open(ipath, "rb") as f:
                    res["modified"] = f.read() != img
                if rc == 0:
                    res["obs"] = self.observe_reader(h, defs=True)
                    if _any_failure(res["obs"]):
                        # what a call leaves behind when it fails must not serve the next one: ask everything again
                        res["obs2"] = self.observe_reader(h, defs=True)
                    self.L.jls_rd_close(h)
                os.write(wfd, json.dumps(res).encode())
            finally:
                os._exit(0)
        os.close(wfd)
        buf = b""
        term = "ok"
        import time as _t
        t0 = _t.time()
        while True:
            r, _, _ = select.select([rfd], [], [], max(0.0, 4.0 - (_t.time() - t0)))
            if not r:
                term = "hang"
                os.kill(pid, 9)
                break
            chunk = os.read(rfd, 1 << 20)
            if not chunk:
                break
            buf += chunk
        os.close(rfd)
        os.waitpid(pid, 0)
        res = {}
        if term == "ok":
            try:
                res = json.loads(buf.decode())
            except ValueError:
                term = "crash"
        obs = res.get("obs", {"sigs": [], "annos": [], "utcs": [], "ud": {"rc": 0, "items": []}, "nsig": 0, "defs": {"rc": 0, "srcs": [], "sigs": []}})
        for ent in obs["sigs"]:
            ent.setdefault("first", 0)
            ent["ondisk"] = 0
        for npass, o_ in enumerate([obs] + ([res["obs2"]] if res.get("obs2") else []), 1):
            for ent in o_["sigs"]:
                ent.setdefault("first", 0)
                ent["ondisk"] = 0
            self.emit({"e": "FaultObs", "fault": kind, "arg": arg[:6], "region": reg[0], "tag": reg[1], "term": term, "rc": res.get("rc", -1),
                       "wcount": res.get("wcount", 0), "modified": bool(res.get("modified", False)),
                       "sigs": o_["sigs"], "annos": o_["annos"], "utcs": o_["utcs"], "ud": o_["ud"], "nsig": o_.get("nsig", 0),
                       "defs": o_.get("defs", {"rc": 0, "srcs": [], "sigs": []}), "j": 1, "after_defs": False,
                       "re": {"rc": 0, "wcount": 0, "modified": False, "same": True}, "closed_ok": True, "pass": npass, "lk": []})
        try:
            os.remove(ipath)
        except OSError:
            pass

    def op_liftlog(self, op):
        """lift the backend writes made on a file so far into BkWrite/... events"""
        import lifter
        n = self.L.iow_count()
        entries = []
        for i in range(n):
            e = self.L.iow_get(i).contents
            data = b""
            if e.kind == IOW_WRITE and e.len > 0:
                data = ct.string_at(e.data, e.len)
            elif e.kind == IOW_OPEN and e.data:
                data = ct.string_at(ct.cast(e.data, ct.c_char_p))
            entries.append({"kind": e.kind, "fd": e.fd, "off": e.off, "len": e.len, "size_before": e.size_before,
                            "mark": e.mark, "data": data})
        wl = lifter.lift_log(entries, self.path(op.get("file", "a")))
        for ev in wl.events:
            ev["during"] = self.kinds.get(ev.get("mark"), "none")
            self.emit(ev)

    def _fsr_summaries(self, k):
        """lift the FSR INDEX/SUMMARY chunks of a file: {(sig, lvl): [entry tokens]}, {sig: level-1 offsets}"""
        import lifter
        with open(self.path(k), "rb") as f:
            img = f.read()
        fh, chunks, why = lifter.parse_image(img)
        sums, idx1 = {}, {}
        for ch in chunks:
            d = lifter.decode(ch, str_tok, fnv)
            if d["kind"] == "track" and d["tt"] == 0:
                if d["ck"] == 4:
                    sums.setdefault((d["sig"], d["lvl"]), []).extend(d.get("ent", []))
                elif d["ck"] == 3 and d["lvl"] == 1:
                    idx1.setdefault(d["sig"], []).extend(d.get("offs", []))
        return sums, idx1

    def op_sumvals(self, op):
        """Stored FSR summary entries of a closed file, lifted from its bytes: one SumEntries event per SUMMARY chunk
        (levels whose entries span at most 4096 samples) with the integer projection of every entry."""
        import lifter
        with open(self.path(op.get("file", "a")), "rb") as f:
            img = f.read()
        fh, chunks, why = lifter.parse_image(img)
        bases = {g: (s["base"], s["tbase"]) for g, s in self.sigs.items()}
        defs = {}
        for ch in chunks:
            d = lifter.decode(ch, str_tok, fnv, bases)
            if d["kind"] == "signal":
                defs[d["id"]] = (d["sdf"], d["sumdf"])
            if d["kind"] == "track" and d["tt"] == 0 and d["ck"] == 4 and d.get("ok") and d["sig"] in defs:
                sdf, sumdf = defs[d["sig"]]
                span = sdf * (sumdf ** (d["lvl"] - 1)) if d["lvl"] >= 1 else 0
                if not (0 < span <= 4096) or d["cnt"] > 600:
                    continue
                wide = d["esb"] == 256
                ents = []
                for hx in d["ent"]:
                    b = bytes.fromhex(hx)
                    mean, std, mn, mx = struct.unpack("<4d" if wide else "<4f", b)
                    off = float((self.sigs.get(d["sig"]) or {}).get("soff", 0))
                    mean, mn, mx = mean - off, mn - off, mx - off
                    pr = stat_projection(mean, std, mn, mx, span)
                    import math
                    pr["m1000"] = _clip(round(mean * 1000)) if math.isfinite(mean) and abs(mean) < 2e6 else 0
                    ents.append(pr)
                self.emit({"e": "SumEntries", "sig": d["sig"], "lvl": d["lvl"], "ts": d["ts"], "span": _clip(span), "wide": wide, "ent": ents})

    def runs_abs(self, s, dt, a0, got):
        """candidate runs for samples with absolute ids a0.. (used for DATA chunks of a file image)"""
        n = len(got)
        cuts = {a0, a0 + n}
        for (q, id0, m, gen, gid) in s["wev"]:
            for c in (id0, id0 + m):
                if a0 < c < a0 + n:
                    cuts.add(c)
        cuts = sorted(cuts)
        fill = is_fill(dt, got)
        runs = []
        for a, b in zip(cuts[:-1], cuts[1:]):
            piece = got[a - a0:b - a0]
            ids = np.arange(a, b, dtype=np.int64)
            cands = []
            if fill[a - a0:b - a0].all():
                cands.append(0)
            for (q, id0, m, gen, gid) in s["wev"]:
                if id0 <= a and b <= id0 + m and np.array_equal(gen_values(dt, gen, gid, ids, s["base"], self.seed), piece):
                    cands.append(q)
            runs.append({"p": _clip(a - s["base"]), "n": b - a, "c": cands})
        return runs

    def op_liftfile(self, op):
        """independent decode of a file image: FileHdr, one Chunk event per chunk, FileEnd"""
        import lifter
        with open(self.path(op.get("file", "a")), "rb") as f:
            img = f.read()
        fh, chunks, why = lifter.parse_image(img)
        bases = {g: (s["base"], s["tbase"]) for g, s in self.sigs.items()}
        self.emit({"e": "FileHdr", "present": fh.get("present", False), "ident_ok": fh.get("ident_ok", False), "crc_ok": fh.get("crc_ok", False),
                   "len_eq_size": fh.get("length", -1) == len(img), "major": fh.get("major", -1), "size": _clip(len(img)), "file": op.get("file", "a")})
        for ch in chunks:
            d = lifter.decode(ch, str_tok, fnv, bases)
            ev = {"e": "Chunk", "file": op.get("file", "a"), "off": ch["off"], "tag": ch["tag"], "meta": ch["meta"], "plen": ch["plen"], "pprev": ch["pprev"],
                  "next": _clip(ch["next"]), "prev": _clip(ch["prev"]), "hcrc": ch["crc_ok"], "pcrc": ch["pcrc_ok"], "pad0": ch["pad0"], "rsv": ch["rsv"],
                  "kind": d["kind"], "tt": d["tt"], "ck": d["ck"], "sig": d["sig"], "lvl": d["lvl"], "ok": bool(d["ok"]),
                  "ts": d.get("ts", 0), "cnt": d.get("cnt", 0), "esb": d.get("esb", 0),
                  "offs": [_clip(o) for o in (d.get("offs") or d.get("heads") or [])],
                  "pairs": d.get("ient") or d.get("uent") or ([[d.get("ts", 0), d["utc"]]] if "utc" in d else []),
                  "toks": d.get("ent") or [], "sent": d.get("sent") or [],
                  "tok": d.get("tok", ""), "size": d.get("size", 0), "st": d.get("st", d.get("stype", 0)), "id": d.get("id", d.get("meta12", 0)),
                  "strs": d.get("s") or [], "sdef": {}, "runs": [], "rsv0": bool(d.get("rsv0", True)), "hdr1": bool(d.get("hdr1", True))}
            if d["kind"] == "signal":
                ev["sdef"] = {"id": d["id"], "src": d["src"], "st": d["st"], "dt": dt_name(d["dtc"]), "fq": d["dtq"] & 0xff, "rate": d["rate"], "spd": d["spd"], "sdf": d["sdf"],
                              "eps": d["eps"], "sumdf": d["sumdf"], "adf": d["adf"], "udf": d["udf"], "name": d["name"], "units": d["units"]}
            if d["kind"] == "track" and d["tt"] == 0 and d["ck"] == 2:
                s = self.sigs.get(d["sig"])
                body = d.get("body", b"")
                if s and s["dt"] and d["esb"] == DTYPES[s["dt"]][1] and len(body) * 8 >= d["cnt"] * d["esb"]:
                    got = unpack(s["dt"], body, d["cnt"])
                    ev["runs"] = self.runs_abs(s, s["dt"], d["ts"] + s["base"], got)
                    ev["blen"] = len(body)
            self.emit(ev)
        self.emit({"e": "FileEnd", "file": op.get("file", "a"), "why": why, "nchunks": len(chunks), "size": _clip(len(img))})

    def op_sumsnap(self, op):
        """remember the stored summaries of a file; report which level-1 index entries are 0 (omitted blocks)"""
        sums, idx1 = self._fsr_summaries(op.get("file", "a"))
        self.snap = sums
        for sig in sorted(idx1):
            offs = idx1[sig]
            self.emit({"e": "IdxZeros", "sig": sig, "nblk": len(offs), "zeros": [i for i, o in enumerate(offs) if o == 0]})

    def op_sumcmp(self, op):
        """stored summaries of file b against the snapshot (same stream, omission off)"""
        sums, idx1 = self._fsr_summaries(op.get("file", "b"))
        for key in sorted(set(sums) | set(self.snap)):
            self.emit({"e": "SumCmp", "sig": key[0], "lvl": key[1], "a": self.snap.get(key, []), "b": sums.get(key, [])})

    # -- raw material for the lifter / crash images ---------------------------------
    def op_dumplog(self, op):
        """write the backend log of this execution as a binary file for tools/lifter.py"""
        dump_iolog(self.L, op["path"])
        self.emit({"e": "IoLog", "n": int(self.L.iow_count())})


cfg_lift = [True]
INT_MAX = 2147483647


def _clip(v):
    """TLC integers are 32 bit: out-of-range numbers are clipped to +-(2^31-1); the
    drivers keep every quantity the specifications compute with far below that."""
    v = int(v)
    return max(-INT_MAX, min(INT_MAX, v))

def _any_failure(obs):
    """did any query of a reader dump report an error?"""
    for e_ in obs.get("sigs", []):
        if e_.get("lrc") or e_.get("rrc") or any(x and x[0] != 0 for x in e_.get("st", [])):
            return True
    for k_ in ("annos", "utcs"):
        for e_ in obs.get(k_, []):
            if e_.get("rc") or any(r_[1] != 0 or r_[3] != 0 for r_ in e_.get("conv", [])):
                return True
    return bool(obs.get("ud", {}).get("rc")) or bool(obs.get("defs", {}).get("rc"))


def ts_chunk_seq(img, limit=None):
    """The annotation / UTC tracks of an image as chunk sequences in file order with their links as ordinals (for the
    tier-B model spec/JlsTsRepair.tla): (sig, track type) -> {k, tag, lvl, nx, le, hd}; a link is 0 (none), the ordinal
    of the chunk of this sequence that starts there, k + 1 (no complete chunk of the first `limit` ones starts there:
    dangling) or -1 (a chunk that is not part of this track).  limit = the number of chunks of each track to describe
    (the file after the repair is described over the chunks the image had)."""
    import lifter
    fh, chunks, why = lifter.parse_image(img)
    tracks = {}
    heads = {}
    alloff = {c["off"] for c in chunks}
    for ch in chunks:
        kind, tt, ck = lifter.tag_info(ch["tag"])
        if kind != "track" or tt not in (2, 3):
            continue
        g = ch["meta"] & 0xfff
        if ck == 1 and ch["pcrc_ok"] and len(ch["payload"]) == 128:
            heads[(g, tt)] = list(struct.unpack("<16Q", ch["payload"]))
        elif ck in (2, 3, 4) and ch["pcrc_ok"]:
            le = 0
            if ck == 3 and len(ch["payload"]) >= 16:
                ts, cnt, esb, rsv = struct.unpack("<qIHH", ch["payload"][:16])
                if cnt > 0 and len(ch["payload"]) >= 16 + 16 * cnt:
                    le = struct.unpack("<q", ch["payload"][16 + 16 * (cnt - 1) + 8:16 + 16 * cnt])[0]
            tracks.setdefault((g, tt), []).append({"t": "DIS"[ck - 2], "l": ch["meta"] >> 12, "off": ch["off"], "next": ch["next"], "le": le})
    out = {}
    for key, seq in tracks.items():
        if limit is not None:
            seq = seq[:limit.get(key, 0)]
        k = len(seq)
        if k == 0 or k > 300 or key not in heads:
            continue
        ordof = {c["off"]: i + 1 for i, c in enumerate(seq)}
        def o_(x):
            return 0 if x == 0 else ordof.get(x, -1 if x in alloff else k + 1)
        out[key] = {"k": k, "tag": [c["t"] for c in seq], "lvl": [c["l"] for c in seq], "nx": [o_(c["next"]) for c in seq],
                    "le": [o_(c["le"]) for c in seq], "hd": [o_(x) for x in heads[key]]}
    return out


def fsr_chunk_seq(img):
    """The FSR track of every FSR signal as a chunk sequence in file order (for the tier-B repair model JlsRepair.tla):
    sig -> (P, [chunk]), chunk = {t: D/I/S, l: level, ts, n, o: index offsets as ordinals in the sequence (0 = none,
    -1 = not a chunk of the sequence), off, next}; heads: sig -> 16 head offsets; plus whether the last chunk is attached
    to its list (a predecessor's item_next or the head table leads to it; summaries are read behind their index)."""
    import lifter
    fh, chunks, why = lifter.parse_image(img)
    defs = {}
    seqs = {}
    heads = {}
    for ch in chunks:
        kind, tt, ck = lifter.tag_info(ch["tag"])
        if kind == "signal" and ch["pcrc_ok"] and len(ch["payload"]) >= 36:
            src, st, _r, dt, rate, spd, sdf, eps, sumdf, adf, udf = struct.unpack("<HBBIIIIIIII", ch["payload"][:36])
            if st == 0:
                defs[ch["meta"] & 0xfff] = {"bits": (dt >> 8) & 0xff, "P": [spd, sdf, eps, sumdf]}
        elif kind == "track" and tt == 0 and ch["pcrc_ok"]:
            g = ch["meta"] & 0xfff
            if ck == 1 and len(ch["payload"]) == 128:
                heads[g] = list(struct.unpack("<16Q", ch["payload"]))
            elif ck in (2, 3, 4) and len(ch["payload"]) >= 16:
                ts, cnt, esb, rsv = struct.unpack("<qIHH", ch["payload"][:16])
                offs = list(struct.unpack("<%dQ" % cnt, ch["payload"][16:16 + 8 * cnt])) if ck == 3 and len(ch["payload"]) >= 16 + 8 * cnt else []
                seqs.setdefault(g, []).append({"t": "DIS"[ck - 2], "l": ch["meta"] >> 12, "ts": ts, "n": cnt, "offs": offs, "off": ch["off"], "next": ch["next"]})
    out = {}
    for g, seq in seqs.items():
        if g not in defs or not any(c["t"] == "D" for c in seq):
            continue
        first = next(c["ts"] for c in seq if c["t"] == "D")
        ordof = {c["off"]: i + 1 for i, c in enumerate(seq)}
        last = seq[-1]
        att = True
        if last["t"] != "S":
            att = (heads.get(g, [0] * 16)[last["l"]] == last["off"]
                   or any(c["next"] == last["off"] and c["t"] == last["t"] and c["l"] == last["l"] for c in seq[:-1]))
        out[g] = {"bits": defs[g]["bits"], "P": defs[g]["P"], "att": att,
                  "seq": [{"t": c["t"], "l": c["l"], "ts": _clip(c["ts"] - first), "n": c["n"],
                           "o": [0 if o == 0 else ordof.get(o, -1) for o in c["offs"]]} for c in seq]}
    return out


def stat_projection(mean, std, mn, mx, incr):
    """Integer projection of one {mean,std,min,max} entry (no judgement):
    mnI/mxI  : min/max if they are integers (else 'nonint'),
    sum      : llround(mean*incr) and the residual in 1/1024 units,
    var100   : llround(std^2 * 100); nan flags."""
    import math
    r = {"nan": [int(math.isnan(v)) for v in (mean, std, mn, mx)]}
    def ival(v):
        if math.isnan(v) or math.isinf(v) or abs(v) > 2e9:
            return {"k": "x", "v": 0}
        return {"k": "i" if float(v).is_integer() else "f", "v": int(math.floor(v))}
    r["mn"], r["mx"] = ival(mn), ival(mx)
    if math.isnan(mean) or math.isinf(mean) or abs(mean * incr) > 2e9:
        r["sum"], r["sres"] = 0, -1
    else:
        sm = mean * incr
        r["sum"] = int(round(sm))
        r["sres"] = int(min(1e6, round(abs(sm - round(sm)) * 1024)))
    if math.isnan(std) or math.isinf(std) or std * std * 100 > 2e9:
        r["var100"] = -1
    else:
        r["var100"] = int(round(std * std * 100))
    return r


def dump_iolog(L, path):
    with open(path, "wb") as f:
        n = L.iow_count()
        f.write(struct.pack("<q", n))
        for i in range(n):
            e = L.iow_get(i).contents
            data = b""
            if e.kind == IOW_WRITE and e.len > 0:
                data = ct.string_at(e.data, e.len)
            elif e.kind == IOW_OPEN and e.data:
                data = ct.string_at(ct.cast(e.data, ct.c_char_p))
            f.write(struct.pack("<iiqqqqi", e.kind, e.fd, e.off, e.len, e.size_before, e.mark, len(data)))
            f.write(data)


def read_iolog(path):
    out = []
    with open(path, "rb") as f:
        n = struct.unpack("<q", f.read(8))[0]
        for _ in range(n):
            kind, fd, off, ln, szb, mark, dl = struct.unpack("<iiqqqqi", f.read(44))
            out.append({"kind": kind, "fd": fd, "off": off, "len": ln, "size_before": szb, "mark": mark, "data": f.read(dl)})
    return out


def main():
    """worker: jlsdrv.py <programs.json> <trace.ndjson> <workdir> [flavour] [first_index]
    Executes programs[first_index:], flushing the trace after every event, so that
    the parent can tell where a crash or hang happened."""
    progs = json.load(open(sys.argv[1]))
    flavour = sys.argv[4] if len(sys.argv) > 4 else "so"
    first = int(sys.argv[5]) if len(sys.argv) > 5 else 0
    L = load(flavour)
    with open(sys.argv[2], "a", buffering=1) as out:
        d = Driver(L, out, sys.argv[3], seed=progs.get("seed", 1))
        for i, p in enumerate(progs["programs"]):
            if i < first:
                continue
            d.run_program(p)
            out.write(json.dumps({"e": "Done", "x": p["x"], "q": d.q + 1, "i": i}) + "\n")


if __name__ == "__main__":
    main()
