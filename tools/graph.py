"""Reading TLC state-graph dumps (-dump dot,actionlabels) and covering every
edge with executions of the real code (spec -> implementation direction)."""
import re
from collections import defaultdict, deque

_EDGE = re.compile(r'^(-?\d+) -> (-?\d+) \[label="([^"]*)"')
_NODE = re.compile(r'^(-?\d+) \[label="((?:[^"\\]|\\.)*)"(,style = filled)?')


def parse_dot(path):
    """Returns (init_ids, nodes: id -> {var: raw value string}, edges: id -> [(label, dst)])."""
    nodes = {}
    edges = defaultdict(list)
    inits = []
    with open(path) as f:
        for line in f:
            m = _EDGE.match(line)
            if m:
                edges[m.group(1)].append((m.group(3), m.group(2)))
                continue
            m = _NODE.match(line)
            if m:
                lab = m.group(2).replace('\\"', '"').replace("\\\\", "\\").replace("\\n", "\n")
                vals = {}
                for part in re.split(r"(?:^|\n)/\\ ", lab):
                    if " = " in part:
                        k, v = part.split(" = ", 1)
                        vals[k.strip()] = v.strip()
                nodes[m.group(1)] = vals
                if m.group(3):
                    inits.append(m.group(1))
    return inits, nodes, edges


def bfs_tree(inits, edges):
    """parent edge of every reachable node in a BFS tree: node -> (parent, label)."""
    parent = {i: None for i in inits}
    dq = deque(inits)
    order = []
    while dq:
        u = dq.popleft()
        order.append(u)
        for lab, v in edges.get(u, ()):
            if v not in parent:
                parent[v] = (u, lab)
                dq.append(v)
    return parent, order


def dfs_edge_walk(init, edges, parent):
    """Yield a walk over the BFS tree that takes every out-edge of every node once:
    ('op', label, dst) / ('push',) / ('back',).  Tree edges are descended into;
    non-tree edges are taken and immediately undone."""
    children = defaultdict(set)
    for v, pe in parent.items():
        if pe is not None:
            children[pe[0]].add((pe[1], v))
    stack = [(init, iter(edges.get(init, ())))]
    while stack:
        u, it = stack[-1]
        nxt = next(it, None)
        if nxt is None:
            stack.pop()
            if stack:
                yield ("back",)
            continue
        lab, v = nxt
        yield ("push",)
        yield ("op", lab, v)
        if (lab, v) in children[u]:
            children[u].discard((lab, v))
            stack.append((v, iter(edges.get(v, ()))))
        else:
            yield ("back",)
