#!/usr/bin/env python3
"""crashimg.py <program.json> <k> <j> <out.jls> : rebuild the crash image 'first k backend writes of
file a + j bytes of the next' of a driver program (for replaying a C03/C19 finding by hand)."""
import ctypes as ct
import json
import os
import sys
import tempfile

sys.path.insert(0, os.path.dirname(os.path.abspath(__file__)))
import jlsdrv as J


def build(prog, k, j, out, flavour="so"):
    L = J.load(flavour)
    wd = tempfile.mkdtemp(prefix="crashimg.", dir="/dev/shm")
    prog = dict(prog)
    prog.pop("crash", None)
    ops = []
    for o in prog["ops"]:
        ops.append(o)
        if o["op"] == "wclose":
            break
    prog["ops"] = ops
    prog["keep_files"] = True
    with open(os.devnull, "w") as devnull:
        d = J.Driver(L, devnull, wd, seed=prog.get("seed", 1))
        d.run_program(prog)
    img = bytearray()
    fd = None
    for w in range(L.iow_count()):
        e = L.iow_get(w).contents
        if e.kind == J.IOW_OPEN:
            path = ct.string_at(ct.cast(e.data, ct.c_char_p)) if e.data else b""
            if path.endswith(b"_a.jls") and e.len:
                fd = e.fd
            continue
        if e.fd != fd or e.kind != J.IOW_WRITE or e.len <= 0:
            continue
        data = ct.string_at(e.data, e.len)
        if w == k:
            data = data[:j]
        if w > k:
            break
        if e.off > len(img):
            img.extend(b"\0" * (e.off - len(img)))
        img[e.off:e.off + len(data)] = data
    open(out, "wb").write(img)
    for f in os.listdir(wd):
        os.remove(os.path.join(wd, f))
    os.rmdir(wd)
    return len(img)


if __name__ == "__main__":
    prog = json.load(open(sys.argv[1]))
    if "programs" in prog:
        prog = prog["programs"][0]
    print(build(prog, int(sys.argv[2]), int(sys.argv[3]), sys.argv[4]))
