#!/bin/bash
# usage: tools/fixcommit.sh <file with commit message> <paths...>   (run in /verif)
# commits a fix in /repo only if the unedited test suite passes with it.
set -e
MSG=$1; shift
out=$(/verif/tools/baseline.sh 2>&1) || { echo "$out" | tail -15; echo "BASELINE FAILED - not committed"; exit 1; }
echo "$out" | tail -1
cd /repo && git add "$@" && git commit -q -F "$MSG" && git log --oneline | head -1
