"""C04 - corrupted bytes are detected, never returned as valid content.

MC : CrcHD.tla - by GF(2)-linearity of the CRC, TLC decides exhaustively on the single-bit
     syndromes that every alteration of at most three bits inside a protected region (chunk
     header / file header: 28 data bytes + CRC; head-table payload: 132 + CRC; thorough: 300 + CRC)
     changes the check.
FE : fault enumeration on closed files with two signals, two summary levels, annotations,
     UTC and user data: EVERY single-bit flip of the file (exhaustive), sampled 2-/3-bit flips and
     bursts <= 32 bits inside one protected region, zeroed ranges, flips in two regions. Each
     altered copy is opened by the real reader in a child process (watchdog) and dumped
     (definitions, lengths, all samples, annotations, UTC, user data); TLC judges each FaultObs
     with JlsCorrupt.tla: error, or exactly the original, or - only if the open repaired the
     file - a genuine prefix; never altered content as valid; never a crash or hang."""
import copy
import json
import os
import random

import apicheck
import common as C
import progs
import runner

REASONS = ["altered file reports a different signal length as valid", "altered file reports a different first sample id as valid",
           "altered samples returned as valid", "altered statistics returned as valid", "altered source definitions returned as valid",
           "altered signal definitions returned as valid",
           "the open wrote to the altered file without changing it", "altered or incomplete annotations returned as valid",
           "altered or incomplete UTC entries returned as valid", "altered or incomplete user data returned as valid",
           "a time conversion on the altered file disagrees with the UTC entries written",
           "a signal that was never defined appeared"]


def base_program(rng, x, variant):
    dts = [("f32", "u8"), ("i16", "u1"), ("f64", "u4")][variant % 3]
    ops = [{"op": "wopen"}, {"op": "source", "id": 1, "name": ["lit", "src"], "vendor": ["lit", "v"], "model": None, "version": ["lit", "1"], "serial": ["lit", "sn"]},
           {"op": "userdata", "meta": 7, "stype": 2, "data": ["lit", "hello"]}]
    # lengths that end in a partial block holding fewer samples than one summary entry: the length is then known
    # from the last DATA chunk only
    n0 = {"f32": 403, "i16": 707, "f64": 301}[dts[0]]
    n1 = {"u8": 811, "u1": 6007, "u4": 1603}[dts[1]]
    for g, dt, n in ((1, dts[0], n0), (2, dts[1], n1)):
        ops.append({"op": "signal", "id": g, "src": 1, "dt": dt, "rate": 1000, "spd": (64 if dt == "u8" else 0) if progs.WIDTH[dt] <= 8 else 64,
                    "sdf": 16 if progs.WIDTH[dt] > 8 else (32 if dt == "u8" else 0),
                    "eps": 10, "sumdf": 10, "adf": 10, "udf": 10, "name": ["lit", "sig%d" % g], "units": ["lit", "u"]})
    # the u8 signal has a constant stretch over whole blocks: those blocks exist only as summary entries and are
    # reconstructed by the reader from the level-1 summary it has cached
    seg2 = [(384, None), (576, ["const", 7]), (n1, None)] if dts[1] == "u8" else []
    i0 = i1 = 0
    k = 0
    last_utc = -1
    while i0 < n0 or i1 < n1:
        if i0 < n0:
            m = min(n0 - i0, rng.choice([37, 64, 100]))
            ops.append({"op": "fsr", "sig": 1, "id": i0, "n": m})
            i0 += m
        if i1 < n1 and seg2:
            end, gen = seg2.pop(0)
            op = {"op": "fsr", "sig": 2, "id": i1, "n": end - i1}
            if gen:
                op["gen"] = gen
            ops.append(op)
            i1 = end
        elif i1 < n1:
            m = min(n1 - i1, rng.choice([333, 512, 1000]))
            ops.append({"op": "fsr", "sig": 2, "id": i1, "n": m})
            i1 += m
        k += 1
        if k % 2 == 0:
            ops.append({"op": "anno", "sig": 1 if k % 4 else 0, "ts": i0 if k % 4 else k, "stype": 2, "atype": 1, "data": ["lit", "a%d" % k]})
        # UTC entries: more than two summary chunks' worth (udf = 10), times off any straight line, so that a time map
        # built from only some of them gives other conversion results than the complete one
        for j in range(4):
            uid = i0 - 3 + j
            if uid > last_utc:
                ops.append({"op": "utc", "sig": 1, "id": uid, "t": 1000 * uid + 137 * ((uid * 7) % 5)})
                last_utc = uid
    ops += [{"op": "userdata", "meta": 9, "stype": 1, "data": ["rep", 24, x]}, {"op": "wclose"}]
    return ops


def run(tier):
    ck = C.Check("C04", level="fault_enumeration")
    rng = random.Random(C.seed() * 7919 + 4)
    thorough = tier == "thorough"
    C.build("so")
    sc = C.scratch()
    for nb in [28, 132] + ([300] if thorough else []):
        cfg = os.path.join(sc, "crchd_%d.cfg" % nb)
        open(cfg, "w").write("SPECIFICATION Spec\nCONSTANTS\n  NBytes = %d\n" % nb)
        r = C.tlc("CrcHD", cfg, timeout=2400, workers=1)
        if r.error:
            ck.violation({"where": "model", "config": "CrcHD NBytes=%d" % nb, "reason": "CRC-32C does not detect some <= 3-bit alteration of a %d-byte region: %s" % (nb, r.error[:300])})
        else:
            ck.log("MC CrcHD NBytes=%d: all 1-, 2- and 3-bit alterations of a %d-bit region change the check (%.1fs)" % (nb, nb * 8 + 32, r.wall))
            ck.cov["mc_runs"].append({"config": "CrcHD NBytes=%d" % nb, "syndromes": nb * 8 + 32, "pairs_checked": (nb * 8 + 32) ** 2, "wall_s": round(r.wall, 1), "ok": True})
    P = []
    x = 1
    nfiles = 3 if thorough else 1
    stride = 16
    for v in range(nfiles):
        base = base_program(random.Random(C.seed() * 31 + v), x, v)
        for phase in range(stride):
            ops = copy.deepcopy(base) + [{"op": "faultscan", "mode": "bits", "stride": stride, "phase": phase}]
            ops.append({"op": "faultscan", "mode": "multi", "count": (6000 if thorough else 350), "seed": C.seed() * 1000 + phase + 100 * v})
            P.append({"x": x, "kind": "c04", "feat": ["variant-%d" % v, "phase-%d" % phase], "ops": ops})
            x += 1
    # chunks larger than the reader's initial 1 MiB chunk buffer (the read is repeated after the buffer has grown):
    # sampled faults inside the large payloads only
    nbig = 60 if thorough else 16
    big_ud = [{"op": "wopen"}, {"op": "source", "id": 1, "name": ["lit", "src"]},
              {"op": "userdata", "meta": 5, "stype": 1, "data": ["rep", 1500000, 77]},
              {"op": "signal", "id": 1, "src": 1, "dt": "u8", "rate": 1000, "spd": 64, "sdf": 16, "eps": 10, "sumdf": 10, "adf": 10, "udf": 10,
               "name": ["lit", "s"], "units": ["lit", "u"]},
              {"op": "fsr", "sig": 1, "id": 0, "n": 300}, {"op": "wclose"},
              {"op": "faultscan", "mode": "multi", "count": nbig, "minsize": 1 << 20, "seed": C.seed() * 1000 + 901}]
    P.append({"x": x, "kind": "c04", "feat": ["big-userdata"], "ops": big_ud})
    x += 1
    big_fsr = [{"op": "wopen"}, {"op": "source", "id": 1, "name": ["lit", "src"]},
               {"op": "signal", "id": 1, "src": 1, "dt": "f32", "rate": 1000, "spd": 300000, "sdf": 1000, "eps": 300, "sumdf": 10, "adf": 10, "udf": 10,
                "name": ["lit", "s"], "units": ["lit", "u"]},
               {"op": "fsr", "sig": 1, "id": 0, "n": 200000}, {"op": "fsr", "sig": 1, "id": 200000, "n": 250000}, {"op": "wclose"},
               {"op": "faultscan", "mode": "multi", "count": nbig, "minsize": 1 << 20, "seed": C.seed() * 1000 + 902}]
    P.append({"x": x, "kind": "c04", "feat": ["big-fsr-block"], "ops": big_fsr})
    x += 1
    trace, abnormal = runner.run_programs(P, seed=C.seed(), tag="c04", per_program_timeout=600)
    nobs = sum(1 for l in open(trace) if l.startswith('{"e":"FaultObs"'))
    ck.log("enumerated %d faults on %d file(s): each altered copy opened and dumped by the real reader; %d abnormal driver termination(s)" % (nobs, nfiles, len(abnormal)))
    v = C.validate_trace_parallel("JlsCorruptTrace", "JlsCorruptTrace.cfg", trace, parts=16, timeout=3000, heap="4g")
    ck.log("trace validation: %d/%d events consumed, %d rejection(s)" % (v.consumed, v.total, len(v.rejections)))
    lines = open(trace).read().split("\n") if v.rejections else []
    for (ex, line, why) in v.rejections:
        evj = json.loads(lines[line - 1])
        d = {"where": "implementation", "execution": ex, "reason": why, "fault": evj.get("fault"), "arg": evj.get("arg"), "region": evj.get("region"),
             "tag": evj.get("tag"), "rc": evj.get("rc"), "modified": evj.get("modified"), "class": ""}
        files = []
        if len(ck.violations) < 40:
            ef = os.path.join(sc, "c04_obs_%d_%d.json" % (ex, line))
            open(ef, "w").write(lines[line - 1])
            pf = os.path.join(sc, "c04_prog_%d.json" % ex)
            json.dump(P[ex - 1], open(pf, "w"))
            files = [ef, pf]
        ck.violation(d, files)
    for (xx, kind) in abnormal:
        ck.violation({"where": "implementation", "execution": xx, "reason": "driver " + kind})
    cnt = {}
    for l in open(trace):
        if l.startswith('{"e":"FaultObs"'):
            e = json.loads(l)
            key = "err" if e["rc"] != 0 else ("repaired" if e["modified"] else "opened")
            cnt[key] = cnt.get(key, 0) + 1
    ck.cov["evaluations"] = nobs
    ck.cov["distinct_nontrivial"] = cnt.get("opened", 0) + cnt.get("repaired", 0)
    ck.cov["outcomes"] = cnt
    ck.cov["traces_validated_against_impl"] = nobs - len(v.rejections)
    ck.cov["exhaustive"] = True
    ck.cov["rule"] = ("every single-bit flip of each file (exhaustive) + sampled 2-/3-bit, burst, zeroed-range and two-region faults; distinct by construction; "
                      "non-trivial = the altered file still opened (so its content had to be judged), as opposed to being refused at open")
    ck.cov["samples"] = [l.strip()[:220] for l in open(trace) if l.startswith('{"e":"FaultObs"') and '"rc":0' in l][:3]
    ck.assumptions += ["the CRC argument (<= 3 bits, bursts <= 32 bits per protected region) is checked exhaustively by TLC for 1-3 bits on regions of 28/132(/300) bytes and relies on the standard burst theorem for bursts",
                       "statistics of altered files are not dumped (samples, lengths, definitions, annotations, UTC, user data are)"]
    return ck.finish()
