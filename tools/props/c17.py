"""C17 - copy preserves everything the reader can see.

MC : JlsApiGen.tla (the abstract content both files are judged against).
TV : generated files (several signals/types, offsets, gaps, annotations/UTC/user data
     interleaved, structured streams for statistics, payloads > 1 MiB) are copied with the real
     jls_copy; the destination is (a) decoded from its bytes and must be a well-formed closed
     file that decodes to the submitted content (JlsFormat), and (b) read through the API
     with the same request list as the source: definitions, lengths, windows, statistics,
     annotations, UTC, user data are judged against the same abstract content (JlsApi).
     Unclosed originals: the bytes on disk before jls_wr_close are snapshotted, copied, and
     source (as repaired by the reader) and copy are compared request by request (DumpCmp)."""
import copy
import random

import apicheck
import common as C
import progs
from props import c05  # registers the format reasons


def extra_classify(prog, ev, ctx):
    """copy-of-omitted-blocks (known finding C17-K1): the rejected request was made on the copy and touches samples of
    the signal for which the SOURCE file (decoded from its bytes before the copy) holds no DATA chunk, i.e. blocks that
    exist there only as summaries.  Anything else rejected on a copy stays unclassified and is a violation."""
    import json
    sig = ev.get("sig")
    s = (prog.get("model") or {}).get("sigs", {}).get(str(sig))
    if s is None or ev.get("e") not in ("RdFsr", "RdStats", "RdLength"):
        return []
    after_copy = False
    cov = []
    for ln in ctx:
        if ln.startswith('{"e":"Copy"'):
            after_copy = True
        elif ln.startswith('{"e":"Chunk","file":"a"'):
            d = json.loads(ln)
            if d["tt"] == 0 and d["ck"] == 2 and d["sig"] == sig and d["ok"]:
                cov.append((d["ts"] - s.get("first", 0), d["ts"] - s.get("first", 0) + d["cnt"]))
    if not after_copy:
        return []
    L = s.get("length", 0)
    if ev["e"] == "RdFsr":
        lo, hi = ev["start"], ev["start"] + ev["n"]
    elif ev["e"] == "RdStats":
        lo, hi = ev["start"], ev["start"] + ev["incr"] * ev["cnt"]
    else:
        lo, hi = 0, L
    lo, hi = max(lo, 0), min(hi, L)
    pos = lo
    for a, b in sorted(cov):
        if a > pos:
            break
        pos = max(pos, b)
    return ["copy-of-omitted-blocks"] if pos < hi else []


def run(tier):
    ck = C.Check("C17")
    rng = random.Random(C.seed() * 7919 + 17)
    thorough = tier == "thorough"
    C.build("so")
    r = C.tlc("JlsApiGen", "JlsApiGen_mc.cfg", timeout=1200, heap="8g")
    if not ck.add_mc("JlsApiGen (abstract content shared by source and copy)", r):
        ck.violation({"where": "model", "config": "JlsApiGen_mc", "invariant": r.violated})
    P = []
    n = 5000 if thorough else 110
    for i in range(n):
        big = (i % 37 == 5)
        omit = (i % 6 == 0)
        types = progs.ALL_TYPES if (i % 5 == 0) else [t for t in progs.ALL_TYPES if progs.WIDTH[t] > 8]
        p, model = progs.gen_writer_program(rng, i + 1, kind="c17", types=types, gaps=(i % 3 == 0), overlaps=(i % 7 == 0), omit=omit,
                                            maxlen=12000 if thorough else 4000, omit_p=0.2 if omit else 0,
                                            gens=[["ramp", 7], ["bit", 5], ["rnd"], ["rnd"]] if i % 2 else None)
        if omit:
            # omission off before close: keeps known finding C01-K1 (omitted final partial block) out of the way
            p["ops"][-1:-1] = [{"op": "omit", "sig": int(g), "en": 0} for g in model["sigs"] if model["sigs"][g]["defined"]]
        if big:
            p["ops"].insert(-1, {"op": "userdata", "meta": 9, "stype": 1, "data": ["rep", 1500000, i]})
            p["ops"].insert(-1, {"op": "anno", "sig": 0, "ts": 10 ** 6, "stype": 1, "data": ["rep", 1200000, i]})
        if i % 37 == 9 or i == 3:
            # payloads at the edge of the copy buffer's size (1 MiB, then its doublings)
            for k_, sz in enumerate(rng.sample([(1 << 20) - 4, (1 << 20) - 3, (1 << 20) - 1, 1 << 20, (1 << 20) + 1, (1 << 21) - 2, 1 << 21], 4)):
                p["ops"].insert(-1, {"op": "userdata", "meta": 20 + k_, "stype": 1, "data": ["rep", sz, i * 10 + k_]})
        rd = progs.reader_ops(rng, model, nreads=10, with_defs=True)
        # statistics on structured streams
        for g, s in model["sigs"].items():
            if s["defined"] and s.get("length", 0) > 400 and s["gen"][0] in ("ramp", "bit") and progs.WIDTH[s["dt"]] not in (24, 64):
                L = s["length"]
                for _ in range(3):
                    incr = max(1, min(L, rng.choice([1, 7, s["norm"][1], s["norm"][1] * 3, L // 4])))
                    cnt = max(1, min(rng.choice([1, 2, 5]), L // max(1, incr)))
                    st = rng.randint(0, L - incr * cnt)
                    rd.insert(-1, {"op": "stats", "sig": int(g), "start": st, "incr": incr, "cnt": cnt})
        rd_b = copy.deepcopy(rd)
        rd_b[0]["file"] = "b"
        p["ops"] += rd + [{"op": "liftfile", "file": "a"}, {"op": "copy", "src": "a", "dst": "b"}, {"op": "liftfile", "file": "b"}] + rd_b
        p["model"] = progs.model_json(model)
        P.append(p)
    # files without any FSR signal
    for nanno in [0, 5, 140] + ([rng.randint(1, 260) for _ in range(25)] if thorough else []):
        q, model = progs.nofsr_writer_program(rng, len(P) + 1, "c17-nofsr", nanno)
        rd = progs.reader_ops(rng, model, nreads=0, with_defs=True)
        rd.insert(-1, {"op": "annos", "sig": 0, "t": model["anno_ts"] // 2})
        rd_b = copy.deepcopy(rd)
        rd_b[0]["file"] = "b"
        q["ops"] += rd + [{"op": "liftfile", "file": "a"}, {"op": "copy", "src": "a", "dst": "b"}, {"op": "liftfile", "file": "b"}] + rd_b
        q["model"] = {"sigs": {}}
        P.append(q)
    # histories from the shape graph (spec/JlsShapes.tla)
    import shapes
    for q, model in shapes.programs(ck, rng, "c17-shape", thorough, 12000 if thorough else 500, x0=len(P)):
        rd = shapes.reader_ops(rng, model, nreads=4)
        rd_b = copy.deepcopy(rd)
        rd_b[0]["file"] = "b"
        q["ops"] += [{"op": "liftfile", "file": "a"}, {"op": "copy", "src": "a", "dst": "b"}, {"op": "liftfile", "file": "b"}] + rd + rd_b
        q["model"] = progs.model_json(model)
        P.append(q)
    # UTC tracks with more entries than one summary chunk holds (upper UTC levels exist in the source)
    for cnt, udf in [(25, 10), (101, 10), (130, 0)] + ([(1001, 10), (2500, 15)] if thorough else []):
        q = progs.utc_program(rng, len(P) + 1, cnt, udf, 16777216, nq=8)
        k = next(i for i, o in enumerate(q["ops"]) if o["op"] == "wclose")
        rd = q["ops"][k + 1:]
        rd_b = copy.deepcopy(rd)
        rd_b[0]["file"] = "b"
        q["ops"] = q["ops"][:k + 1] + [{"op": "liftfile", "file": "a"}, {"op": "copy", "src": "a", "dst": "b"}, {"op": "liftfile", "file": "b"}] + rd + rd_b
        q["kind"] = "c17-utc"
        P.append(q)
    # deterministic probe of known finding C17-K1 (copy of a file that has omitted blocks)
    probe = [{"op": "wopen"}, {"op": "source", "id": 1, "name": ["lit", "s"]},
             {"op": "signal", "id": 1, "src": 1, "dt": "f32", "rate": 1000, "spd": 160, "sdf": 16, "eps": 10, "sumdf": 10, "name": ["lit", "x"], "units": ["lit", "u"]},
             {"op": "fsr", "sig": 1, "id": 0, "n": 320, "gen": ["ramp", 7]}, {"op": "omit", "sig": 1, "en": 1},
             {"op": "fsr", "sig": 1, "id": 320, "n": 960, "gen": ["ramp", 7]}, {"op": "omit", "sig": 1, "en": 0},
             {"op": "fsr", "sig": 1, "id": 1280, "n": 500, "gen": ["ramp", 7]}, {"op": "wclose"}, {"op": "liftfile", "file": "a"}, {"op": "copy", "src": "a", "dst": "b"},
             {"op": "ropen", "file": "b"}, {"op": "len", "sig": 1}, {"op": "rd", "sig": 1, "start": 600, "n": 8},
             {"op": "stats", "sig": 1, "start": 480, "incr": 160, "cnt": 3}, {"op": "rclose"}]
    P.append({"x": len(P) + 1, "kind": "c17-probe", "feat": ["omit", "type-f32"], "ops": probe,
              "model": {"sigs": {"1": {"dt": "f32", "bits": 32, "norm": [160, 16, 10, 10], "length": 1780, "first": 0}}}})
    trace, v, other = apicheck.run_api(ck, P, "c17", {"C17", "C01", "C02", "C05", "C11", "C12", "C13"}, extra_classify=extra_classify,
                                       trace_module="JlsFormatTrace")
    ncopy = sum(1 for l in open(trace) if l.startswith('{"e":"Copy"') and '"rc":0' in l)
    ck.cov["distinct_nontrivial"] = ncopy
    ck.cov["rule"] = "one case per jls_copy of a generated file; non-trivial = the copy succeeded and its destination was decoded and read back with the source's request list"
    ck.cov["samples"] = [l.strip()[:200] for l in open(trace) if l.startswith('{"e":"Copy"')][:2]
    ck.assumptions += ["source and copy are judged against the same abstract content (JlsApi state built from the calls that wrote the source)"]
    return ck.finish()
