"""C02 - summaries and statistics describe exactly the samples that were written.

MC : StatsMC.tla - the closed forms that serve as the oracle (window sum, sum of squares,
     min, max of ramp and bit-pattern streams) equal their definitions for all small
     periods/windows; the exact statistics of a window are accepted, those of a shifted
     window rejected.
TV : structured streams (ramps i mod M, 0/1 patterns) of every summarisable type, with
     geometries that give 1..5 summary levels, are written by the real library; requests
     (start, increment, count) aimed at every level, unaligned to entries/blocks/summary
     chunks, ending at the last sample; each returned {mean,std,min,max} is projected to
     integers and judged by TLC in exact integer arithmetic (JlsApi!RdStatsVerdict)."""
import random

import apicheck
import common as C
import progs


def run(tier):
    ck = C.Check("C02")
    rng = random.Random(C.seed() * 7919 + 2)
    thorough = tier == "thorough"
    C.build("so")
    r = C.tlc("StatsMC", "StatsMC.cfg", timeout=1200)
    if not ck.add_mc("StatsMC (closed-form oracle vs. definitions, M<=7, windows in 0..30)", r):
        ck.violation({"where": "model", "config": "StatsMC", "invariant": r.violated})
    P = []
    x = 1
    reps = 12 if thorough else 2
    for rep in range(reps):
        for dt in progs.STAT_TYPES:
            for total in ([300, 5000, 60000] + ([450000] if dt in ("f32", "i32", "u32", "i64", "f64", "u16") else [])
                          + ([2100000] if thorough and dt in ("f32", "u32", "f64") else [])):
                P.append(progs.stats_program(rng, x, dt, total + rng.choice([0, 1, 7, 123]), nreq=60 if thorough else 36,
                                             first=rng.choice([0, 0, 5, 1000])))
                x += 1
    # small ramps on a large offset, for the types whose summaries are 64-bit
    for dt in ("i32", "u32", "i64", "u64", "f64"):
        for total in [5000, 60000] + ([200000] if thorough else []):
            P.append(progs.stats_program(rng, x, dt, total + rng.choice([0, 1, 7]), nreq=60 if thorough else 30,
                                         first=rng.choice([0, 5]), offset=1500000000))
            x += 1
    # default geometry (the one test_fsr_f32_statistics uses) for a few types
    for dt in ("f32", "u8", "i16"):
        P.append(progs.stats_program(rng, x, dt, 700000 if dt == "f32" else 300000, geometry=(0, 0, 0, 0), nreq=30))
        x += 1
    # the stored summary entries themselves, lifted from the bytes of each file (levels whose entries span <= 4096 samples)
    for p_ in P:
        p_["ops"].append({"op": "sumvals", "file": "a"})
    trace, v, other = apicheck.run_api(ck, P, "c02", {"C02"}, per_program_timeout=120)
    nreq = sum(1 for l in open(trace) if l.startswith('{"e":"RdStats"'))
    ck.cov["distinct_nontrivial"] = sum(1 for l in open(trace) if l.startswith('{"e":"RdStats"') and '"rc":0' in l)
    ck.cov["requests"] = nreq
    ck.cov["summary_chunks_judged"] = sum(1 for l in open(trace) if l.startswith('{"e":"SumEntries"'))
    ck.cov["rule"] = "one case per jls_rd_fsr_statistics request; non-trivial = the request succeeded and its entries were judged against the closed-form window statistics"
    ck.cov["samples"] = [l.strip()[:300] for l in open(trace) if l.startswith('{"e":"RdStats"')][:2]
    ck.assumptions += ["truth has a closed form only for the structured streams used (ramps, 0/1 patterns); floating-point rounding on arbitrary values is not decided (DESIGN section 7)",
                       "std clause evaluated where n*n*M*M*d <= 2*10^7 (32-bit TLC integers); min/max/mean clauses for every request"]
    return ck.finish()
