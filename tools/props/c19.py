"""C19 - repair converges and a good file is never modified by reading.

MC : JlsLinks.tla (as C03: a closed file's lists/heads are well-formed).
TV : (a) every properly closed file of the corpus is opened, read (windows, statistics-free
     dump, definitions, annotations, UTC, user data) and must be byte-identical afterwards with
     no backend write at all; (b) every crash image of the C03 corpus that opens is opened a
     second and a third time: no write, no change, identical observations, and if the first open
     repaired it the result is a well-formed closed file (JlsCrash.tla, re-open clauses)."""
import random

import common as C
import crashcheck


def run(tier):
    ck = C.Check("C19")
    rng = random.Random(C.seed() * 7919 + 19)
    thorough = tier == "thorough"
    C.build("so")
    r = C.tlc("JlsLinks", "JlsLinks_mc.cfg", timeout=1200)
    if not ck.add_mc("JlsLinks per-write steps MaxChunks=6", r):
        ck.violation({"where": "model", "config": "JlsLinks_mc", "invariant": r.violated})
    crashcheck.ts_repair_model(ck, thorough)
    P = crashcheck.crash_programs(rng, 120 if thorough else 30, thorough, "c19", ck=ck)
    trace, v, nobs = crashcheck.run_crash(ck, P, "c19", {"C19"})
    crashcheck.repair_conformance(ck, trace, "C19")
    crashcheck.ts_repair_conformance(ck, trace, "C19")
    ck.cov["distinct_nontrivial"] = sum(1 for l in open(trace) if l.startswith('{"e":"CrashObs"') and '"rc":0' in l)
    ck.cov["closed_files_read"] = sum(1 for l in open(trace) if l.startswith('{"e":"Unchanged"'))
    ck.cov["rule"] = "one case per crash image that opened (then reopened twice) and per closed file read; non-trivial = images that opened"
    ck.cov["samples"] = [l.strip()[:200] for l in open(trace) if l.startswith('{"e":"Unchanged"')][:2]
    ck.assumptions += ["'same content' = identical projections of lengths, all samples, annotations, UTC, user data over two further opens"]
    return ck.finish()
