"""C10 - API misuse yields error codes, never crashes, hangs or stray memory access.

MC : MisuseGen.tla - the finite graph of API sessions (abstract state: open handle, defined sources/signals,
     samples written, content of the closed file) over a call alphabet with invalid ids (0, undefined, 256,
     65535), wrong types, duplicate definitions, out-of-range / negative / huge windows and lengths, bad enum
     values, extreme definition parameters, missing / garbage / empty / truncated files.
RP : every (state, call) pair of that graph is executed on the library built with ASan + UBSan
     (harness/misuse_drv.c: every caller buffer is a heap block of exactly the documented size; library
     allocations counted through link-time wraps).  Calls whose outcome the contract leaves open are followed
     adaptively (the observed outcome selects the edge).
TV : those sessions plus random sessions with arbitrary ids / windows / lengths are judged by MisuseTrace.tla:
     an invalid call must return an error; no crash, hang, sanitizer report; close releases every block."""
import concurrent.futures
import json
import os
import random
import re
import subprocess
from collections import defaultdict, deque

import common as C

_EDGE = re.compile(r'^(-?\d+) -> (-?\d+) \[label="Do\(<<(.*)>>\)"')
_INIT = re.compile(r'^(-?\d+) \[label=.*style = filled\]')


def parse_graph(dot):
    """nodes, init, out[u][call line] = set of targets"""
    out = defaultdict(lambda: defaultdict(set))
    init = None
    with open(dot) as f:
        for line in f:
            m = _EDGE.match(line)
            if m:
                call = " ".join(t.strip().strip('\\"') for t in m.group(3).split(","))
                out[m.group(1)][call].add(m.group(2))
                continue
            if init is None:
                m = _INIT.match(line)
                if m:
                    init = m.group(1)
    if init is None:
        raise C.ToolFailure("no initial state in the MisuseGen graph")
    return init, out


def target(out, learned, u, call, rc=None):
    """Successor of (u, call): by the observed return code if given, else learned, else assumed."""
    tg = out[u].get(call)
    if not tg:
        return u
    if len(tg) == 1:
        return next(iter(tg))
    other = next(t for t in tg if t != u)
    if rc is not None:
        return other if rc == 0 else u
    return learned.get((u, call), other)      # not yet observed: plan for the call to succeed


def plan(init, out, learned, uncovered, max_scripts, max_len=400):
    """Sessions that take uncovered (state, call) pairs, moving through the graph along assumed / learned edges."""
    # assumed deterministic successor graph for navigation
    def succ(u, c):
        return target(out, learned, u, c)
    scripts = []
    todo = set(uncovered)
    by_state = defaultdict(set)
    for (u, c) in todo:
        by_state[u].add(c)
    while todo and len(scripts) < max_scripts:
        # shortest assumed path from init to a state that still has uncovered calls
        parent = {init: None}
        dq = deque([init])
        goal = None
        while dq:
            u = dq.popleft()
            if by_state.get(u):
                goal = u
                break
            for c in out[u]:
                v = succ(u, c)
                if v not in parent:
                    parent[v] = (u, c)
                    dq.append(v)
        if goal is None:
            break
        calls = []
        x = goal
        while parent[x] is not None:
            calls.append(parent[x][1])
            x = parent[x][0]
        calls.reverse()
        u = goal
        while len(calls) < max_len:
            mine = by_state.get(u)
            if not mine:
                # move on to a neighbouring state with work, if one is a single step away
                nxt = None
                for c in out[u]:
                    v = succ(u, c)
                    if v != u and by_state.get(v):
                        nxt = (c, v)
                        break
                if nxt is None:
                    break
                calls.append(nxt[0])
                u = nxt[1]
                continue
            # calls that (are assumed to) stay here first, then one that leaves
            stay = [c for c in mine if succ(u, c) == u]
            if stay:
                c = stay[0]
            else:
                c = next(iter(mine))
            mine.discard(c)
            todo.discard((u, c))
            calls.append(c)
            u = succ(u, c)
        scripts.append(calls)
    return scripts


def run_session(exe, d, idx, calls, timeout=40):
    sf = os.path.join(d, "s%d.txt" % idx)
    tf = os.path.join(d, "s%d.ndjson" % idx)
    wd = os.path.join(d, "w%d" % idx)
    os.makedirs(wd, exist_ok=True)
    open(sf, "w").write("\n".join(calls) + "\n")
    env = dict(os.environ)
    env["ASAN_OPTIONS"] = "detect_leaks=0:abort_on_error=0:exitcode=23:allocator_may_return_null=1:max_allocation_size_mb=2048"
    env["UBSAN_OPTIONS"] = "halt_on_error=1:exitcode=24:print_stacktrace=1"
    abnormal = None
    try:
        p = subprocess.run([exe, sf, tf, wd], env=env, timeout=timeout, stdout=subprocess.DEVNULL, stderr=subprocess.PIPE)
        if p.returncode != 0:
            err = p.stderr.decode("utf-8", "replace")
            m = re.search(r"(ERROR: AddressSanitizer: [^\n]*|runtime error: [^\n]*|SUMMARY: [^\n]*)", err)
            frames = re.findall(r"#\d+ 0x[0-9a-f]+ in (\w+) /repo/src/(\w+\.c):(\d+)", err)
            where = "%s (%s:%s)" % frames[0] if frames else ""
            kind = "exit %d" % p.returncode
            if m:
                kind = re.sub(r"0x[0-9a-f]+", "ADDR", m.group(1))[:160]
            abnormal = {"kind": kind, "where": where, "stderr": err[-3000:]}
    except subprocess.TimeoutExpired:
        abnormal = {"kind": "hang (wall-clock timeout %ss)" % timeout, "where": "", "stderr": ""}
    lines = []
    if os.path.exists(tf):
        lines = [l for l in open(tf).read().split("\n") if l]
        if lines and not lines[-1].endswith("}"):
            lines.pop()
    import shutil
    shutil.rmtree(wd, ignore_errors=True)
    for fn in (sf, tf):
        try:
            os.remove(fn)
        except OSError:
            pass
    if abnormal:
        # the call that did not return is the next one of the script
        done = sum(1 for l in lines if l.startswith('{"e":"Call"'))
        lines = [l for l in lines if not l.startswith('{"e":"End"')]
        lines.append(json.dumps({"e": "Abnormal", "kind": abnormal["kind"], "where": abnormal["where"],
                                 "call": calls[done] if done < len(calls) else "(end of session)"}))
    return idx, lines, abnormal


def run_sessions(exe, d, scripts, base=0, max_hangs=40):
    """Runs the sessions in batches; once more than max_hangs sessions hit the watchdog the rest is not run
    (each costs a watchdog period) and is returned as empty."""
    res = [([], None)] * len(scripts)
    hangs = 0
    batch = 4 * C.NCPU
    with concurrent.futures.ThreadPoolExecutor(max_workers=C.NCPU) as ex:
        for b0 in range(0, len(scripts), batch):
            part = list(enumerate(scripts))[b0:b0 + batch]
            for idx, lines, ab in ex.map(lambda a: run_session(exe, d, base + a[0], a[1]), part):
                res[idx - base] = (lines, ab)
                if ab and ab["kind"].startswith("hang"):
                    hangs += 1
            if hangs > max_hangs:
                break
    return res


IDS = [0, 1, 2, 3, 4, 5, 100, 200, 254, 255, 256, 257, 1000, 4095, 4096, 32767, 32768, 65534, 65535]
BIG = [0, 1, 2, 7, 8, 9, 99, 100, 101, 199, 200, 201, 1000, 65535, 65536, 1000000, 2147483647, -1, -2, -100, -2147483647]
HUGE = [1 << 62, (1 << 63) - 1, (1 << 63) - 2, (1 << 32), (1 << 32) + 1, -(1 << 62), -(1 << 63) + 1]
DTS = [8196, 259, 2051, 1027, 4099, 8195, 16388, 1025, 2049, 4097, 8193, 16385, 16387, 0, 1, 77, 65535, 8197, 2147483647]


def random_session(rng):
    """A session with arbitrary ids, windows, lengths, enum values and definition parameters."""
    calls = []
    p = rng.choice(["w", "w", "t"])
    calls.append(p + "open")
    for _ in range(rng.randint(0, 3)):
        calls.append("%ssrc %d" % (p, rng.choice([1, 1, 2, 255] + IDS)))
    defined = []
    for _ in range(rng.randint(1, 5)):
        g = rng.choice([1, 2, 3, 3] + IDS)
        typ = rng.choice([0, 0, 0, 1, 2, 255])
        dt = rng.choice(DTS[:7] if rng.random() < 0.7 else DTS)
        rate = rng.choice([1000, 1000, 1, 0, 2147483647]) if typ == 0 else rng.choice([0, 0, 1000])
        if rng.random() < 0.6:
            prm = [100, 10, 10, 10, 10, 10] if rng.random() < 0.7 else [0] * 6
        else:
            prm = [rng.choice([0, 1, 2, 3, 7, 10, 100, 1000, 65536, 1000000, 2147483647]) for _ in range(6)]
        calls.append("%ssig %d %d %d %d %d %s" % (p, g, rng.choice([0, 1, 1, 2, 9]), typ, dt, rate, " ".join(map(str, prm))))
        defined.append(g)
    nxt = defaultdict(int)
    for _ in range(rng.randint(2, 25)):
        r = rng.random()
        g = rng.choice(defined + defined + IDS)
        if r < 0.45:
            n = rng.choice([1, 8, 100, 100, 1000, 0, 3, 4000 if p == "w" else 300])
            # a sample id far beyond the next one is a valid request for a gap that long (gigabytes of fill): stay modest
            sid = nxt[g] if rng.random() < 0.8 else rng.choice([0, 1, 2, 7, 99, 100, 101, 1000, 65535, -1, -2, -100, nxt[g] + 1, nxt[g] + 100000])
            calls.append("%sfsr %d %d %d" % (p, g, sid, n))
            if sid == nxt[g]:
                nxt[g] += n
        elif r < 0.5:
            calls.append("%sfsrf32 %d %d %d" % (p, g, nxt[g], rng.choice([1, 10, 100])))
        elif r < 0.6:
            calls.append("%sanno %d %d %d %d %d %d" % (p, g, rng.choice(BIG), rng.choice([0, 1, 2, 3, 99, 255, 256, 65535]),
                                                      rng.choice([1, 1, 2, 3, 0, 4, 255, 256]), rng.choice([0, 1, 255]), rng.choice([0, 1, 5, 100, 5000])))
            # (the threaded writer's queue holds 256 KiB here: every message of these sessions fits, so that no call
            # has to wait out the 5 s send timeout)
        elif r < 0.7:
            calls.append("%sutc %d %d %d" % (p, g, rng.choice(BIG), rng.choice(BIG)))
        elif r < 0.8:
            calls.append("%sud %d %d %d" % (p, rng.choice([0, 1, 4095, 4096, 65535]), rng.choice([0, 1, 2, 3, 4, 255]), rng.choice([0, 1, 10, 1000, 100000 if p == "w" else 30000])))
        elif r < 0.88:
            calls.append("%somit %d %d" % (p, g, rng.choice([0, 1, 2147483647])))
        else:
            calls.append(p + "flush")
    calls.append(p + "close")
    calls.append("ropen %d" % rng.choice([0, 0, 0, 0, 5, 1, 2, 3, 4]))
    for _ in range(rng.randint(3, 30)):
        r = rng.random()
        g = rng.choice(defined + defined + IDS)
        L = nxt.get(g, 0)
        if L > 0 and rng.random() < 0.35:
            # windows that end exactly at the end of the signal, or one sample past it
            over = rng.choice([0, 1, 1])
            if rng.random() < 0.5:
                n = rng.choice([1, 2, 3, L])
                n = max(1, min(n, L))
                calls.append("rfsr %d %d %d" % (g, L - n + over, n))
            else:
                cnt = rng.choice([1, 1, 2, 4])
                incr = max(1, rng.choice([1, 7, L // cnt, (L + cnt - 1) // cnt]))
                calls.append("rstats %d %d %d %d" % (g, L + over - incr * cnt, incr, cnt))
            continue
        if r < 0.3:
            calls.append("rfsr %d %d %d" % (g, rng.choice(BIG), rng.choice(BIG)))
        elif r < 0.35:
            calls.append("rfsrf32 %d %d %d" % (g, rng.choice(BIG), rng.choice(BIG)))
        elif r < 0.55:
            calls.append("rstats %d %d %d %d" % (g, rng.choice(BIG), rng.choice(BIG), rng.choice([0, 1, 2, 3, 10, 100, 1000, 100000, -1, 2147483647])))
        elif r < 0.62:
            calls.append("rlen %d" % g)
        elif r < 0.7:
            calls.append("rsignal %d" % g)
        elif r < 0.78:
            calls.append("rannos %d %d" % (g, rng.choice(BIG)))
        elif r < 0.86:
            calls.append("rutc %d %d" % (g, rng.choice(BIG)))
        elif r < 0.92:
            calls.append("%s %d %d" % (rng.choice(["ri2t", "rt2i"]), g, rng.choice(BIG)))
        else:
            calls.append(rng.choice(["rsources", "rsignals", "rud"]))
    calls.append("rclose")
    if rng.random() < 0.4:
        calls.append("copy %d" % rng.choice([0, 0, 5, 1, 2, 3, 4]))
    return calls


def directed_sessions():
    """Definitions with very large blocks (a data chunk of up to 8 MB, larger than the reader's initial 1 MiB buffer)
    holding only a partial block, read back sample-wise and through level-0 statistics (found by a random session:
    jls_core_fsr_statistics converted samples_per_data entries of a chunk that held 808)."""
    out = []
    # 64-bit windows: start + length and increment * count must not wrap inside the range checks
    for dt in (8195, 2049, 8196):
        calls = ["wopen", "wsrc 1", "wsig 3 1 0 %d 1000 100 10 10 10 10 10" % dt, "wfsr 3 0 5000", "wclose", "wopenbad", "topenbad", "copybad 0",
                 "ropen 0"]
        for h in HUGE:
            calls += ["rstats 3 0 %d 4" % h, "rstats 3 %d 1 4" % h, "rstats 3 0 %d 1" % h, "rstats 3 1 2 %d" % h,
                      "rfsr 3 %d 8" % h, "rfsr 3 8 %d" % h, "rutc 3 %d" % h, "rannos 3 %d" % h, "ri2t 3 %d" % h, "rt2i 3 %d" % h]
        calls += ["rclose", "copy 0"]
        out.append(calls)
    for p in ("w", "t"):
        for dt in DTS[:13]:
            for spd, n in ((1000000, 808), (300000, 1), (2147483647, 300)):
                out.append([p + "open", p + "src 1", "%ssig 3 1 0 %d 1000 %d 7 65536 7 2 1000000" % (p, dt, spd),
                            "%sfsr 3 0 %d" % (p, n), p + "close", "ropen 0", "rlen 3", "rstats 3 %d 8 3" % max(0, n // 8 - 3) ,
                            "rstats 3 0 1 1", "rstats 3 0 %d 1" % n, "rfsr 3 0 %d" % n, "rfsrf32 3 0 %d" % n, "rclose", "copy 0"])
    return out


RAW_PRELUDE = ["wopen", "wsrc 1", "wsig 3 1 0 8196 1000 100 10 10 10 10 10", "wfsr 3 0 300", "wud 5 1 100", "wanno 0 10 0 1 0 5",
               "wanno 3 20 0 2 0 7", "wutc 3 100 1000", "wfsr 3 300 2500", "wclose"]


def random_raw_session(rng):
    """raw calls with arbitrary tags, lengths and offsets, on every kind of file and in every mode"""
    calls = []
    for _ in range(rng.randint(1, 3)):
        calls.append("xopen %d %d" % (rng.choice([0, 0, 0, 6, 6, 5, 2, 3, 4, 1]), rng.choice([0, 0, 1, 2, 2, 3])))
        for _ in range(rng.randint(3, 40)):
            r = rng.random()
            if r < 0.2:
                calls.append("xrd %d" % rng.choice([0, 1, 7, 8, 64, 200, 4096, 100000]))
            elif r < 0.3:
                calls.append(rng.choice(["xrdhdr", "xrdpay %d" % rng.choice([0, 8, 64, 100000])]))
            elif r < 0.45:
                calls.append("xwr %d %d %d" % (rng.choice([0, 1, 2, 32, 34, 35, 36, 64, 255, 200]), rng.choice([0, 3, 4095, 65535]), rng.choice([0, 1, 4, 5, 9, 252, 256, 257, 5000, 70000])))
            elif r < 0.52:
                n = rng.choice([0, 1, 9, 300, 70000])
                calls.append("xwrhdr %d %d %d" % (rng.choice([64, 255, 34]), rng.choice([0, 3]), n))
                calls.append("xwrpay %d" % (n if rng.random() < 0.7 else rng.choice([0, 1, 9, 300, 70000])))
            elif r < 0.65:
                calls.append("xseek %d" % rng.choice([0, 1, 8, 31, 32, 33, 40, 64, 200, 208, 1000, 100000, 2147483647, -1, -8, -3, -3]))
            else:
                calls.append(rng.choice(["xend", "xtell", "xscan", "xflush", "xnext", "xnext", "xprev", "xinext", "xiprev", "xver", "xbk"]))
        calls.append("xclose")
    calls.append("xtag %d" % rng.randint(0, 255))
    calls.append("xdt %d" % rng.choice([0, 259, 8196, 65535, 2147483647]))
    return RAW_PRELUDE + calls


def raw_directed_sessions():
    """every small payload length read back with every buffer size around it (payload only, payload + CRC, the padded
    size on disk): the size check of jls_raw_rd_payload at its alignment boundaries"""
    out = []
    for plen in list(range(1, 26)) + [252, 253, 255, 256, 257, 260]:
        calls = ["xopen 6 1", "xwr 64 0 %d" % plen, "xwr 64 1 3", "xclose", "xopen 6 0"]
        for m in range(max(0, plen - 1), plen + 14):
            calls += ["xseek 32", "xrd %d" % m, "xseek 32", "xrdhdr", "xrdpay %d" % m]
        calls.append("xclose")
        out.append(RAW_PRELUDE + calls)
    return out


def raw_part(ck, exe, sc, rng, thorough):
    """The raw chunk API (C10 names it): graph of RawGen.tla, every (state, call) pair executed, plus random sessions;
    judged by RawTrace.tla.  Returns the number of violations reported."""
    dot = os.path.join(sc, "rawgen")
    r = C.tlc("RawGen", "RawGen.cfg", workers=1, timeout=600, heap="4g", args=["-fp", "0", "-dump", "dot,actionlabels", dot])
    if not ck.add_mc("RawGen (all raw-API sessions over the call alphabet)", r):
        raise C.ToolFailure("Raw.tla is inconsistent: %s" % r.violated)
    init, out = parse_graph(dot + ".dot")
    os.remove(dot + ".dot")
    pairs = {(u, c) for u in out for c in out[u]}
    uncovered = set(pairs)
    learned = {}
    sessions = []
    base = 500000
    rounds = 0
    while uncovered and rounds < 6:
        rounds += 1
        scripts = plan(init, out, learned, uncovered, max_scripts=3000, max_len=120)
        if not scripts:
            break
        res = run_sessions(exe, sc, [RAW_PRELUDE + s_ for s_ in scripts], base)
        base += len(scripts)
        before = len(uncovered)
        for calls, (lines, ab) in zip(scripts, res):
            sessions.append((RAW_PRELUDE + calls, lines, ab))
            u = init
            k = 0
            for ln in lines:
                if not ln.startswith('{"e":"Call"'):
                    continue
                ev = json.loads(ln)
                if not ev["op"].startswith("x"):
                    continue
                c = calls[k] if k < len(calls) else None
                while c is not None and c.split()[0] != ev["op"]:
                    k += 1
                    c = calls[k] if k < len(calls) else None
                if c is None:
                    break
                k += 1
                if c not in out[u]:
                    break
                uncovered.discard((u, c))
                ok = (ev["out"][1] == 1) if ev["op"] == "xopen" else True
                v = target(out, learned, u, c, rc=0 if ok else 1)
                if len(out[u][c]) > 1:
                    learned[(u, c)] = v
                u = v
        ck.log("raw API round %d: %d sessions, %d pairs newly covered, %d left" % (rounds, len(scripts), before - len(uncovered), len(uncovered)))
        if before == len(uncovered):
            break
    nrand = 6000 if thorough else 250
    rscripts = raw_directed_sessions() + [random_raw_session(rng) for _ in range(nrand)]
    res = run_sessions(exe, sc, rscripts, base)
    for calls, (lines, ab) in zip(rscripts, res):
        sessions.append((calls, lines, ab))
    trace = os.path.join(sc, "raw.ndjson")
    ncalls = 0
    with open(trace, "w") as f:
        for x, (calls, lines, ab) in enumerate(sessions, 1):
            f.write('{"e":"Reset","x":%d}\n' % x)
            for ln in lines:
                f.write(ln + "\n")
                ncalls += ln.startswith('{"e":"Call","i":') and '"op":"x' in ln[:40]
    v = C.validate_trace_parallel("RawTrace", "RawTrace.cfg", trace, parts=8, timeout=1800)
    ck.log("raw API: %d sessions, %d raw calls judged by RawTrace: %d rejection(s); %d of %d (state, call) pairs executed"
           % (len(sessions), ncalls, len(v.rejections), len(pairs) - len(uncovered), len(pairs)))
    lines_all = open(trace).read().split("\n") if v.rejections else None
    for (x, line, why) in v.rejections:
        ev = json.loads(lines_all[line - 1])
        calls, lines, ab = sessions[x - 1]
        rp = os.path.join(sc, "raw_x%d.script.txt" % x)
        open(rp, "w").write("\n".join(calls) + "\n")
        files = [rp]
        if ab and ab.get("stderr"):
            re_ = os.path.join(sc, "raw_x%d.stderr.txt" % x)
            open(re_, "w").write(ab["stderr"])
            files.append(re_)
        ck.violation({"where": "implementation", "api": "raw", "session": x, "reason": why, "op": ev.get("op", ev.get("call", "").split(" ")[0] if ev.get("call") else ""),
                      "kind": ev.get("kind", ""), "at": ev.get("where", ""),
                      "call": ev.get("call", " ".join([ev.get("op", "")] + [str(a) for a in ev.get("a", [])]))}, files)
    ck.cov["raw_state_call_pairs"] = len(pairs)
    ck.cov["raw_state_call_pairs_executed"] = len(pairs) - len(uncovered)
    ck.cov["raw_random_sessions"] = nrand
    ck.cov["evaluations"] = ck.cov.get("evaluations", 0) + ncalls
    ck.cov["traces_validated_against_impl"] = ck.cov.get("traces_validated_against_impl", 0) + len(sessions) - len({r_[0] for r_ in v.rejections})


def run(tier):
    ck = C.Check("C10")
    rng = random.Random(C.seed() * 7919 + 10)
    sc = C.scratch()
    thorough = tier == "thorough"
    exe = os.path.join(sc, "misuse_drv")
    rc, o = C.run([os.path.join(C.HARNESS, "build_misuse.sh"), exe], timeout=900, check=False)
    if rc != 0:
        raise C.ToolFailure("misuse driver build failed:\n%s" % o[-3000:])

    # 1. the session graph
    dot = os.path.join(sc, "misuse")
    r = C.tlc("MisuseGen", "MisuseGen.cfg", workers=1, timeout=1500, heap="8g", args=["-fp", "0", "-dump", "dot,actionlabels", dot])
    if not ck.add_mc("MisuseGen (all sessions over the call alphabet)", r):
        raise C.ToolFailure("MisuseGen.tla is inconsistent: %s" % r.violated)
    init, out = parse_graph(dot + ".dot")
    os.remove(dot + ".dot")
    pairs = {(u, c) for u in out for c in out[u]}
    ck.log("session graph: %d abstract states, %d (state, call) pairs" % (len(out), len(pairs)))

    # 2. cover the pairs adaptively
    uncovered = set(pairs)
    learned = {}
    sessions = []          # (calls, lines, abnormal)
    budget = len(pairs) if thorough else 15000
    rounds = 0
    base = 0
    nhang = 0
    while uncovered and rounds < (40 if thorough else 6):
        rounds += 1
        want = uncovered
        if not thorough and len(uncovered) > budget:
            want = set(rng.sample(sorted(uncovered), budget))
        scripts = plan(init, out, learned, want, max_scripts=4000)
        if not scripts:
            break
        res = run_sessions(exe, sc, [s for s in scripts], base)
        base += len(scripts)
        before = len(uncovered)
        for calls, (lines, ab) in zip(scripts, res):
            sessions.append((calls, lines, ab))
            u = init
            k = 0
            for ln in lines:
                if not ln.startswith('{"e":"Call"'):
                    continue
                ev = json.loads(ln)
                c = calls[k] if k < len(calls) else None
                # the driver skips calls that do not apply to the open handle: realign on the op name
                while c is not None and c.split()[0] != ev["op"]:
                    k += 1
                    c = calls[k] if k < len(calls) else None
                if c is None:
                    break
                k += 1
                if c in out[u]:
                    uncovered.discard((u, c))
                    v = target(out, learned, u, c, rc=ev["rc"])
                    if len(out[u][c]) > 1:
                        learned[(u, c)] = v
                    u = v
                else:
                    break
        ck.log("round %d: %d sessions, %d pairs newly covered, %d left" % (rounds, len(scripts), before - len(uncovered), len(uncovered)))
        nhang += sum(1 for (_l, ab) in res if ab and ab["kind"].startswith("hang"))
        if nhang > 40:
            # sessions that do not return each cost a watchdog period: enough evidence, stop exploring
            ck.log("%d sessions did not return within the watchdog period: exploration stopped early" % nhang)
            break
        if before == len(uncovered):
            break
    ncovered = len(pairs) - len(uncovered)

    # 3. random sessions with arbitrary values
    nrand = 15000 if thorough else 300
    if nhang > 40:
        nrand = 40
    rscripts = directed_sessions() + [random_session(rng) for _ in range(nrand)]
    res = run_sessions(exe, sc, rscripts, base)
    for calls, (lines, ab) in zip(rscripts, res):
        sessions.append((calls, lines, ab))

    # 4. judge everything
    trace = os.path.join(sc, "misuse.ndjson")
    ncalls = 0
    with open(trace, "w") as f:
        for x, (calls, lines, ab) in enumerate(sessions, 1):
            f.write('{"e":"Reset","x":%d}\n' % x)
            for ln in lines:
                f.write(ln + "\n")
                ncalls += 1
    v = C.validate_trace_parallel("MisuseTrace", "MisuseTrace.cfg", trace, parts=12, timeout=2400)
    ck.log("%d sessions, %d calls judged by MisuseTrace: %d rejection(s)" % (len(sessions), ncalls, len(v.rejections)))
    lines_all = open(trace).read().split("\n") if v.rejections else None
    notes = defaultdict(int)
    for (x, line, why) in v.rejections:
        ev = json.loads(lines_all[line - 1])
        if why.startswith("a valid call was refused"):
            notes[why] += 1          # speaks about the functional properties (C13 ...), not about C10
            continue
        calls, lines, ab = sessions[x - 1]
        rp = os.path.join(sc, "misuse_x%d.script.txt" % x)
        open(rp, "w").write("\n".join(calls) + "\n")
        rt = os.path.join(sc, "misuse_x%d.trace.ndjson" % x)
        open(rt, "w").write("\n".join(lines) + "\n")
        files = [rp, rt]
        if ab and ab.get("stderr"):
            re_ = os.path.join(sc, "misuse_x%d.stderr.txt" % x)
            open(re_, "w").write(ab["stderr"])
            files.append(re_)
        descr = {"where": "implementation", "session": x, "reason": why, "op": ev.get("op", ev.get("call", "").split(" ")[0] if ev.get("call") else ""),
                 "kind": ev.get("kind", ""), "at": ev.get("where", ""), "call": ev.get("call", " ".join([ev.get("op", "")] + [str(a) for a in ev.get("a", [])]))}
        ck.violation(descr, files)
    if v.rejections:
        from collections import Counter
        tab = Counter()
        for (x, line, why) in v.rejections:
            ev = json.loads(lines_all[line - 1])
            tab[(why, ev.get("call") or " ".join([ev.get("op", "")] + [str(a) for a in ev.get("a", [])]), ev.get("kind", "")[:60], ev.get("where", ""))] += 1
        for (why, call, kind, where), n in tab.most_common(40):
            ck.log("  %5d x %s | %s | %s %s" % (n, why[:60], call, kind, where))
    for why, n in sorted(notes.items()):
        ck.log("note: %d session(s): %s (a functional matter, not C10)" % (n, why))
    ck.cov["traces_validated_against_impl"] = len(sessions) - len({r[0] for r in v.rejections})
    ck.cov["evaluations"] = ncalls
    ck.cov["distinct_nontrivial"] = ncovered
    ck.cov["state_call_pairs"] = len(pairs)
    ck.cov["state_call_pairs_executed"] = ncovered
    ck.cov["random_sessions"] = len(rscripts)
    ck.cov["rule"] = ("one case = one (abstract session state, call) pair of the complete MisuseGen.tla graph; non-trivial = the call was "
                      "executed in that state on the ASan+UBSan build and its outcome judged by MisuseTrace; random sessions add arbitrary "
                      "ids / windows / lengths / enum values / definition parameters")
    ck.cov["exhaustive"] = not uncovered
    for calls, lines, ab in sessions[:1]:
        ck.cov["samples"] = [l[:200] for l in lines[:8]]
    ck.assumptions += [
        "caller buffers are separate heap blocks of exactly the documented size (ASan red zones on both sides); huge requested lengths "
        "are backed by a buffer for 10^6 samples at most (such a window is outside every file of the session and must be refused)",
        "handles are used only while open (valid pointers); NULL data pointers are not passed",
        "threaded-writer data calls are asynchronous: their return code is not judged for invalid ids, only crash / stray access / leak",
        "leak = library heap blocks (malloc/calloc/realloc/free of the library objects, counted by link-time wraps) not released by close",
    ]
    raw_part(ck, exe, sc, rng, thorough)
    return ck.finish()
