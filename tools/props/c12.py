"""C12 - UTC entries round-trip; id/time conversion is anchored, monotone, invertible.

MC : JlsTs.tla (UTC configuration: strictly increasing ids, seek to level 1, D = 2, 3):
     iterating from an id delivers exactly the pairs at or after it;
     TmapMC.tla: for all maps of <= 6 anchors and all queries, interp_i64's binary search
     (transcribed) picks the segment the contract prescribes and reads only inside the table.
TV : programs with 0, 1, 2, udf+-1, udf^2+-1, 999, 1000, 1001, 2500 entries, decimation
     10/15/100/default, offset ids, rates 2^20..2^30 and 10^9 Hz (single entry: also 1 kHz,
     48 kHz, 1 MHz), irregular spacing and
     drift; jls_rd_utc from ids before/at/between/after with stopped iteration;
     jls_rd_sample_id_to_timestamp / jls_rd_timestamp_to_sample_id inside, at anchors, before,
     after, and round trips; judged by JlsApiTrace.tla with Tmap.tla (integer arithmetic)."""
import os
import random

import apicheck
import common as C
import progs


def run(tier):
    ck = C.Check("C12")
    rng = random.Random(C.seed() * 7919 + 12)
    thorough = tier == "thorough"
    C.build("so")
    sc = C.scratch()
    for d in (2, 3):
        cfg = os.path.join(sc, "tsu_%d.cfg" % d)
        open(cfg, "w").write(open(os.path.join(C.SPEC, "JlsTs_utc.cfg")).read().replace("D = 2", "D = %d" % d))
        r = C.tlc("JlsTs", cfg, timeout=1200)
        if not ck.add_mc("JlsTs UTC D=%d (strictly increasing ids, <= 11 entries)" % d, r):
            ck.violation({"where": "model", "config": "JlsTs_utc D=%d" % d, "invariant": r.violated})
    r = C.tlc("TmapMC", "TmapMC.cfg", timeout=1200)
    if not ck.add_mc("TmapMC (binary search vs. contract segment, in-bounds reads)", r):
        ck.violation({"where": "model", "config": "TmapMC", "invariant": r.violated})
    P = []
    x = 1
    rates = [1073741824, 268435456, 16777216, 1048576, 1000000000]
    counts = [0, 1, 2, 3, 9, 10, 11, 99, 100, 101, 999, 1000, 1001, 2500]
    reps = 60 if thorough else 1
    for rep in range(reps):
        for c in counts:
            for udf in ([10, 15, 100, 0] if (thorough or c < 200) else [10]):
                rate = rng.choice(rates)
                P.append(progs.utc_program(rng, x, c, udf, rate, base=rng.choice([0, 5000, -70000, 123456789012]),
                                           tbase=rng.choice([0, 1700000000 * (1 << 30)]), first_off=rng.choice([0, 0, 3, 64]),
                                           nq=60 if thorough else 32))
                x += 1
    for c in (3, 12, 150):
        P.append(progs.utc_program(rng, x, c, 10, 16777216, equal_times=True))
        x += 1
    # a single entry extrapolates from the nominal sample rate in both directions: every rate (the decimal ones
    # included), the entry at / after / before the first sample, queries on both sides of it
    for rate in [1000, 48000, 1000000] + rates:
        for anchor_off in (0, 300, -40):
            P.append(progs.utc_program(rng, x, 1, 10, rate, base=rng.choice([0, 5000, -70000]), tbase=rng.choice([0, 1700000000 * (1 << 30)]),
                                       first_off=rng.choice([0, 64]), anchor_off=anchor_off))
            x += 1
    trace, v, other = apicheck.run_api(ck, P, "c12", {"C12"})
    nconv = sum(1 for l in open(trace) if l.startswith('{"e":"I2T"') or l.startswith('{"e":"T2I"'))
    ck.cov["distinct_nontrivial"] = nconv
    ck.cov["rule"] = "one case per jls_rd_utc / conversion call; non-trivial = conversions (id->time, time->id, round trips) on a map with >= 1 entry"
    ck.cov["samples"] = [l.strip()[:200] for l in open(trace) if l.startswith('{"e":"I2T"')][:3]
    ck.assumptions += ["ids/times are kept small relative to per-signal bases (spacing <= 64 ids, <= 4096 ticks) so that TLC's 32-bit integers can do the cross-multiplied 'within one tick' test; the C code works on differences in double precision, so the same branches run",
                       "conversion clauses are judged only when the written times are strictly increasing (an inverse cannot exist otherwise)"]
    return ck.finish()
