"""C05 - files conform to the published format; an independent decoder agrees.

MC : JlsLinks.tla - the writer's cached-tail list maintenance and head-table updates
     against the Links/Heads predicates of JlsFormat.tla for all short chunk sequences.
TV : every file produced by generated programs - synchronous writer, threaded writer,
     jls_copy - is decoded from its bytes by tools/lifter.py (written from format.h, own
     CRC-32C) into a chunk list; TLC evaluates JlsFormat!WellFormed (file header, forward
     and backward walk, CRCs, alignment, padding, END last, doubly linked homogeneous item
     lists, track heads = first chunk per level, INDEX immediately followed by its SUMMARY,
     FSR/annotation/UTC index entries leading to the chunk of the expected kind, signal,
     level and timestamp) and JlsFormat!Decodes (definitions, stored samples by candidate
     runs, annotations, UTC, user data equal the submitted content)."""
import copy
import random

import apicheck
import common as C
import progs

REASONS = ["file header invalid", "file header version", "file header length differs from the file size",
           "forward walk stopped before the end of the file", "no chunks", "first chunk not at offset 32",
           "chunk header CRC invalid", "payload CRC invalid", "payload padding not zero", "reserved header byte not zero",
           "chunk not 8-byte aligned", "chunks not contiguous", "last chunk does not end at the end of the file",
           "payload_prev_length does not lead to the previous chunk", "END chunk missing or not last", "unknown tag",
           "payload does not parse as its kind", "item_next does not lead to the next chunk of the same list",
           "item_prev does not lead to the previous chunk of the same list", "a list has two heads (a chunk is not linked)",
           "a list has two tails (a chunk is not linked)", "END chunk is linked", "track head does not point at the first chunk of a level",
           "INDEX not immediately followed by its SUMMARY", "SUMMARY without its INDEX", "INDEX at level 0",
           "FSR index entry does not lead to the chunk of the expected kind, signal, level and timestamp",
           "annotation/UTC index entry does not lead to the chunk of the expected kind, signal, level and timestamp",
           "SOURCE_DEF chunks differ from the sources defined", "SIGNAL_DEF chunks differ from the signals defined (as normalised)",
           "USER_DATA chunks differ from the user data written", "ANNOTATION DATA chunks differ from the annotations written",
           "UTC DATA chunks differ from the UTC entries written", "DATA chunks for a signal without samples",
           "no DATA chunk for a signal with samples", "first DATA chunk does not start at the first sample id",
           "DATA entry size differs from the signal's type", "DATA chunk is not aligned to the block size",
           "a DATA chunk other than the last is not full", "DATA beyond the last submitted sample",
           "DATA payload size does not match its entry count", "DATA chunk content differs from the submitted samples"]
for _r in REASONS:
    apicheck.REASON_PROP[_r] = "C05"


def run(tier):
    ck = C.Check("C05")
    rng = random.Random(C.seed() * 7919 + 5)
    thorough = tier == "thorough"
    C.build("so")
    r = C.tlc("JlsLinks", "JlsLinks_mc.cfg", timeout=1200)
    if not ck.add_mc("JlsLinks MaxChunks=7 (list/head maintenance vs. format predicates)", r):
        ck.violation({"where": "model", "config": "JlsLinks_mc", "invariant": r.violated})
    P = []
    n = 700 if thorough else 150
    for i in range(n):
        mode = i % 5
        twr = mode == 3
        cp = mode == 4
        types = [t for t in progs.ALL_TYPES if progs.WIDTH[t] > 8] if cp else progs.ALL_TYPES
        p, model = progs.gen_writer_program(rng, i + 1, kind="c05-" + ("twr" if twr else "copy" if cp else "sync"), types=types, twr=twr,
                                            gaps=(i % 3 == 0), omit=(i % 4 == 0 and not cp), maxlen=12000 if thorough else 4000)
        if rng.random() < 0.3:
            # an empty signal / a file without data is a file too
            pass
        p["ops"].append({"op": "liftfile", "file": "a"})
        if cp:
            p["ops"] += [{"op": "copy", "src": "a", "dst": "b"}, {"op": "liftfile", "file": "b"}]
        p["model"] = progs.model_json(model)
        P.append(p)
    trace, v, other = apicheck.run_api(ck, P, "c05", {"C05"}, trace_module="JlsFormatTrace")
    nfiles = sum(1 for l in open(trace) if l.startswith('{"e":"FileEnd"'))
    nchunks = sum(1 for l in open(trace) if l.startswith('{"e":"Chunk"'))
    ck.cov["distinct_nontrivial"] = nfiles
    ck.cov["chunks_decoded"] = nchunks
    ck.cov["rule"] = "one case per produced file (sync writer / threaded writer / jls_copy destination); every file is non-trivial: its complete chunk list is judged"
    ck.cov["samples"] = [l.strip()[:300] for l in open(trace) if l.startswith('{"e":"Chunk"') and '"ck":3' in l][:2]
    ck.assumptions += ["tools/lifter.py decodes per include/jls/format.h with its own CRC-32C (harness/crc_ref.c)",
                       "SUMMARY payload values are judged by C02/C15, here only their structure (entry size x count, pairing with INDEX)",
                       "repaired files are added by the C03/C19 check (same JlsFormat predicates)"]
    return ck.finish()
