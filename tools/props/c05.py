"""C05 - files conform to the published format; an independent decoder agrees.

MC : JlsLinks.tla - the writer's cached-tail list maintenance and head-table updates
     against the Links/Heads predicates of JlsFormat.tla for all short chunk sequences.
TV : every file produced by generated programs - synchronous writer, threaded writer,
     jls_copy - is decoded from its bytes by tools/lifter.py (written from format.h, own
     CRC-32C) into a chunk list; TLC evaluates JlsFormat!WellFormed (file header, forward
     and backward walk, CRCs, alignment, padding, END last, doubly linked homogeneous item
     lists, track heads = first chunk per level, INDEX immediately followed by its SUMMARY,
     FSR/annotation/UTC index entries leading to the chunk of the expected kind, signal,
     level and timestamp) and JlsFormat!Decodes (definitions, stored samples by candidate
     runs, annotations, UTC, user data equal the submitted content)."""
import copy
import random

import apicheck
import common as C
import progs

REASONS = ["file header invalid", "file header version", "file header length differs from the file size",
           "forward walk stopped before the end of the file", "no chunks", "first chunk not at offset 32",
           "chunk header CRC invalid", "payload CRC invalid", "payload padding not zero", "reserved header byte not zero",
           "chunk not 8-byte aligned", "chunks not contiguous", "last chunk does not end at the end of the file",
           "payload_prev_length does not lead to the previous chunk", "END chunk missing or not last", "unknown tag",
           "payload does not parse as its kind", "item_next does not lead to the next chunk of the same list",
           "item_prev does not lead to the previous chunk of the same list", "a list has two heads (a chunk is not linked)",
           "a list has two tails (a chunk is not linked)", "END chunk is linked", "track head does not point at the first chunk of a level",
           "INDEX not immediately followed by its SUMMARY", "SUMMARY without its INDEX", "INDEX at level 0",
           "FSR index entry does not lead to the chunk of the expected kind, signal, level and timestamp",
           "annotation/UTC index entry does not lead to the chunk of the expected kind, signal, level and timestamp",
           "SOURCE_DEF chunks differ from the sources defined", "SIGNAL_DEF chunks differ from the signals defined (as normalised)",
           "USER_DATA chunks differ from the user data written", "ANNOTATION DATA chunks differ from the annotations written",
           "UTC DATA chunks differ from the UTC entries written", "DATA chunks for a signal without samples",
           "no DATA chunk for a signal with samples", "first DATA chunk does not start at the first sample id",
           "DATA entry size differs from the signal's type", "DATA chunk is not aligned to the block size",
           "a DATA chunk other than the last is not full", "DATA beyond the last submitted sample",
           "DATA payload size does not match its entry count", "DATA chunk content differs from the submitted samples",
           "FSR SUMMARY entry size differs from what the format prescribes for the signal's type"]
for _r in REASONS:
    apicheck.REASON_PROP[_r] = "C05"


def run(tier):
    ck = C.Check("C05")
    rng = random.Random(C.seed() * 7919 + 5)
    thorough = tier == "thorough"
    C.build("so")
    r = C.tlc("JlsLinks", "JlsLinks_mc.cfg", timeout=1200)
    if not ck.add_mc("JlsLinks MaxChunks=7 (list/head maintenance vs. format predicates)", r):
        ck.violation({"where": "model", "config": "JlsLinks_mc", "invariant": r.violated})
    P = []
    n = 700 if thorough else 150
    for i in range(n):
        mode = i % 5
        twr = mode == 3
        cp = mode == 4
        types = [t for t in progs.ALL_TYPES if progs.WIDTH[t] > 8] if cp else progs.ALL_TYPES
        p, model = progs.gen_writer_program(rng, i + 1, kind="c05-" + ("twr" if twr else "copy" if cp else "sync"), types=types, twr=twr,
                                            gaps=(i % 3 == 0), omit=(i % 4 == 0 and not cp), maxlen=12000 if thorough else 4000)
        if rng.random() < 0.3:
            # an empty signal / a file without data is a file too
            pass
        p["ops"].append({"op": "liftfile", "file": "a"})
        if cp:
            p["ops"] += [{"op": "copy", "src": "a", "dst": "b"}, {"op": "liftfile", "file": "b"}]
        p["model"] = progs.model_json(model)
        P.append(p)
    # files without any FSR signal (annotations on signal 0 and user data only), written, and copied
    for k, nanno in enumerate([0, 4, 130] + ([rng.randint(1, 260) for _ in range(20)] if thorough else [])):
        q, model = progs.nofsr_writer_program(rng, len(P) + 1, "c05-nofsr", nanno)
        q["ops"].append({"op": "liftfile", "file": "a"})
        if k % 2 == 1:
            q["ops"] += [{"op": "copy", "src": "a", "dst": "b"}, {"op": "liftfile", "file": "b"}]
        q["model"] = {"sigs": {}}
        P.append(q)
    # histories from the shape graph (spec/JlsShapes.tla): a sample of the (shape, call) pairs (thorough: 40000 of them)
    import shapes
    for k, (q, model) in enumerate(shapes.programs(ck, rng, "c05-shape", thorough, 40000 if thorough else 1200, x0=len(P))):
        if k % 5 == 2:
            q["ops"][0]["twr"] = True          # the same history through the threaded writer (real threads)
            q["kind"] = "c05-shape-twr"
        q["ops"].append({"op": "liftfile", "file": "a"})
        if k % 3 == 1:
            q["ops"] += [{"op": "copy", "src": "a", "dst": "b"}, {"op": "liftfile", "file": "b"}]
        q["model"] = progs.model_json(model)
        P.append(q)
    # deep annotation / UTC index pyramids: small decimate factors and enough entries to fill the second and third level
    for (adf, cnt) in [(2, 9), (2, 20), (3, 30), (4, 70)] + ([(2, 70), (5, 130), (10, 1050)] if thorough else []):
        q = progs.anno_program(len(P) + 1, adf, [3 * k + (k % 2) for k in range(cnt)], [0, 5], sig=rng.choice([0, 1]), rng=rng)
        q["kind"] = "c05-anno"
        q["ops"].append({"op": "liftfile", "file": "a"})
        P.append(q)
        q = progs.utc_program(rng, len(P) + 1, cnt, adf, 1000, nq=4)
        q["kind"] = "c05-utc"
        q["ops"].append({"op": "liftfile", "file": "a"})
        P.append(q)
    trace, v, other = apicheck.run_api(ck, P, "c05", {"C05"}, trace_module="JlsFormatTrace")
    # tier B: the FSR chunk sequence of every file is the one the writer model JlsWriter.tla emits for the same calls
    cfgp = C.os.path.join(C.scratch(), "JlsWriterMC_c05.cfg")
    open(cfgp, "w").write("SPECIFICATION Spec\nCONSTANTS\n  Spd = 4\n  Sdf = 2\n  Eps = 4\n  Sumdf = 2\n  MaxSamples = %d\n  Sizes = {1, 3, 4, 9}\n"
                          "INVARIANT Inv\nCHECK_DEADLOCK FALSE\n" % (56 if thorough else 44))
    r = C.tlc("JlsWriterMC", cfgp, timeout=1800, heap="8g")
    if not ck.add_mc("JlsWriter spd=4 sdf=2 eps=4 sumdf=2 (chunk emission: tiling, index entries, nothing pending after close, reader descent finds every sample)", r):
        ck.violation({"where": "model", "config": "JlsWriterMC", "invariant": r.violated, "reason": "JlsWriter.tla violates " + str(r.violated)})
    cfgp2 = C.os.path.join(C.scratch(), "JlsWriterMC_c05b.cfg")
    open(cfgp2, "w").write("SPECIFICATION Spec\nCONSTANTS\n  Spd = 6\n  Sdf = 2\n  Eps = 6\n  Sumdf = 3\n  MaxSamples = %d\n  Sizes = {1, 5, 6, 13}\n"
                           "INVARIANT Inv\nCHECK_DEADLOCK FALSE\n" % (80 if thorough else 62))
    r = C.tlc("JlsWriterMC", cfgp2, timeout=1800, heap="8g")
    if not ck.add_mc("JlsWriter spd=6 sdf=2 eps=6 sumdf=3", r):
        ck.violation({"where": "model", "config": "JlsWriterMC-b", "invariant": r.violated, "reason": "JlsWriter.tla violates " + str(r.violated)})
    for df, mx in ((1, 12), (2, 70), (3, 90 if thorough else 40)):
        cfgt = C.os.path.join(C.scratch(), "JlsTsWriterMC_%d.cfg" % df)
        open(cfgt, "w").write("SPECIFICATION Spec\nCONSTANTS\n  Df = %d\n  MaxEntries = %d\nINVARIANT Inv\nCHECK_DEADLOCK FALSE\n" % (df, mx))
        r = C.tlc("JlsTsWriterMC", cfgt, timeout=900, workers=2)
        if not ck.add_mc("JlsTsWriter decimate factor %d, <= %d entries (annotation / UTC chunk emission: INDEX then its SUMMARY, entries lead to the chunks below, no level over its allocation)" % (df, mx), r):
            ck.violation({"where": "model", "config": "JlsTsWriterMC df=%d" % df, "invariant": r.violated, "reason": "JlsTsWriter.tla violates " + str(r.violated)})
    vw = C.validate_trace_parallel("JlsWriterTrace", "JlsWriterTrace.cfg", trace, parts=12, timeout=1800)
    ck.log("tier-B conformance with JlsWriter.tla / JlsTsWriter.tla: %d events, %d file(s) whose FSR or annotation / UTC chunk sequence differs from the model" % (vw.consumed, len(vw.rejections)))
    if vw.rejections:
        ck.cov["design_conformance"] = "drift"
        print("MODEL-DRIFT property=C05 %d file(s) have a chunk sequence that JlsWriter.tla / JlsTsWriter.tla do not produce for the same calls (first: execution %s line %s: %s)"
              % (len(vw.rejections), vw.rejections[0][0], vw.rejections[0][1], vw.rejections[0][2]))
    nfiles = sum(1 for l in open(trace) if l.startswith('{"e":"FileEnd"'))
    nchunks = sum(1 for l in open(trace) if l.startswith('{"e":"Chunk"'))
    ck.cov["distinct_nontrivial"] = nfiles
    ck.cov["chunks_decoded"] = nchunks
    ck.cov["rule"] = "one case per produced file (sync writer / threaded writer / jls_copy destination); every file is non-trivial: its complete chunk list is judged"
    ck.cov["samples"] = [l.strip()[:300] for l in open(trace) if l.startswith('{"e":"Chunk"') and '"ck":3' in l][:2]
    ck.assumptions += ["tools/lifter.py decodes per include/jls/format.h with its own CRC-32C (harness/crc_ref.c)",
                       "SUMMARY payload values are judged by C02/C15, here only their structure (entry size x count, pairing with INDEX)",
                       "repaired files are added by the C03/C19 check (same JlsFormat predicates)"]
    return ck.finish()
