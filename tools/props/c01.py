"""C01 - FSR samples round-trip bit-exactly for every type, chunking and read window.

MC : JlsApiGen.tla - the contract's sample store and read verdict on all short
     write/omit histories (well-formed segments; ideal reader accepted for every
     window; wrong source rejected).
TV : generated programs (all data types incl. 24-bit, minimal/default/large-block
     geometries, partitions incl. 1-sample and sub-byte-odd calls, first ids
     negative/large, several signals interleaved) are executed on the real
     library; every jls_rd_fsr / jls_rd_fsr_length outcome is judged by
     JlsApiTrace.tla against the submitted history (candidate runs)."""
import os
import random

import apicheck
import common as C
import progs


def programs_for(rng, n, thorough):
    out = []
    types = progs.ALL_TYPES + progs.TYPES24
    for i in range(n):
        r = rng.random()
        kw = dict(kind="c01", gaps=False, overlaps=False, omit=False, annos=False, utc=False, userdata=False,
                  maxlen=40000 if thorough else 8000)
        if r < 0.5:
            kw["types"] = [types[i % len(types)]]
            kw["nsig"] = 1
        p, model = progs.gen_writer_program(rng, i + 1, types=kw.pop("types", types), **kw)
        p["ops"] += progs.reader_ops(rng, model, nreads=30 if thorough else 16, with_defs=False)
        p["model"] = progs.model_json(model)
        out.append(p)
    return out


def big_block_program(x, dt="f64", spd=140000):
    """a block larger than the reader's initial 1 MiB buffer"""
    ops = [{"op": "wopen"}, {"op": "source", "id": 1, "name": ["lit", "s"]},
           {"op": "signal", "id": 1, "src": 1, "dt": dt, "rate": 1000, "spd": spd, "sdf": 100, "eps": 1400, "sumdf": 10,
            "name": ["lit", "big"], "units": ["lit", "u"]}]
    n = 0
    for k in (spd - 3, 7, spd, 1234):
        ops.append({"op": "fsr", "sig": 1, "id": n, "n": k})
        n += k
    ops += [{"op": "wclose"}, {"op": "ropen"}, {"op": "len", "sig": 1},
            {"op": "rd", "sig": 1, "start": 0, "n": n}, {"op": "rd", "sig": 1, "start": spd - 1, "n": 3},
            {"op": "rd", "sig": 1, "start": n - 5, "n": 5}, {"op": "rclose"}]
    nspd, nsdf, neps, nsum = progs.normalise(dt, spd, 100, 1400, 10)
    return {"x": x, "kind": "c01-big", "feat": ["big-block", "type-" + dt], "ops": ops,
            "model": {"sigs": {"1": {"dt": dt, "bits": progs.WIDTH[dt], "norm": [nspd, nsdf, neps, nsum], "length": n}}}}


def deep_pyramid_program(x, dt, total, rng):
    """smallest block geometry and enough samples for four (thorough: five) index levels: the reader's descent has to
    pass every level, with windows spread over the whole signal"""
    ops = [{"op": "wopen"}, {"op": "source", "id": 1, "name": ["lit", "s"]},
           {"op": "signal", "id": 1, "src": 1, "dt": dt, "rate": 1000, "spd": 10, "sdf": 10, "eps": 10, "sumdf": 10,
            "name": ["lit", "deep"], "units": ["lit", "u"]}]
    n = 0
    while n < total:
        k = min(total - n, rng.choice([777, 1000, 4096, 12345]))
        ops.append({"op": "fsr", "sig": 1, "id": n, "n": k})
        n += k
    ops += [{"op": "wclose"}, {"op": "ropen"}, {"op": "len", "sig": 1}]
    nspd, nsdf, neps, nsum = progs.normalise(dt, 10, 10, 10, 10)
    l1 = neps * nsdf                    # samples per level-1 index chunk
    starts = [0, l1 - 1, l1 * nsum - 3, l1 * nsum * nsum - 7, l1 * nsum * nsum + 5, total // 2, total - 60, total - 1]
    starts += [rng.randint(0, total - 1) for _ in range(10)]
    for st in starts:
        st = max(0, min(st, total - 1))
        ops.append({"op": "rd", "sig": 1, "start": st, "n": min(50, total - st)})
    ops.append({"op": "rclose"})
    return {"x": x, "kind": "c01-deep", "feat": ["deep-pyramid", "type-" + dt], "ops": ops,
            "model": {"sigs": {"1": {"dt": dt, "bits": progs.WIDTH[dt], "norm": [nspd, nsdf, neps, nsum], "length": total}}}}


def run(tier):
    ck = C.Check("C01")
    rng = random.Random(C.seed() * 7919 + 1)
    thorough = tier == "thorough"
    C.build("so")
    r = C.tlc("JlsApiGen", "JlsApiGen_mc.cfg", timeout=1200, heap="8g")
    if not ck.add_mc("JlsApiGen MaxCalls=4 (contract self-check)", r):
        ck.violation({"where": "model", "config": "JlsApiGen_mc", "invariant": r.violated})
    P = programs_for(rng, 30000 if thorough else 260, thorough)
    P.append(big_block_program(len(P) + 1))
    for dt, total in [("f32", 50000), ("i16", 40000), ("u8", 70000)] + ([("f64", 400000), ("u1", 600000)] if thorough else []):
        P.append(deep_pyramid_program(len(P) + 1, dt, total, rng))
    if thorough:
        P.append(big_block_program(len(P) + 1, "u8", 1500000))
    trace, v, other = apicheck.run_api(ck, P, "c01", {"C01"})
    nreads = sum(1 for l in open(trace) if l.startswith('{"e":"RdFsr"'))
    sub = sum(1 for l in open(trace) if l.startswith('{"e":"RdFsr"') and '"rc":0' in l and l.count('"p":') >= 2)
    ck.cov["distinct_nontrivial"] = sub
    ck.cov["reads"] = nreads
    ck.cov["rule"] = ("one case per jls_rd_fsr window of a generated program; non-trivial = a successful read whose window "
                      "spans at least two write calls (so a shifted, stale or duplicated sample matches no candidate)")
    ck.cov["samples"] = [l.strip()[:300] for l in open(trace) if l.startswith('{"e":"RdFsr"')][:3]
    ck.assumptions += ["sample data are pseudo-random per (write event, sample id); for u1 a wrong sample matches with probability 1/2 per sample, 2^-n per run",
                       "the projection assumes reader index 0 = first sample id written (documented API meaning); a deviation yields empty candidate sets, i.e. a rejection"]
    return ck.finish()
