"""C20 - statistics accumulators are consistent under add, compute and combine.

MC : StatsRoutes.tla - the update formulas of jls_statistics_add (Welford),
     jls_statistics_compute_* (two-pass) and jls_statistics_combine (parallel variance,
     four-way case split) transcribed over exact rationals: for every sequence of <= 5
     (thorough 6) samples over {-3,-1,0,2,3}, every split into two and three parts and both
     groupings, all routes give the same statistics; variance >= 0; min <= mean <= max;
     combining with the empty accumulator is the identity.
RP : the same routes, plus operand aliasing (result overwrites either operand) and
     f32/f64 compute, are executed on the real jls_statistics_* for every sequence of the
     model's state space and for seeded longer ones and structured streams of 10^4 samples;
     the integer projections (count, min, max, llround(mean*k), llround(s + mean^2*k),
     residuals) are judged by TLC against the exact triple (StatsTrace.tla)."""
import ctypes as ct
import itertools
import json
import math
import os
import random

import common as C
import graph as G


class St(ct.Structure):
    _fields_ = [("k", ct.c_uint64), ("mean", ct.c_double), ("s", ct.c_double), ("min", ct.c_double), ("max", ct.c_double)]


def routes_for(L, xs, thorough, skip32=False):
    """all evaluation routes on the real code; returns list of (name, St)"""
    out = []
    n = len(xs)
    arr64 = (ct.c_double * max(n, 1))(*xs)
    arr32 = (ct.c_float * max(n, 1))(*xs)

    def reset():
        s = St()
        L.jls_statistics_reset(ct.byref(s))
        return s

    def compute(lo, hi, f32=False):
        s = St()
        if f32:
            L.jls_statistics_compute_f32(ct.byref(s), ct.cast(ct.byref(arr32, lo * 4), ct.POINTER(ct.c_float)), hi - lo)
        else:
            L.jls_statistics_compute_f64(ct.byref(s), ct.cast(ct.byref(arr64, lo * 8), ct.POINTER(ct.c_double)), hi - lo)
        return s

    def addall(s, lo, hi):
        for i in range(lo, hi):
            L.jls_statistics_add(ct.byref(s), ct.c_double(xs[i]))
        return s

    def combine(a, b, alias):
        if alias == "a":
            L.jls_statistics_combine(ct.byref(a), ct.byref(a), ct.byref(b))
            return a
        if alias == "b":
            L.jls_statistics_combine(ct.byref(b), ct.byref(a), ct.byref(b))
            return b
        t = St()
        L.jls_statistics_combine(ct.byref(t), ct.byref(a), ct.byref(b))
        return t

    out.append(("add", addall(reset(), 0, n)))
    out.append(("compute64", compute(0, n)))
    if not skip32:
        out.append(("compute32", compute(0, n, True)))
    splits = range(0, n + 1) if n <= 8 else sorted({0, 1, n // 3, n // 2, n - 1, n})
    for i in splits:
        for alias in ("a", "b", "t"):
            out.append(("comb(c[0:%d],c[%d:]),%s" % (i, i, alias), combine(compute(0, i), compute(i, n), alias)))
        out.append(("comb(add[0:%d],c)" % i, combine(addall(reset(), 0, i), compute(i, n), "t")))
        out.append(("add(c[0:%d])" % i, addall(compute(0, i), i, n)))
        for j in (range(i, n + 1) if n <= 6 else [min(n, i + (n - i) // 2)]):
            a, b1, b2 = compute(0, i), compute(i, j), compute(j, n)
            out.append(("comb(comb(a,b),c)[%d,%d]" % (i, j), combine(combine(a, b1, "a"), b2, "t")))
            a, b1, b2 = compute(0, i), compute(i, j), compute(j, n)
            out.append(("comb(a,comb(b,c))[%d,%d]" % (i, j), combine(a, combine(b1, b2, "b"), "b")))
    # identity with the empty accumulator
    out.append(("comb(x,empty)", combine(compute(0, n), reset(), "a")))
    out.append(("comb(empty,x)", combine(reset(), compute(0, n), "b")))
    return out


def project(name, s, L):
    k = int(s.k)
    if k == 0:
        return [name, 0, 0, 0, 0, 0, 0, 0, 0, 0]
    sm = s.mean * k
    sq = s.s + s.mean * s.mean * k
    var = L.jls_statistics_var(ct.byref(s))

    def res(v):
        if math.isnan(v) or math.isinf(v) or abs(v) > 2e9:
            return 0, 10 ** 9
        return int(round(v)), int(min(10 ** 9, round(abs(v - round(v)) * 1e9)))

    sn, sr = res(sm)
    qn, qr = res(sq)
    mn = int(s.min) if abs(s.min) < 2e9 and float(s.min).is_integer() else 999999999
    mx = int(s.max) if abs(s.max) < 2e9 and float(s.max).is_integer() else 999999999
    eps = 1e-9 * max(1.0, abs(s.mean))
    return [name, k, mn, mx, sn, sr, qn, qr, int(not (var >= 0.0) or s.s < -1e-6), int(not (s.min - eps <= s.mean <= s.max + eps))]


def project_shifted(name, s, L, off):
    """Projection relative to a large offset: count, min - off, max - off, (mean - off) * k, and k * s (k times the sum of
    squared deviations, an integer for integer samples) with residuals; the specification compares with the exact
    values of the small sequence (mean and s are shift invariant)."""
    k = int(s.k)
    if k == 0:
        return [name, 0, 0, 0, 0, 0, 0, 0, 0, 0]
    var = L.jls_statistics_var(ct.byref(s))

    def res(v):
        if math.isnan(v) or math.isinf(v) or abs(v) > 2e9:
            return 0, 10 ** 9
        return int(round(v)), int(min(10 ** 9, round(abs(v - round(v)) * 1e9)))

    sn, sr = res((s.mean - off) * k)
    dn, dr = res(s.s * k)
    mn = int(s.min - off) if abs(s.min - off) < 2e9 and float(s.min).is_integer() else 999999999
    mx = int(s.max - off) if abs(s.max - off) < 2e9 and float(s.max).is_integer() else 999999999
    eps = 1e-9 * max(1.0, abs(s.mean))
    return [name, k, mn, mx, sn, sr, dn, dr, int(not (var >= 0.0) or s.s < -1e-6), int(not (s.min - eps <= s.mean <= s.max + eps))]


def run(tier):
    ck = C.Check("C20")
    rng = random.Random(C.seed() * 7919 + 20)
    thorough = tier == "thorough"
    C.build("so")
    sc = C.scratch()
    cfg = os.path.join(sc, "routes.cfg")
    maxlen = 6 if thorough else 5
    open(cfg, "w").write(open(os.path.join(C.SPEC, "StatsRoutes.cfg")).read().replace("MaxLen = 5", "MaxLen = %d" % maxlen))
    dot = os.path.join(sc, "routes")
    r = C.tlc("StatsRoutes", cfg, workers=1, timeout=2400, args=["-dump", "dot", dot])
    ok = ck.add_mc("StatsRoutes MaxLen=%d Vals={-3,-1,0,2,3}" % maxlen, r)
    seqs = []
    if not ok:
        ck.violation({"where": "model", "config": "StatsRoutes", "invariant": r.violated})
    else:
        inits, nodes, edges = G.parse_dot(dot + ".dot")
        for nid, vals in nodes.items():
            seqs.append(C.parse_tla_value(vals["xs"]))
        os.remove(dot + ".dot")
    import jlsdrv as J
    L = J.load("so")
    L.jls_statistics_var.restype = ct.c_double
    L.jls_statistics_add.argtypes = [ct.POINTER(St), ct.c_double]
    L.jls_statistics_compute_f64.argtypes = [ct.POINTER(St), ct.POINTER(ct.c_double), ct.c_uint64]
    L.jls_statistics_compute_f32.argtypes = [ct.POINTER(St), ct.POINTER(ct.c_float), ct.c_uint64]
    trace = os.path.join(sc, "stats.ndjson")

    def feed():
        # in a forked child: a fault of the functions under test is a finding, not a tool failure
        x = 0
        nroutes = 0
        with open(trace, "w") as f:
            def emit(ev, xs):
                nonlocal x, nroutes
                x += 1
                ev["x"] = x
                ev["e"] = "StatsRoute"
                ev["routes"] = [project(nm, s, L) for nm, s in routes_for(L, xs, thorough)]
                nroutes += len(ev["routes"])
                f.write(json.dumps(ev, separators=(",", ":")) + "\n")
            for xs in seqs:
                emit({"kind": "seq", "xs": xs, "p": 0, "a": 0, "n": 0}, xs)
            # seeded longer sequences: constant, alternating, small random, offset
            for i in range(3000 if thorough else 80):
                n = rng.choice([7, 8, 9, 16, 33, 100, 250])
                style = i % 4
                if style == 0:
                    xs = [rng.choice([-5, 0, 7])] * n
                elif style == 1:
                    xs = [(-1) ** j * rng.choice([1, 3]) for j in range(n)]
                elif style == 2:
                    xs = [rng.randint(-100, 100) for _ in range(n)]
                else:
                    off = rng.choice([1000, -1000])
                    xs = [off + rng.randint(-3, 3) for _ in range(n)]
                emit({"kind": "seq", "xs": xs, "p": 0, "a": 0, "n": 0}, xs)
            # large offsets (shift invariance): small integer spread around +-3e7 .. +-1e9; a formula that loses the
            # deviations in the magnitude of the samples (sum of squares minus k * mean^2) is off by percents here
            for i in range(1000 if thorough else 40):
                n = rng.choice([2, 3, 8, 33, 100, 250])
                off = rng.choice([30000000, -30000000, 100000000, -100000000, 1000000000, -1000000000])
                small = [rng.randint(-3, 3) for _ in range(n)]
                xs = [off + v for v in small]
                x += 1
                ev = {"kind": "shift", "xs": small, "p": 0, "a": off, "n": 0, "x": x, "e": "StatsRoute",
                      "routes": [project_shifted(nm, st_, L, off) for nm, st_ in routes_for(L, [float(v) for v in xs], thorough, skip32=True)]}
                nroutes += len(ev["routes"])
                f.write(json.dumps(ev, separators=(",", ":")) + "\n")
            # structured streams of up to 10^4 samples (closed-form truth)
            for i in range(200 if thorough else 12):
                kind = rng.choice(["ramp", "bit"])
                p = rng.choice([2, 3, 7, 13]) if kind == "ramp" else rng.choice([2, 3, 5, 9])
                n = rng.choice([1000, 4096, 10000])
                a = rng.randint(0, 50)
                if kind == "ramp":
                    xs = [(a + j) % p for j in range(n)]
                else:
                    xs = [1 if ((a + j) % p) < (p + 1) // 2 else 0 for j in range(n)]
                emit({"kind": kind, "xs": [], "p": p, "a": a, "n": n}, xs)

    status = C.isolated(feed, timeout=1500)
    if status.startswith("exit"):
        raise C.ToolFailure("statistics route driver failed (%s)" % status)
    rows = [l for l in open(trace).read().split("\n") if l.endswith("}")]
    open(trace, "w").write("\n".join(rows) + ("\n" if rows else ""))
    x = len(rows)
    nroutes = sum(len(json.loads(l)["routes"]) for l in rows)
    if status != "ok":
        ck.violation({"where": "implementation", "reason": "jls_statistics_* crashed or did not return (%s)" % status, "after_sequences": x})
    ck.log("executed %d evaluation routes on the real jls_statistics_* over %d sequences" % (nroutes, x))
    v = C.validate_independent("StatsTrace", "StatsTrace.cfg", trace, parts=8, timeout=2400)
    ck.log("trace validation: %d/%d sequences, %d rejection(s)" % (v.consumed, v.total, len(v.rejections)))
    lines = open(trace).read().split("\n") if v.rejections else []
    for (ex, line, why) in v.rejections:
        ev = json.loads(lines[line - 1])
        ck.violation({"where": "implementation", "reason": why, "kind": ev["kind"], "xs": ev["xs"][:40], "p": ev["p"], "n": ev["n"]})
    ck.cov["traces_validated_against_impl"] = x - len(v.rejections)
    ck.cov["evaluations"] = nroutes
    ck.cov["distinct_nontrivial"] = x
    ck.cov["graph_states_replayed"] = len(seqs)
    ck.cov["rule"] = "one case per sample sequence (every state of StatsRoutes.tla, seeded longer ones, structured 10^4-sample streams), each with all its evaluation routes; all sequences are distinct"
    ck.cov["samples"] = [l[:300] for l in open(trace).read().split("\n")[5:7]]
    ck.assumptions += ["integer-valued samples: every intermediate is exactly representable or within 1e-6 of it; large offsets (3e7 .. 1e9, spread +-3) are judged through shift invariance with a 1e-3 relative bound on s; loss of precision over many decades of magnitude within one sequence is not decided (DESIGN section 7)"]
    return ck.finish()
