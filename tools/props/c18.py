"""C18 - CRC-32C is computed correctly for every length, alignment and code path.

MC : Crc32cMC.tla - the definition itself, by TLC: check value of "123456789" = E3069283,
     CRC of the empty string = 0, table-driven byte update = bit-serial update for every byte
     on a spread of registers, and head/body/tail splitting of a buffer at every position.
TV : harness/crc_probe.c calls the real jls_crc32c of both builds compiled from the working
     tree (default: SSE4.2; -DJLS_OPTIMIZE_CRC_DISABLE: slicing-by-8 tables) for ALL lengths
     0..4096 and ALL start alignments 0..7 on seeded and structured contents, the dedicated
     header variant on seeded headers, and dumps the 8x256 software tables; TLC recomputes
     the prefix registers from the polynomial and judges every value (Crc32cTrace.tla)."""
import json
import os
import subprocess

import common as C


def run(tier):
    ck = C.Check("C18")
    thorough = tier == "thorough"
    sc = C.scratch()
    C.build("plain")
    C.build("crcsw")
    r = C.tlc("Crc32cMC", "Crc32cMC.cfg", timeout=1200)
    if not ck.add_mc("Crc32cMC (definition: check value, table = bit-serial, split invariance)", r):
        ck.violation({"where": "model", "config": "Crc32cMC", "invariant": r.violated})
    exe = os.path.join(sc, "crc_probe")
    rc, out = C.run(["gcc", "-O1", "-msse4.2", "-I%s/include" % C.REPO, "-I%s/src" % C.REPO,
                     os.path.join(C.HARNESS, "crc_probe.c"), os.path.join(C.HARNESS, "crc_tables.c"),
                     os.path.join(C.build_dir(), "plain", "crc32c.o"), os.path.join(C.build_dir(), "crcsw", "crc32c.o"), "-o", exe], check=False)
    if rc != 0:
        raise C.ToolFailure("crc_probe build failed:\n" + out[-2000:])
    trace = os.path.join(sc, "crc.ndjson")
    contents = [0, 3] + ([1, 2, 0, 0, 0, 0, 3, 0, 0] if thorough else [])
    with open(trace, "w") as f:
        for k, content in enumerate(contents):
            try:
                p = subprocess.run([exe, str(C.seed() + k * 1000), "4096", "1000" if k == 0 else "50", str(content)], stdout=subprocess.PIPE, timeout=300)
                out_b, prc = p.stdout, p.returncode
            except subprocess.TimeoutExpired as ex:
                out_b, prc = ex.stdout or b"", "timeout"
            if prc != 0:
                ck.violation({"where": "implementation", "reason": "the checksum code crashed or did not return (crc_probe: %s)" % prc})
            for line in out_b.decode("utf-8", "replace").split("\n"):
                if line:
                    try:
                        ev = json.loads(line)
                    except ValueError:
                        continue        # a line cut by the abnormal end
                    ev["x"] = ev["x"] + 1000 * k
                    if ev["e"] == "CrcTable" and k > 0:
                        continue
                    f.write(json.dumps(ev, separators=(",", ":")) + "\n")
    v = C.validate_independent("Crc32cTrace", "Crc32cTrace.cfg", trace, parts=16, timeout=2400)
    nvals = 0
    for p in v.tlc.prints:
        if "TRACE_INFO" in p:
            nvals += C.parse_tla_value(p)[1]
    ck.log("trace validation: %d/%d events, %d CRC values / table entries judged, %d rejection(s)" % (v.consumed, v.total, nvals, len(v.rejections)))
    lines = open(trace).read().split("\n") if v.rejections else []
    for (ex, line, why) in v.rejections:
        ev = json.loads(lines[line - 1])
        d = {"where": "implementation", "reason": why, "event": ev["e"], "alignment": ev.get("a", -1), "k": ev.get("k", -1)}
        rf = os.path.join(sc, "crc_rej_%d.json" % ex)
        open(rf, "w").write(lines[line - 1])
        ck.violation(d, [rf])
    ck.cov["traces_validated_against_impl"] = v.total - len(v.rejections)
    ck.cov["evaluations"] = nvals
    ck.cov["distinct_nontrivial"] = nvals
    ck.cov["exhaustive"] = True
    ck.cov["rule"] = ("one case per (build, content, alignment 0..7, length 0..4096) value of jls_crc32c, per header, per table entry; "
                      "exhaustive over lengths and alignments for the contents used, not over contents")
    ck.cov["samples"] = ["CrcRun impl=default a=3 buf[0..4095] -> 4097 values", "CrcTable k=0..7 x 256 entries", "CrcHdr 1000 seeded headers x 2 builds"]
    ck.assumptions += ["the ARM implementation (crc32c_arm_neon.c) cannot be built on this host and is not covered",
                       "contents: seeded pseudo-random and single-bit patterns (thorough: also zeros, ones, second seed); not all 2^(8n) contents"]
    return ck.finish()
