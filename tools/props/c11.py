"""C11 - annotations round-trip in order and seeking by timestamp omits nothing.

MC : JlsTs.tla - the index pyramid (commit on D entries, first entry propagated upwards,
     flush at close) and jls_core_ts_seek's descent, for every non-decreasing timestamp
     sequence of <= 9 (thorough 11) entries over 4 values with D = 2, 3 and every seek target:
     the iteration is a contiguous tail with everything >= t and at most one earlier entry.
RP : every sequence of that state space is written with the real library (decimation
     factor 2 and 3, on an FSR signal and on signal 0) and read back from every target.
TV : larger programs: counts 0..1100, decimation 2,3,7,10,100/default, runs of equal
     timestamps placed across index-chunk boundaries, offset/negative ids, all storage
     types, payloads to > 1 MiB, stopped iteration; judged by JlsApiTrace.tla."""
import os
import random

import apicheck
import common as C
import graph as G
import progs


def run(tier):
    ck = C.Check("C11")
    rng = random.Random(C.seed() * 7919 + 11)
    thorough = tier == "thorough"
    C.build("so")
    sc = C.scratch()
    P = []
    x = 1
    for d in (2, 3):
        cfg = os.path.join(sc, "ts_%d.cfg" % d)
        maxn = 10 if thorough else 8
        open(cfg, "w").write(open(os.path.join(C.SPEC, "JlsTs_anno.cfg")).read().replace("D = 2", "D = %d" % d).replace("MaxN = 9", "MaxN = %d" % maxn))
        dot = os.path.join(sc, "ts_%d" % d)
        r = C.tlc("JlsTs", cfg, workers=1, timeout=1200, args=["-dump", "dot", dot])
        ok = ck.add_mc("JlsTs annotations D=%d MaxN=%d Vals=1..4" % (d, maxn), r)
        if not ok:
            cx = os.path.join(sc, "ts_cex_%d.txt" % d)
            open(cx, "w").write(r.out)
            ck.violation({"where": "model", "config": "JlsTs D=%d" % d, "invariant": r.violated}, [cx])
            continue
        inits, nodes, edges = G.parse_dot(dot + ".dot")
        os.remove(dot + ".dot")
        for nid, vals in nodes.items():
            tss = C.parse_tla_value(vals["ts"])
            if not tss:
                continue
            sig = 1 if (len(P) % 2 == 0) else 0
            P.append(progs.anno_program(x, d, tss, [0, 1, 2, 3, 4, 5], sig=sig, base=1000 if sig else 0,
                                        first_off=(x % 3) if sig else 0))
            x += 1
    nmodel = len(P)
    # larger, seeded programs
    nbig = 4000 if thorough else 40
    for i in range(nbig):
        adf = rng.choice([2, 3, 7, 10, 10, 100, 0])
        eff = adf or 100
        count = rng.choice([0, 1, eff - 1, eff, eff + 1, eff * eff - 1, eff * eff + 1, eff * eff * eff + 3, 1100, rng.randint(2, 400)])
        count = min(count, 1200 if not thorough else 3000)
        tss = []
        t = rng.choice([-50, 0, 5])
        for k in range(count):
            # equal runs around multiples of the decimation factor
            near = (k % eff) in (0, 1, eff - 1) or (k % (eff * eff)) in (0, 1, eff * eff - 1)
            if not (near and rng.random() < 0.7) and rng.random() < 0.6:
                t += rng.choice([1, 1, 2, 10])
            tss.append(t)
        seeks = sorted(set([tss[0] - 5, tss[0], tss[-1], tss[-1] + 1] + [rng.choice(tss) for _ in range(6)] + [rng.choice(tss) + 1 for _ in range(2)])) if tss else [0, 5]
        sig = rng.choice([0, 1, 1, 7])
        base = rng.choice([0, 1000, -100000, 123456789012]) if sig else 0
        stops = [(rng.choice(tss), rng.choice([1, 2, 5]))] if tss else []
        P.append(progs.anno_program(x, adf, tss, seeks, sig=sig, base=base, first_off=rng.choice([0, 3]) if sig else 0, rng=rng,
                                    payload_big=(thorough and i % 10 == 0) or i == 0, stops=stops))
        x += 1
    # histories from the shape graph (spec/JlsShapes.tla): annotations on signal 0, on FSR and on VSR signals in every
    # combination with the other tracks
    import shapes
    for q, model in shapes.programs(ck, rng, "c11-shape", thorough, 12000 if thorough else 500, x0=len(P)):
        q["ops"] += shapes.reader_ops(rng, model, nreads=0)
        q["model"] = progs.model_json(model)
        P.append(q)
    trace, v, other = apicheck.run_api(ck, P, "c11", {"C11"})
    ck.cov["graph_states_replayed"] = nmodel
    ck.cov["distinct_nontrivial"] = sum(1 for l in open(trace) if l.startswith('{"e":"RdAnno"') and '"items":[]' not in l)
    ck.cov["rule"] = ("one case per jls_rd_annotations call; non-trivial = it delivered at least one annotation. Every timestamp sequence of "
                      "the JlsTs.tla state space (D=2,3) is one program with six seek targets; plus seeded larger programs")
    ck.cov["samples"] = [l.strip()[:300] for l in open(trace) if l.startswith('{"e":"RdAnno"')][:3]
    ck.assumptions += ["annotation content is compared through a 64-bit token over (timestamp, type, storage type, group, y bits, size, bytes)"]
    return ck.finish()
