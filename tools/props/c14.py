"""C14 - write-once: stored content is never rewritten, only links and head tables.

MC : JlsFile.tla - the discipline (append / link patch / head patch / close) keeps
     content immutable, heads set once and pointing at the right kind of chunk.
TV : the complete backend write log of every generated writer program (sync and
     threaded writer) is lifted from bytes to BkWrite events and every write is
     judged by JlsFile!WriteVerdict (JlsWriteOnceTrace.tla)."""
import json
import os
import random

import common as C
import progs
import runner


def run(tier):
    ck = C.Check("C14")
    rng = random.Random(C.seed() * 7919 + 14)
    thorough = tier == "thorough"
    C.build("so")
    sc = C.scratch()

    cfg = os.path.join(sc, "jlsfile_mc.cfg")
    open(cfg, "w").write(open(os.path.join(C.SPEC, "JlsFileGen_mc.cfg")).read().replace("MaxChunks = 5", "MaxChunks = %d" % (5 if thorough else 4)))
    r = C.tlc("JlsFileGen", cfg, timeout=900, heap="8g")
    if not ck.add_mc("JlsFile discipline generator MaxChunks=%d" % (5 if thorough else 4), r):
        ck.violation({"where": "model", "config": "JlsFile_mc", "invariant": r.violated})

    nprog = 8000 if thorough else 120
    programs = []
    for i in range(nprog):
        twr = (i % 5 == 4)
        p, model = progs.gen_writer_program(rng, i + 1, kind="c14", twr=twr, gaps=True, overlaps=False, omit=True,
                                            maxlen=20000 if thorough else 5000)
        p["ops"].append({"op": "liftlog"})
        programs.append(p)
    for nanno in [3, 120] + ([rng.randint(1, 260) for _ in range(30)] if thorough else []):
        # no FSR signal at all: only the global annotation track and the user-data list are maintained
        p, model = progs.nofsr_writer_program(rng, len(programs) + 1, "c14-nofsr", nanno)
        p["ops"].append({"op": "liftlog"})
        programs.append(p)
    import shapes
    for k, (p, model) in enumerate(shapes.programs(ck, rng, "c14-shape", thorough, 20000 if thorough else 800, x0=len(programs))):
        if k % 5 == 4:
            p["ops"][0]["twr"] = True
        p["ops"].append({"op": "liftlog"})
        programs.append(p)
    trace, abnormal = runner.run_programs(programs, seed=C.seed(), tag="c14")
    nev = sum(1 for _ in open(trace))
    ck.log("executed %d writer programs on the real library: %d events, %d abnormal terminations" % (len(programs), nev, len(abnormal)))
    v = C.validate_trace_parallel("JlsWriteOnceTrace", "JlsWriteOnceTrace.cfg", trace, parts=12, timeout=2400, heap="4g")
    nwrites = 0
    for p in v.tlc.prints:
        if "TRACE_INFO" in p:
            nwrites += C.parse_tla_value(p)[1]
    ck.log("trace validation: %d/%d events, %d backend writes judged, %d rejection(s)" % (v.consumed, v.total, nwrites, len(v.rejections)))
    byx = {p["x"]: p for p in programs}
    lines = None
    for (ex, line, why) in v.rejections:
        if lines is None:
            lines = open(trace).read().split("\n")
        evj = json.loads(lines[line - 1])
        fields = sorted({f for t in evj.get("touch", []) for f in t.get("fields", [])})
        descr = {"where": "implementation", "execution": ex, "reason": why, "during": evj.get("during"),
                 "fields": ",".join(fields), "feat": byx[ex]["feat"], "event": lines[line - 1][:600]}
        pf = os.path.join(sc, "c14_prog_%d.json" % ex)
        json.dump(byx[ex], open(pf, "w"))
        ck.violation(descr, [pf])
    for (x, kind) in abnormal:
        pf = os.path.join(sc, "c14_prog_%d.json" % x)
        json.dump(byx[x], open(pf, "w"))
        ck.violation({"where": "implementation", "execution": x, "reason": "writer " + kind, "feat": byx[x]["feat"]}, [pf])
    ck.cov["traces_validated_against_impl"] = len(programs) - len({r[0] for r in v.rejections})
    ck.cov["evaluations"] = nwrites
    ck.cov["distinct_nontrivial"] = sum(1 for l in open(trace) if '"kind":"overwrite"' in l or '"kind":"filehdr"' in l)
    ck.cov["rule"] = "one case per backend write of a generated writer program; non-trivial = in-place writes (header, head table, file header)"
    ck.cov["samples"] = [l.strip()[:400] for l in open(trace) if '"kind":"overwrite"' in l][:3]
    ck.assumptions += ["the lifter (tools/lifter.py) decodes bytes before/after each write correctly (written from format.h, own CRC)",
                       "write attribution to API calls for the threaded writer is by the most recent call started"]
    return ck.finish()
