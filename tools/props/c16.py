"""C16 - signal definitions normalise to consistent, stable storage parameters.

MC : SigDefMC.tla - on a grid of the four block parameters x all sample widths: the
     transcription of signal_def_defaults + jls_core_signal_def_align yields parameters
     that satisfy the format's relations, is idempotent, and applies the per-width defaults.
RP : every grid point (plus boundary values up to 2^30 and unrepresentable ones up to
     UINT32_MAX) is fed to the real jls_core_signal_def_align, once and twice; TLC checks
     each output against the transcription, the relations, idempotence and the
     accept/refuse rule (SigDefTrace.tla).  The write -> read -> rewrite cycle through files
     is part of the C13 check (jls_rd_signal against SigDef!Normalise)."""
import ctypes as ct
import json
import os
import random

import common as C

GRID_Q = [0, 1, 9, 10, 11, 16, 17, 33, 100, 128, 255, 256, 640, 1000, 1024]
GRID_T = sorted(set(GRID_Q + [2, 7, 12, 15, 20, 31, 32, 63, 64, 127, 129, 257, 1280, 8192, 16384, 65536]))
EXTRA = [1000000, 1 << 20, 1 << 30, (1 << 30) + 1, (1 << 31) - 1, 1 << 31, 4294967295, 4294967294]
WIDTHS = {"u1": 1, "u4": 4, "u8": 8, "u16": 16, "u24": 24, "u32": 32, "u64": 64}


def clip(v):
    return min(v, 2147483647)


def run(tier):
    ck = C.Check("C16")
    thorough = tier == "thorough"
    rng = random.Random(C.seed() * 7919 + 16)
    C.build("so")
    sc = C.scratch()
    grid = GRID_T if thorough else GRID_Q
    cfg = os.path.join(sc, "sigdef.cfg")
    open(cfg, "w").write("SPECIFICATION Spec\nCONSTANTS\n  Grid = {%s}\n  GridW = {1, 4, 8, 16, 32, 64}\n"
                         "INVARIANT RelationsHold\nINVARIANT Idempotent\nINVARIANT DefaultsApplied\nCHECK_DEADLOCK FALSE\n" % ", ".join(map(str, grid)))
    r = C.tlc("SigDefMC", cfg, timeout=2400, heap="8g")
    if not ck.add_mc("SigDefMC grid of %d values^4 x widths {1,4,8,16,32,64}" % len(grid), r):
        ck.violation({"where": "model", "config": "SigDefMC", "invariant": r.violated})
    cfg24 = os.path.join(sc, "sigdef24.cfg")
    open(cfg24, "w").write("SPECIFICATION Spec\nCONSTANTS\n  Grid = {0, 10, 100, 1000}\n  GridW = {24}\n"
                           "INVARIANT RelationsHold\nCHECK_DEADLOCK FALSE\n")
    r24 = C.tlc("SigDefMC", cfg24, timeout=600)
    ck.add_mc("SigDefMC width 24", r24, require_ok=False)
    if not r24.ok:
        ck.violation({"where": "model", "config": "SigDefMC width 24", "invariant": r24.violated, "class": "width-24"})

    import jlsdrv as J
    L = J.load("so")
    L.jls_core_signal_def_align.argtypes = [ct.POINTER(J.SignalDef)]
    L.jls_core_signal_def_align.restype = ct.c_int32
    trace = os.path.join(sc, "sigdef.ndjson")
    curf = os.path.join(sc, "sigdef.cur")
    inputs = grid + [v for v in EXTRA]

    def feed():
      # runs in a forked child: a fault or an endless loop of the function under test is a finding, not a tool failure
      npts = 0
      with open(trace, "w") as f, open(curf, "w") as cur:
        x = 0
        for dt, w in WIDTHS.items():
            for spd in inputs:
                for sdf in inputs:
                    # keep the "reduce until fits" loop short: it runs spd/sdf times in the C code
                    if spd <= (1 << 30) and max(sdf, 10) and spd // max(sdf, 10) > 200000:
                        continue
                    tab = []
                    # the same rules hold for every signal type (the format's signal 0 is a VSR signal): one row in
                    # seven is fed as a VSR definition
                    st = 1 if rng.random() < 0.15 else 0
                    for eps in inputs:
                        for sumdf in inputs:
                            if rng.random() < (0.6 if thorough else 0.55) and not (eps in EXTRA or sumdf in EXTRA):
                                continue
                            d = J.SignalDef()
                            d.signal_type = st
                            d.data_type = J.dt_code(dt)
                            d.samples_per_data, d.sample_decimate_factor, d.entries_per_summary, d.summary_decimate_factor = spd, sdf, eps, sumdf
                            cur.seek(0)
                            cur.write(("%s %d %d %d %d" % (dt, spd, sdf, eps, sumdf)).ljust(70) + "\n")
                            cur.flush()
                            rc = L.jls_core_signal_def_align(ct.byref(d))
                            o = (d.samples_per_data, d.sample_decimate_factor, d.entries_per_summary, d.summary_decimate_factor)
                            rc2 = L.jls_core_signal_def_align(ct.byref(d)) if rc == 0 else 0
                            p = (d.samples_per_data, d.sample_decimate_factor, d.entries_per_summary, d.summary_decimate_factor)
                            tab.append([clip(eps), clip(sumdf), rc] + [clip(v) for v in o] + [rc2] + [clip(v) for v in p])
                    if tab:
                        x += 1
                        npts += len(tab)
                        f.write(json.dumps({"e": "SigDefRow", "x": x, "w": w, "dt": dt, "st": st, "spd": clip(spd), "sdf": clip(sdf), "tab": tab}, separators=(",", ":")) + "\n")
                        f.flush()

    status = C.isolated(feed, timeout=1500)
    if status.startswith("exit"):
        raise C.ToolFailure("grid feeder failed (%s)" % status)
    rows = [l for l in open(trace).read().split("\n") if l.endswith("}")]
    open(trace, "w").write("\n".join(rows) + ("\n" if rows else ""))
    x = len(rows)
    npts = sum(len(json.loads(l)["tab"]) for l in rows)
    if status != "ok":
        point = open(curf).read().strip()
        ck.violation({"where": "implementation", "reason": "jls_core_signal_def_align crashed or did not return (%s)" % status,
                      "point_dt_spd_sdf_eps_sumdf": point, "class": "width-24" if point.startswith(("i24", "u24")) else ""})
    ck.log("fed %d grid points to the real jls_core_signal_def_align (%d rows)" % (npts, x))
    v = C.validate_trace_parallel("SigDefTrace", "SigDefTrace.cfg", trace, parts=12, timeout=2400) if False else validate_rows(trace)
    ck.log("trace validation: %d/%d rows, %d rejection(s)" % (v.consumed, v.total, len(v.rejections)))
    lines = open(trace).read().split("\n") if v.rejections else []
    for (ex, line, why) in v.rejections:
        ev = json.loads(lines[line - 1])
        why, _, idx = why.partition(" @")
        point = ev["tab"][int(idx) - 1] if idx else []
        descr = {"where": "implementation", "reason": why, "w": ev["w"], "signal_type": ev.get("st", 0), "spd": ev["spd"], "sdf": ev["sdf"],
                 "class": "width-24" if ev["w"] == 24 else "", "point_eps_sumdf_rc_out_rc2_again": point}
        ck.violation(descr)
    ck.cov["traces_validated_against_impl"] = x - len(v.rejections)
    ck.cov["evaluations"] = npts
    ck.cov["distinct_nontrivial"] = npts
    ck.cov["rule"] = "one case per (width, samples_per_data, sample_decimate_factor, entries_per_summary, summary_decimate_factor) point fed to the real function; all are distinct"
    ck.cov["exhaustive"] = True
    ck.cov["samples"] = [l[:200] for l in open(trace).read().split("\n")[:2]]
    ck.assumptions += ["inputs >= 2^31 are logged clipped to 2^31-1 (TLC integers are 32 bit); they only need to be refused",
                       "no SMT query over the full 32-bit domain (DESIGN section 7)"]
    return ck.finish()


def validate_rows(trace):
    """split the rows over parallel TLC processes (rows are independent)"""
    import concurrent.futures
    lines = open(trace).readlines()
    parts = 12
    files = []
    for k in range(parts):
        sub = lines[k::parts]
        if not sub:
            continue
        fp = "%s.p%d" % (trace, k)
        open(fp, "w").writelines(sub)
        files.append((fp, k))
    out = C.TraceVerdict()
    with concurrent.futures.ThreadPoolExecutor(max_workers=parts) as ex:
        futs = [ex.submit(C.validate_trace, "SigDefTrace", "SigDefTrace.cfg", fp, 2400, None, "3g") for fp, _ in files]
        for (fp, k), fu in zip(files, futs):
            v = fu.result()
            out.consumed += v.consumed
            out.total += v.total
            out.rejections += [[r[0], (r[1] - 1) * parts + k + 1, r[2]] for r in v.rejections]
            out.tlc = v.tlc
            os.remove(fp)
    return out
