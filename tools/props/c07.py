"""C07 - threaded writer: flush/close semantics hold and nothing deadlocks.

MC : Twr.tla, complete state space of small programs with flushes and the close behind a full queue: a flush that
     returns success has everything submitted before it applied and synced, close applies everything and joins the
     writer thread, no deadlock (TLC deadlock check), and termination under fairness (strong fairness per thread,
     weak fairness of the clock) -- the retry loops of msg_send / jls_twr_flush / jls_twr_close all end.
RP : every edge of the complete state graph of small programs, executed on the real code under virtual time (ticks
     that overshoot by 6 s / 21 s make every timeout path reachable).
TV : as C06, judged for the flush / close / progress clauses of TwrContractTrace.tla; the scheduler reports
     Deadlock (nothing enabled, no timer, threads unfinished) and Livelock (step budget exhausted under a weakly
     fair schedule)."""
import os
import random

import common as C
import twr


def run(tier):
    ck = C.Check("C07")
    rng = random.Random(C.seed() * 7919 + 7)
    sc = C.scratch()
    thorough = tier == "thorough"
    exe = twr.build(os.path.join(sc, "twr_drv"), 256)
    F = lambda g, n: ("F", g, n)
    sig2 = {1: "u8", 3: "u8"}
    mc_progs = [
        ({"sigs": {1: "u8"}, "threads": [[F(1, 100), F(1, 100), ("L",)]], "closer": 0}, 0),
        ({"sigs": {1: "u8"}, "threads": [[("L",), F(1, 100), F(1, 100)]], "closer": 1}, 0),
        ({"sigs": sig2, "threads": [[F(1, 100), ("L",)], [F(3, 100)]], "closer": 0}, 0),
        ({"sigs": sig2, "threads": [[("X", 1), F(1, 100)], [F(3, 100)]], "closer": 0}, 0),
    ]
    graph_progs = [
        ({"sigs": {1: "u8"}, "threads": [[F(1, 100), ("X", 1), F(1, 100)]], "closer": 0}, 0, 1),
        ({"sigs": {1: "u8"}, "threads": [[F(1, 100), F(1, 100), ("L",)]], "closer": 0}, 0, 2),
        ({"sigs": {1: "u8"}, "threads": [[F(1, 200), ("L",)]], "closer": 1}, 0, 3),
    ]
    sim = None
    if thorough:
        mc_progs += [
            ({"sigs": sig2, "threads": [[F(1, 100), ("L",)], [F(3, 100), F(3, 60)]], "closer": 0}, 0),
            ({"sigs": sig2, "threads": [[("L",), F(1, 100)], [F(3, 100), ("L",)]], "closer": 0}, 0),
            ({"sigs": sig2, "threads": [[F(1, 100), ("L",)], [F(3, 100), ("L",)]], "closer": 0}, 1),
        ]
        graph_progs += [
            ({"sigs": sig2, "threads": [[("L",)], [F(3, 200)]], "closer": 0}, 0, 2),
            ({"sigs": {1: "u8"}, "threads": [[F(1, 100), ("L",), F(1, 100), ("L",)]], "closer": 1}, 0, 2),
        ]
        sim = ({"sigs": sig2, "threads": [[F(1, 100), ("L",), F(1, 90), ("L",)], [F(3, 100), ("L",), F(3, 60)]], "closer": 0},
               0, 800, 2500)
    twr.run_campaign(ck, "C07", sc, exe, rng, mc_progs, graph_progs, 4000 if thorough else 300, sim=sim,
                     liveness=True, flush_bias=True)
    return ck.finish()
