"""C07 - threaded writer: flush/close semantics hold and nothing deadlocks.

MC : Twr.tla, complete state space of small programs with flushes and the close behind a full queue: a flush that
     returns success has everything submitted before it applied and synced, close applies everything and joins the
     writer thread, no deadlock (TLC deadlock check), and termination under fairness (strong fairness per thread,
     weak fairness of the clock) -- the retry loops of msg_send / jls_twr_flush / jls_twr_close all end.
RP : every edge of the complete state graph of small programs, executed on the real code under virtual time (ticks
     that overshoot by 6 s / 21 s make every timeout path reachable).
TV : as C06, judged for the flush / close / progress clauses of TwrContractTrace.tla; the scheduler reports
     Deadlock (nothing enabled, no timer, threads unfinished) and Livelock (step budget exhausted under a weakly
     fair schedule)."""
import os
import random

import common as C
import twr


def run(tier):
    ck = C.Check("C07")
    rng = random.Random(C.seed() * 7919 + 7)
    sc = C.scratch()
    thorough = tier == "thorough"
    exe = twr.build(os.path.join(sc, "twr_drv"), 256)
    F = lambda g, n: ("F", g, n)
    sig2 = {1: "u8", 3: "u8"}
    mc_progs = [
        ({"sigs": {1: "u8"}, "threads": [[F(1, 100), F(1, 100), ("L",)]], "closer": 0}, 0),
        ({"sigs": {1: "u8"}, "threads": [[("L",), F(1, 100), F(1, 100)]], "closer": 1}, 0),
        ({"sigs": sig2, "threads": [[F(1, 100), ("L",)], [F(3, 100)]], "closer": 0}, 0),
        ({"sigs": sig2, "threads": [[("X", 1), F(1, 100)], [F(3, 100)]], "closer": 0}, 0),
    ]
    graph_progs = [
        ({"sigs": {1: "u8"}, "threads": [[F(1, 100), ("X", 1), F(1, 100)]], "closer": 0}, 0, 1),
        ({"sigs": {1: "u8"}, "threads": [[F(1, 100), F(1, 100), ("L",)]], "closer": 0}, 0, 2),
        ({"sigs": {1: "u8"}, "threads": [[F(1, 200), ("L",)]], "closer": 1}, 0, 3),
    ]
    sim = None
    if thorough:
        mc_progs += [
            ({"sigs": sig2, "threads": [[F(1, 100), ("L",)], [F(3, 100), F(3, 60)]], "closer": 0}, 0),
            ({"sigs": sig2, "threads": [[("L",), F(1, 100)], [F(3, 100), ("L",)]], "closer": 0}, 0),
            ({"sigs": sig2, "threads": [[F(1, 100), ("L",)], [F(3, 100), ("L",)]], "closer": 0}, 1),
        ]
        graph_progs += [
            ({"sigs": sig2, "threads": [[("L",)], [F(3, 200)]], "closer": 0}, 0, 2),
            ({"sigs": {1: "u8"}, "threads": [[F(1, 100), ("L",), F(1, 100), ("L",)]], "closer": 1}, 0, 2),
        ]
        sim = ({"sigs": sig2, "threads": [[F(1, 100), ("L",), F(1, 90), ("L",)], [F(3, 100), ("L",), F(3, 60)]], "closer": 0},
               0, 800, 2500)
    # several threads that all flush behind messages that fill the queue, under schedules where time jumps past the
    # send / flush timeouts while a flush is being submitted
    extra = []
    for i in range(1500 if thorough else 250):
        nt = rng.choice([2, 2, 3])
        threads = []
        sigs = {}
        for k in range(1, nt + 1):
            g = 2 * k - 1
            sigs[g] = "u8"
            sigs[g + 1] = "u8"
            ops = []
            for _ in range(rng.randint(1, 3)):
                ops.append(F(g, rng.choice([60, 100, 150, 190])))
                if rng.random() < 0.8:
                    ops.append(("L",))
            threads.append(ops)
        cfg = {"seed": rng.randint(1, 2 ** 31 - 1), "steps": twr.STEP_BUDGET, "drop": rng.choice([0, 0, 1]), "pct": rng.choice([0, 2, 5]),
               "span": rng.choice([30, 100, 400]), "tick": rng.choice([100, 300, 700]), "jump": rng.choice([300, 600, 1000])}
        extra.append(({"sigs": sigs, "threads": threads, "closer": 0}, cfg))
    twr.run_campaign(ck, "C07", sc, exe, rng, mc_progs, graph_progs, 8000 if thorough else 300, sim=sim,
                     liveness=True, flush_bias=True, extra=extra)
    return ck.finish()
