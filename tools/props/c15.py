"""C15 - omitting level-0 data never changes length or summaries.

MC : JlsApiGen.tla - omit requests interleaved with writes on the contract: the first
     block is never released, length and stored sources do not depend on omission.
TV : two-run relational check: every generated stream is written twice, with its
     jls_wr_fsr_omit_data calls and without; TLC requires equal lengths (both equal the
     contract's), equal SUMMARY entries at every level (lifted from the bytes of both
     files), the omitted blocks of the first file to be exactly those the documented
     one-block delay prescribes (and never block 0), stored blocks to read back exactly
     and omitted ones with the right count; for types of 8 bits or less, streams with
     constant blocks (0, all-ones, other values) must read back bit-exactly."""
import copy
import random

import apicheck
import common as C
import progs


def const_block_program(rng, x, dt):
    """<=8-bit signal made of constant and non-constant blocks"""
    w = progs.WIDTH[dt]
    spd, sdf, eps, sumdf = progs.small_geometry(rng, dt)
    nspd, nsdf, neps, nsum = progs.normalise(dt, spd, sdf, eps, sumdf)
    ops = [{"op": "wopen"}, {"op": "source", "id": 1, "name": ["lit", "s"]},
           {"op": "signal", "id": 1, "src": 1, "dt": dt, "rate": 1000, "spd": spd, "sdf": sdf, "eps": eps, "sumdf": sumdf,
            "name": ["lit", "c"], "units": ["lit", "u"]}]
    vals = {1: [0, 1], 4: [0, 15, 5, 8], 8: [0, 255, 7, 128, 200]}[w]
    nblocks = rng.randint(3, 14)
    i = 0
    for b in range(nblocks):
        kind = rng.choice(["const", "const", "rnd", "const-partial"] + (["bpat", "bpat"] if w < 8 else []))
        if kind == "bpat":
            # every byte of the block is the same although the samples are not: must be stored, not taken for constant
            ops.append({"op": "fsr", "sig": 1, "id": i, "n": nspd, "gen": ["bpat", rng.choice([0x10, 0x31, 0x73, 0xF5, 0x55, 0xAA, 0x01, 0x80, 0xFE, 0x0F])]})
        elif kind == "rnd":
            ops.append({"op": "fsr", "sig": 1, "id": i, "n": nspd, "gen": ["rnd"]})
        elif kind == "const":
            ops.append({"op": "fsr", "sig": 1, "id": i, "n": nspd, "gen": ["const", rng.choice(vals)]})
        else:
            k = rng.randint(1, nspd - 1)
            ops.append({"op": "fsr", "sig": 1, "id": i, "n": k, "gen": ["const", rng.choice(vals)]})
            ops.append({"op": "fsr", "sig": 1, "id": i + k, "n": nspd - k, "gen": rng.choice([["rnd"], ["const", rng.choice(vals)]])})
        i += nspd
    tail = rng.choice([0, 0, 1, nsdf, nspd // 2])
    feat = ["const-blocks", "type-" + dt]
    if tail:
        ops.append({"op": "fsr", "sig": 1, "id": i, "n": tail, "gen": rng.choice([["rnd"], ["const", rng.choice(vals)]])})
        i += tail
    ops += [{"op": "wclose"}, {"op": "ropen"}, {"op": "len", "sig": 1}, {"op": "rd", "sig": 1, "start": 0, "n": i}]
    for _ in range(10):
        st = rng.choice([0, 1, nspd - 1, nspd, nspd + 1, 2 * nspd - 3, rng.randint(0, i - 1)])
        st = min(st, i - 1)
        ln = max(1, min(rng.choice([1, 2, 7, 8, 9, nspd, nspd + 1, 2 * nspd + 5, i - st]), i - st))
        ops.append({"op": "rd", "sig": 1, "start": st, "n": ln})
    ops += [{"op": "rclose"}, {"op": "sumsnap", "file": "a"}]
    return {"x": x, "kind": "c15-const", "feat": feat, "ops": ops,
            "model": {"sigs": {"1": {"dt": dt, "bits": w, "norm": [nspd, nsdf, neps, nsum], "length": i}}}}


def run(tier):
    ck = C.Check("C15")
    rng = random.Random(C.seed() * 7919 + 15)
    thorough = tier == "thorough"
    C.build("so")
    r = C.tlc("JlsApiGen", "JlsApiGen_mc.cfg", timeout=1200, heap="8g")
    if not ck.add_mc("JlsApiGen MaxCalls=4 (omission in the contract)", r):
        ck.violation({"where": "model", "config": "JlsApiGen_mc", "invariant": r.violated})
    P = []
    n = 10000 if thorough else 130
    for i in range(n):
        p, model = progs.gen_writer_program(rng, i + 1, kind="c15", nsig=rng.choice([1, 1, 2]), gaps=(i % 4 == 0), overlaps=False, omit=True,
                                            annos=False, utc=False, userdata=False, late_defs=False, maxlen=12000 if thorough else 5000,
                                            omit_p=0.25)
        w_ops = p["ops"]
        if i % 4 != 0:
            # switch omission off before close in most programs, so that the known finding about an
            # omitted final partial block (C01-K1) does not end the judgement of the execution early
            tail = [{"op": "omit", "sig": int(g), "en": 0} for g in model["sigs"] if model["sigs"][g]["defined"]]
            w_ops[-1:-1] = tail
        for k, o in enumerate(w_ops):
            if o["op"] == "fsr":
                o["gid"] = 1000 + k      # the same data in both runs
        rd = progs.reader_ops(rng, model, nreads=10, with_defs=False)
        ops = list(w_ops) + rd + [{"op": "sumsnap", "file": "a"}]
        # the same stream with omission off, into file b
        for o in w_ops:
            if o["op"] == "omit":
                continue
            o2 = copy.deepcopy(o)
            if o2["op"] == "wopen":
                o2["file"] = "b"
            ops.append(o2)
        rd_b = copy.deepcopy(rd)
        rd_b[0]["file"] = "b"
        ops += rd_b + [{"op": "sumcmp", "file": "b"}]
        p["ops"] = ops
        p["model"] = progs.model_json(model)
        P.append(p)
    for dt in ["u1", "u4", "u8", "i4", "i8"]:
        for k in range(60 if thorough else 4):
            P.append(const_block_program(rng, len(P) + 1, dt))
    trace, v, other = apicheck.run_api(ck, P, "c15", {"C15", "C01"})
    nz = sum(1 for l in open(trace) if l.startswith('{"e":"IdxZeros"') and '"zeros":[]' not in l)
    ck.cov["distinct_nontrivial"] = nz
    ck.cov["summary_comparisons"] = sum(1 for l in open(trace) if l.startswith('{"e":"SumCmp"'))
    ck.cov["rule"] = "one case per (program, signal); non-trivial = the file written with omission really has omitted blocks (level-1 index entries equal to 0)"
    ck.cov["samples"] = [l.strip()[:240] for l in open(trace) if l.startswith('{"e":"IdxZeros"') and '"zeros":[]' not in l][:3]
    ck.assumptions += ["SUMMARY entries are compared as raw hex tokens of the stored floats (bit-exact)",
                       "the reader reconstructs omitted blocks pseudo-randomly for floats: for those blocks only the count is judged"]
    return ck.finish()
