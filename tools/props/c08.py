"""C08 - the message queue is a faithful bounded FIFO inside its buffer.

MC : Mrb.tla (transcription of jls_mrb_alloc/peek/pop + contract ghosts), complete
     state space for small capacities, all sizes 0..capacity.
RP : every edge of the dumped state graph is executed on the real jls_mrb_*;
     head/tail/count/returned offset compared with TLC's successor state.
TV : the executions of the walk plus long seeded random executions on larger
     capacities are judged by MrbContractTrace.tla (tier A contract)."""
import json
import os
import random

import common as C
import graph as G


def mc_cfg(path, n, maxsize):
    with open(path, "w") as f:
        f.write("SPECIFICATION Spec\nCONSTANTS\n  N = %d\n  MaxSize = %d\n  ResetGuard = TRUE\n"
                "INVARIANT TypeOK\nINVARIANT C08\nCHECK_DEADLOCK FALSE\n" % (n, maxsize))


def walk_script(dot, n, x, out):
    inits, nodes, edges = G.parse_dot(dot)
    parent, order = G.bfs_tree(inits, edges)
    nops = 0
    out.write("R %d %d\n" % (n, x))
    for step in G.dfs_edge_walk(inits[0], edges, parent):
        if step[0] == "push":
            out.write("U\n")
        elif step[0] == "back":
            out.write("B\n")
        else:
            lab, dst = step[1], step[2]
            nd = nodes[dst]
            last = C.parse_tla_value(nd["last"])
            ret = last[2] if last[2] >= 0 else -1
            if lab.startswith("Alloc"):
                out.write("A %s\n" % lab[lab.index("(") + 1:-1])
            elif lab == "Peek":
                out.write("K\n")
            else:
                out.write("P\n")
            out.write("E %s %s %s %d\n" % (nd["head"], nd["tail"], nd["count"], ret))
            nops += 1
    return nops, len(nodes)


def random_script(rng, out, x0, nexec, nops):
    """Seeded random executions on larger capacities; sizes biased to the
    neighbourhood of the capacity and to values that make the queue wrap."""
    x = x0
    for _ in range(nexec):
        n = rng.choice([64, 100, 128, 255, 256, 1000, 4096]) if rng.random() < 0.7 else rng.randint(13, 4096)
        out.write("R %d %d\n" % (n, x))
        x += 1
        style = rng.random()
        for _ in range(nops):
            r = rng.random()
            if r < 0.5:
                if style < 0.3:
                    size = rng.choice([n - d for d in range(0, 14) if n - d >= 0] + [0, 1, n // 2, n // 3])
                elif style < 0.6:
                    size = rng.randint(0, max(1, n // 3))
                else:
                    size = rng.randint(0, n + 2)
                out.write("A %d\n" % size)
            elif r < 0.6:
                out.write("K\n")
            else:
                out.write("P\n")
    return x - x0


def run(tier):
    ck = C.Check("C08")
    rng = random.Random(C.seed())
    sc = C.scratch()
    thorough = tier == "thorough"
    C.build("plain")
    exe = C.link(os.path.join(sc, "mrb_replay"), ["mrb_replay.c"])

    mc_ns = [13, 16, 20, 24] + ([28, 32] if thorough else [])
    walk_ns = [13, 14, 16] + ([18, 20] if thorough else [])
    script = os.path.join(sc, "mrb.script")
    total_edges = 0
    x = 1
    with open(script, "w") as out:
        for n in sorted(set(mc_ns + walk_ns)):
            cfg = os.path.join(sc, "mrb_%d.cfg" % n)
            mc_cfg(cfg, n, n)
            args = []
            dot = os.path.join(sc, "mrb_%d" % n)
            if n in walk_ns:
                args = ["-dump", "dot,actionlabels", dot]
            r = C.tlc("Mrb", cfg, workers=(1 if n in walk_ns else None), timeout=1500, args=args, heap="8g")
            ok = ck.add_mc("Mrb N=%d sizes 0..%d" % (n, n), r)
            if not ok:
                # the design model itself breaks C08: report with TLC's counterexample
                cx = os.path.join(sc, "mrb_cex_%d.txt" % n)
                open(cx, "w").write(r.out)
                ck.violation({"where": "model", "config": "Mrb N=%d" % n, "invariant": r.violated}, [cx])
                continue
            if n in walk_ns:
                nops, nn = walk_script(dot + ".dot", n, x, out)
                os.remove(dot + ".dot")
                ck.log("graph walk N=%d: %d states, %d edges" % (n, nn, nops))
                total_edges += nops
                x += 1
        nrand = random_script(rng, out, 1000, 400 if thorough else 80, 400 if thorough else 250)

    trace = os.path.join(sc, "mrb.ndjson")
    drift = os.path.join(sc, "mrb.drift")
    with open(script, "rb") as fin, open(trace, "wb") as fout:
        import subprocess
        p = subprocess.run([exe, drift], stdin=fin, stdout=fout, timeout=600)
    crashed = None
    if p.returncode < 0:
        # the queue code itself faulted (the driver checks every pointer and size before it touches memory):
        # keep the events recorded so far, drop a cut line
        crashed = -p.returncode
        data = open(trace, "rb").read()
        cut = data.rfind(b"\n")
        open(trace, "wb").write(data[:cut + 1] if cut >= 0 else b"")
    elif p.returncode != 0:
        raise C.ToolFailure("mrb_replay exited with %d" % p.returncode)
    drifts = []
    for l in open(drift):
        try:
            drifts.append(json.loads(l))
        except ValueError:
            pass            # a line cut by a crash of the code under test
    nev = sum(1 for _ in open(trace))
    ck.log("executed %d events on the real jls_mrb_* (%d graph edges, %d random executions); %d deviations from the design model"
           % (nev, total_edges, nrand, len(drifts)))

    if crashed:
        cr = os.path.join(sc, "mrb_crash.txt")
        nlines = sum(1 for _ in open(trace))
        open(cr, "w").write("jls_mrb_* faulted with signal %d after %d recorded events of the script %s\n" % (crashed, nlines, script))
        ck.violation({"where": "implementation", "reason": "the queue code crashed (signal %d)" % crashed, "events_before": nlines}, [cr, script])
    v = C.validate_trace("MrbContractTrace", "MrbContractTrace.cfg", trace, timeout=1500)
    ck.log("trace validation: %d/%d events consumed, %d rejection(s)" % (v.consumed, v.total, len(v.rejections)))
    lines = None
    for (ex, line, why) in v.rejections:
        if lines is None:
            lines = open(trace).read().split("\n")
        ctx = os.path.join(sc, "rej_%d_%d.ndjson" % (ex, line))
        # replay material: the execution up to the offending event
        start = max(i for i in range(line) if '"Reset"' in lines[i])
        open(ctx, "w").write("\n".join(lines[start:line]) + "\n")
        ck.violation({"where": "implementation", "execution": ex, "line": line, "reason": why,
                      "event": lines[line - 1]}, [ctx])
    if drifts:
        ck.cov["design_conformance"] = "drift"
        print("MODEL-DRIFT property=C08 the real jls_mrb_* left the state graph of Mrb.tla at %d point(s), first: %s"
              % (len(drifts), json.dumps(drifts[0])))
    ck.cov["traces_validated_against_impl"] = (len(walk_ns) + nrand) - len({r[0] for r in v.rejections})
    ck.cov["evaluations"] = nev
    ck.cov["graph_edges_replayed"] = total_edges
    ck.cov["distinct_nontrivial"] = total_edges
    ck.cov["rule"] = ("every edge (state, operation) of the complete Mrb.tla state graph for capacities %s is one case; "
                      "non-trivial = the edge was executed on the real code and its successor state compared" % walk_ns)
    ck.cov["exhaustive"] = True
    ck.cov["samples"] = [l for l in open(trace).read().split("\n")[1:8]]
    ck.assumptions += ["harness fingerprints payload bytes with FNV-1a; guard bytes of 64 on each side of the buffer",
                       "ResetGuard=TRUE transcribes the tree after fix 3b11e71 (reset path refuses what cannot fit)"]
    return ck.finish()
