"""C06 - threaded writer applies accepted calls exactly once, in order, on any schedule.

MC : Twr.tla (one step per pthread operation of a thread, the queue decisions of msg_ring_buffer.c, virtual time),
     complete state space of small programs: applied is a prefix of accepted in enqueue order, return codes agree
     with what was queued.
RP : every edge of the complete state graph of small programs (real time constants) is executed on the real
     jls_twr_* under the cooperative scheduler harness/sched_shim.c; thorough adds TLC simulation behaviours.
TV : those runs plus random programs under seeded priority schedules are judged by TwrContractTrace.tla (tier A:
     exactly once / in order / bytes intact / lock discipline / content equals the synchronous reference) and
     compared step by step with Twr.tla (TwrTrace.tla, tier B; deviation = MODEL-DRIFT, not a violation).
RT : real threads: harness/twr_tsan_drv.c (2-4 producer threads, small queue, drop on / off) on the library built
     with ThreadSanitizer; a reported data race is an unsynchronised access (the clause the cooperative scheduler,
     which runs one thread at a time, cannot see: it checks which lock is held, TSan checks what is touched)."""
import os
import random

import common as C
import twr


def tsan_part(ck, sc, thorough):
    import concurrent.futures
    import re
    import subprocess
    exe = os.path.join(sc, "twr_tsan_drv")
    rc, o = C.run([os.path.join(C.HARNESS, "build_tsan.sh"), exe, "2048"], timeout=900, check=False)
    if rc != 0:
        raise C.ToolFailure("ThreadSanitizer build failed:\n%s" % o[-3000:])
    runs = [(sd, 2 + sd % 3, 600 if thorough else 250, sd % 2) for sd in range(1, (60 if thorough else 10) + 1)]

    def one(a):
        sd, nt, nops, drop = a
        out = os.path.join(sc, "tsan_%d.jls" % sd)
        env = dict(os.environ)
        env["TSAN_OPTIONS"] = "exitcode=66 halt_on_error=0 second_deadlock_stack=1"
        try:
            p = subprocess.run([exe, out, str(sd + 1000 * C.seed()), str(nt), str(nops), str(drop)], env=env, timeout=300,
                               stdout=subprocess.PIPE, stderr=subprocess.PIPE)
            return a, p.returncode, p.stdout.decode("utf-8", "replace"), p.stderr.decode("utf-8", "replace")
        except subprocess.TimeoutExpired:
            return a, -9, "", "timeout"
        finally:
            try:
                os.remove(out)
            except OSError:
                pass
    nacc = 0
    seen = set()
    with concurrent.futures.ThreadPoolExecutor(max_workers=max(2, C.NCPU // 4)) as ex:
        for a, rc, so, se in ex.map(one, runs):
            m = re.search(r'"accepted":(\d+)', so)
            nacc += int(m.group(1)) if m else 0
            if rc == 0:
                continue
            sums = sorted(set(re.sub(r"0x[0-9a-f]+", "ADDR", x) for x in re.findall(r"SUMMARY: ThreadSanitizer: [^\n]*", se)))
            if rc == -9:
                why, key = "a real-thread run did not finish within 300 s", "hang"
            elif sums:
                why, key = "unsynchronised access on real threads", " | ".join(sums)
            else:
                why, key = "a real-thread run ended abnormally (exit %d)" % rc, "exit %d" % rc
            if key in seen:
                continue
            seen.add(key)
            ef = os.path.join(sc, "tsan_seed%d.stderr.txt" % a[0])
            open(ef, "w").write(se[-20000:])
            ck.violation({"where": "implementation", "reason": why, "what": key[:400], "run": "seed %d, %d threads, %d calls each, drop %d" % a}, [ef])
    ck.log("real threads under ThreadSanitizer: %d runs (2-4 producer threads, 2 KiB queue), %d messages accepted, %d distinct report(s)" % (len(runs), nacc, len(seen)))
    ck.cov["tsan_runs"] = len(runs)
    ck.cov["tsan_messages_accepted"] = nacc


def run(tier):
    ck = C.Check("C06")
    rng = random.Random(C.seed() * 7919 + 6)
    sc = C.scratch()
    thorough = tier == "thorough"
    exe = twr.build(os.path.join(sc, "twr_drv"), 256)
    F = lambda g, n: ("F", g, n)
    sig2 = {1: "u8", 3: "u8"}
    mc_progs = [
        ({"sigs": {1: "u8"}, "threads": [[F(1, 100), F(1, 100), ("U", 1)]], "closer": 0}, 0),
        ({"sigs": {1: "u8"}, "threads": [[F(1, 100), F(1, 100), F(1, 30)]], "closer": 2 - 1}, 1),
        ({"sigs": sig2, "threads": [[F(1, 100)], [F(3, 100), ("A", 3)]], "closer": 0}, 0),
    ]
    graph_progs = [
        ({"sigs": {1: "u8"}, "threads": [[F(1, 100), F(1, 100)]], "closer": 0}, 0, 3),
        ({"sigs": {1: "u8"}, "threads": [[F(1, 100), F(1, 100), ("D", 7)]], "closer": 1}, 1, 1),
    ]
    sim = None
    if thorough:
        mc_progs += [
            ({"sigs": sig2, "threads": [[F(1, 100), ("L",)], [F(3, 100), F(3, 60)]], "closer": 0}, 0),
            ({"sigs": sig2, "threads": [[F(1, 100), F(1, 90)], [F(3, 100), F(3, 60)]], "closer": 0}, 1),
            ({"sigs": {1: "u8", 3: "u8", 5: "u8"}, "threads": [[F(1, 100)], [F(3, 100)], [F(5, 60)]], "closer": 0}, 0),
        ]
        graph_progs += [
            ({"sigs": sig2, "threads": [[F(1, 100)], [F(3, 100)]], "closer": 0}, 0, 2),
            ({"sigs": {1: "u8"}, "threads": [[F(1, 100), ("O", 1, 1), F(1, 100), ("A", 1)]], "closer": 0}, 0, 2),
        ]
        sim = ({"sigs": sig2, "threads": [[F(1, 100), ("A", 1), F(1, 90), ("U", 1)], [F(3, 100), ("D", 33), F(3, 60)]], "closer": 0},
               0, 2500, 1500)
    twr.run_campaign(ck, "C06", sc, exe, rng, mc_progs, graph_progs, 15000 if thorough else 300, sim=sim)
    tsan_part(ck, sc, thorough)
    return ck.finish()
