"""C06 - threaded writer applies accepted calls exactly once, in order, on any schedule.

MC : Twr.tla (one step per pthread operation of a thread, the queue decisions of msg_ring_buffer.c, virtual time),
     complete state space of small programs: applied is a prefix of accepted in enqueue order, return codes agree
     with what was queued.
RP : every edge of the complete state graph of small programs (real time constants) is executed on the real
     jls_twr_* under the cooperative scheduler harness/sched_shim.c; thorough adds TLC simulation behaviours.
TV : those runs plus random programs under seeded priority schedules are judged by TwrContractTrace.tla (tier A:
     exactly once / in order / bytes intact / lock discipline / content equals the synchronous reference) and
     compared step by step with Twr.tla (TwrTrace.tla, tier B; deviation = MODEL-DRIFT, not a violation)."""
import os
import random

import common as C
import twr


def run(tier):
    ck = C.Check("C06")
    rng = random.Random(C.seed() * 7919 + 6)
    sc = C.scratch()
    thorough = tier == "thorough"
    exe = twr.build(os.path.join(sc, "twr_drv"), 256)
    F = lambda g, n: ("F", g, n)
    sig2 = {1: "u8", 3: "u8"}
    mc_progs = [
        ({"sigs": {1: "u8"}, "threads": [[F(1, 100), F(1, 100), ("U", 1)]], "closer": 0}, 0),
        ({"sigs": {1: "u8"}, "threads": [[F(1, 100), F(1, 100), F(1, 30)]], "closer": 2 - 1}, 1),
        ({"sigs": sig2, "threads": [[F(1, 100)], [F(3, 100), ("A", 3)]], "closer": 0}, 0),
    ]
    graph_progs = [
        ({"sigs": {1: "u8"}, "threads": [[F(1, 100), F(1, 100)]], "closer": 0}, 0, 3),
        ({"sigs": {1: "u8"}, "threads": [[F(1, 100), F(1, 100), ("D", 7)]], "closer": 1}, 1, 1),
    ]
    sim = None
    if thorough:
        mc_progs += [
            ({"sigs": sig2, "threads": [[F(1, 100), ("L",)], [F(3, 100), F(3, 60)]], "closer": 0}, 0),
            ({"sigs": sig2, "threads": [[F(1, 100), F(1, 90)], [F(3, 100), F(3, 60)]], "closer": 0}, 1),
            ({"sigs": {1: "u8", 3: "u8", 5: "u8"}, "threads": [[F(1, 100)], [F(3, 100)], [F(5, 60)]], "closer": 0}, 0),
        ]
        graph_progs += [
            ({"sigs": sig2, "threads": [[F(1, 100)], [F(3, 100)]], "closer": 0}, 0, 2),
            ({"sigs": {1: "u8"}, "threads": [[F(1, 100), ("O", 1, 1), F(1, 100), ("A", 1)]], "closer": 0}, 0, 2),
        ]
        sim = ({"sigs": sig2, "threads": [[F(1, 100), ("A", 1), F(1, 90), ("U", 1)], [F(3, 100), ("D", 33), F(3, 60)]], "closer": 0},
               0, 2500, 1500)
    twr.run_campaign(ck, "C06", sc, exe, rng, mc_progs, graph_progs, 15000 if thorough else 300, sim=sim)
    return ck.finish()
