"""C03 - a writer stopped at any point leaves a file that reopens to a correct prefix.

MC : JlsLinks.tla - the writer's per-write steps (complete chunk, then in-place link patch, then
     head-table patch): after ANY prefix of the backend writes every pointer on disk is 0 or
     leads to a chunk that is completely on disk (the ordering C03 rests on), and the lists and
     heads are well-formed between calls.
TV : generated writer programs (1-3 signals of any type, 1-4 summary levels, omission,
     annotations/UTC/user data interleaved, late definitions) run once with the backend
     interposed; for every backend write boundary (quick: every third on some programs) and for
     byte prefixes of writes (1, 8, 16, len/2, len-1; thorough: every byte of writes <= 40 bytes)
     the crash image is rebuilt from the log and opened by the REAL reader in a child process
     (watchdog 10 s): termination, return code, lengths, all samples (candidate runs),
     annotations, UTC, user data are judged by JlsCrash.tla against everything submitted up to
     the interrupted call; for stops between two writes with all definitions on disk the open must
     succeed and lose no more than the block in flight."""
import random

import apicheck
import common as C
import crashcheck


def run(tier):
    ck = C.Check("C03")
    rng = random.Random(C.seed() * 7919 + 3)
    thorough = tier == "thorough"
    C.build("so")
    r = C.tlc("JlsLinks", "JlsLinks_mc.cfg", timeout=1200)
    if not ck.add_mc("JlsLinks per-write steps MaxChunks=6 (pointers valid after any prefix of writes)", r):
        ck.violation({"where": "model", "config": "JlsLinks_mc", "invariant": r.violated})
    crashcheck.repair_model(ck, thorough)
    P = crashcheck.crash_programs(rng, 160 if thorough else 40, thorough, "c03", ck=ck)
    trace, v, nobs = crashcheck.run_crash(ck, P, "c03", {"C03", "C19", "C10"})
    crashcheck.repair_conformance(ck, trace, "C03")
    crashcheck.ts_repair_conformance(ck, trace, "C03")
    ck.cov["distinct_nontrivial"] = sum(1 for l in open(trace) if l.startswith('{"e":"CrashObs"') and '"modified":true' in l)
    ck.cov["rule"] = "one case per crash image (k complete backend writes + j bytes of the next); non-trivial = the open repaired the image (modified it)"
    ck.cov["samples"] = [l.strip()[:260] for l in open(trace) if l.startswith('{"e":"CrashObs"') and '"modified":true' in l][:2]
    ck.assumptions += ["crash = the file holds exactly a prefix of the byte stream of backend writes (no reordering, no lost earlier write)",
                       "statistics of repaired files are not compared entry by entry (samples, lengths, annotations, UTC, user data are)"]
    return ck.finish()
