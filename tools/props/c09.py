"""C09 - gaps read back as fill values, overlapping writes keep the first-written samples.

MC : JlsApiGen.tla - every short history of appending / skipping / overlapping writes:
     the sample store stays contiguous, length = last+1-first, the first writer of a
     position wins, gaps are fill; the read verdict accepts exactly that.
TV : generated programs with gaps and overlaps for all types (gap lengths from 1 to
     several blocks and beyond the writer's 32 KiB fill buffer; overlaps partial, total,
     sub-byte-unaligned; sequences of several gaps/overlaps), read back with windows
     aimed at the seams; judged by JlsApiTrace.tla."""
import random

import apicheck
import common as C
import progs


def big_gap_program(x, dt, gap):
    spd, sdf = (1000, 100)
    ops = [{"op": "wopen"}, {"op": "source", "id": 1, "name": ["lit", "s"]},
           {"op": "signal", "id": 1, "src": 1, "dt": dt, "rate": 1000, "spd": spd, "sdf": sdf, "eps": 100, "sumdf": 10,
            "name": ["lit", "gap"], "units": ["lit", "u"]},
           {"op": "fsr", "sig": 1, "id": 0, "n": 777}, {"op": "fsr", "sig": 1, "id": 777 + gap, "n": 555},
           {"op": "fsr", "sig": 1, "id": 777 + gap + 555 - 100, "n": 300},
           {"op": "wclose"}, {"op": "ropen"}, {"op": "len", "sig": 1}]
    L = 777 + gap + 555 + 200
    for (s, n) in [(0, L), (770, 20), (777 + gap - 5, 10), (777 + gap // 2, 33), (L - 250, 250)]:
        ops.append({"op": "rd", "sig": 1, "start": s, "n": n})
    ops.append({"op": "rclose"})
    n = progs.normalise(dt, spd, sdf, 100, 10)
    return {"x": x, "kind": "c09-biggap", "feat": ["gap", "gap-" + dt, "big-gap", "overlap", "type-" + dt], "ops": ops,
            "model": {"sigs": {"1": {"dt": dt, "bits": progs.WIDTH[dt], "norm": list(n), "length": L}}}}


def overlap_program(x, dt, n1, ov, n2, first=0):
    """A partial overlap of `ov` samples at a chosen (also sub-byte unaligned) position, then the whole signal read back."""
    spd, sdf = (1000, 100)
    ops = [{"op": "wopen"}, {"op": "source", "id": 1, "name": ["lit", "s"]},
           {"op": "signal", "id": 1, "src": 1, "dt": dt, "rate": 1000, "spd": spd, "sdf": sdf, "eps": 100, "sumdf": 10,
            "name": ["lit", "ov"], "units": ["lit", "u"]},
           {"op": "fsr", "sig": 1, "id": first, "n": n1}, {"op": "fsr", "sig": 1, "id": first + n1 - ov, "n": n2},
           {"op": "fsr", "sig": 1, "id": first + n1 - ov + n2, "n": 40},
           {"op": "wclose"}, {"op": "ropen"}, {"op": "len", "sig": 1}]
    L = n1 - ov + n2 + 40
    for (s_, n_) in [(0, L), (max(0, n1 - ov - 3), min(L, 30)), (n1 - 1, min(20, L - n1 + 1)), (L - 40, 40)]:
        ops.append({"op": "rd", "sig": 1, "start": s_, "n": n_})
    ops.append({"op": "rclose"})
    n = progs.normalise(dt, spd, sdf, 100, 10)
    return {"x": x, "kind": "c09-overlap", "feat": ["overlap", "overlap-" + dt, "type-" + dt], "ops": ops,
            "model": {"sigs": {"1": {"dt": dt, "bits": progs.WIDTH[dt], "norm": list(n), "length": L}}}}


def run(tier):
    ck = C.Check("C09")
    rng = random.Random(C.seed() * 7919 + 9)
    thorough = tier == "thorough"
    C.build("so")
    r = C.tlc("JlsApiGen", "JlsApiGen_mc.cfg", timeout=1200, heap="8g")
    if not ck.add_mc("JlsApiGen MaxCalls=4 (gap/overlap arithmetic of the contract)", r):
        ck.violation({"where": "model", "config": "JlsApiGen_mc", "invariant": r.violated})
    P = []
    types = progs.ALL_TYPES
    n = 20000 if thorough else 220
    for i in range(n):
        p, model = progs.gen_writer_program(rng, i + 1, kind="c09", types=[types[i % len(types)]], nsig=1, gaps=True, overlaps=True,
                                            omit=False, annos=False, utc=False, userdata=False, late_defs=False,
                                            maxlen=20000 if thorough else 6000, allow_odd_u4=True)
        p["ops"] += progs.reader_ops(rng, model, nreads=24 if thorough else 14, with_defs=False)
        p["model"] = progs.model_json(model)
        P.append(p)
    for dt in (["u16", "i32", "f32", "f64", "u64", "u8", "u1"] if thorough else ["u16", "f32", "i64", "u4"]):
        P.append(big_gap_program(len(P) + 1, dt, 40000 if progs.WIDTH[dt] >= 8 else 300000))
    # gaps in structured float / integer streams: the stored summary entries (lifted from the file) treat the gap
    # samples of float signals as absent
    for i, dt in enumerate(["f32", "f64", "f32", "f64", "u16", "i32"] * (3 if thorough else 1)):
        q, model = progs.gen_writer_program(rng, len(P) + 1, kind="c09-sum", types=[dt], nsig=1, gaps=True, overlaps=(i % 2 == 1),
                                            omit=False, annos=False, utc=False, userdata=False, late_defs=False,
                                            maxlen=6000, gens=[["ramp", 7], ["ramp", 13], ["bit", 5], ["ramp", 100]])
        q["ops"] += progs.reader_ops(rng, model, nreads=4, with_defs=False)
        q["ops"].append({"op": "sumvals", "file": "a"})
        q["model"] = progs.model_json(model)
        P.append(q)
    # a gap that covers exactly one whole level-1 entry, the first of a level-2 group (and one in the middle of a group)
    for dt in ("f32", "f64"):
        nspd, nsdf, neps, nsum = progs.normalise(dt, 10, 10, 10, 10)
        g2 = nsdf * nsum
        ops = [{"op": "wopen"}, {"op": "source", "id": 1, "name": ["lit", "s"]},
               {"op": "signal", "id": 1, "src": 1, "dt": dt, "rate": 1000, "spd": 10, "sdf": 10, "eps": 10, "sumdf": 10,
                "name": ["lit", "g"], "units": ["lit", "u"]},
               {"op": "fsr", "sig": 1, "id": 0, "n": 2 * g2, "gen": ["ramp", 13]},
               {"op": "fsr", "sig": 1, "id": 2 * g2 + nsdf, "n": 3 * g2 + 5 * nsdf - nsdf, "gen": ["ramp", 13]},
               {"op": "fsr", "sig": 1, "id": 5 * g2 + 6 * nsdf, "n": 30 * g2, "gen": ["ramp", 13]},
               {"op": "wclose"}, {"op": "ropen"}, {"op": "len", "sig": 1}, {"op": "rd", "sig": 1, "start": 2 * g2 - 4, "n": nsdf + 8},
               {"op": "rclose"}, {"op": "sumvals", "file": "a"}]
        L = 5 * g2 + 6 * nsdf + 30 * g2
        P.append({"x": len(P) + 1, "kind": "c09-sum", "feat": ["gap", "gap-" + dt, "type-" + dt, "aligned-gap"], "ops": ops,
                  "model": {"sigs": {"1": {"dt": dt, "bits": progs.WIDTH[dt], "norm": [nspd, nsdf, neps, nsum], "length": L}}}})
    # overlaps whose length is not a whole number of bytes, before / at / after block boundaries, for every narrow type
    for dt in ["u1", "u4", "i4"] + (["u8", "u16", "f32"] if thorough else ["u8"]):
        per = max(1, 8 // progs.WIDTH[dt])
        for (n1, ov, n2) in [(100, 5, 37), (100, 1, 9), (1995, 3, 20), (1000, 7, 1200), (64, 63, 70)] + ([(33, 2, 5), (2001, 1, 3)] if thorough else []):
            P.append(overlap_program(len(P) + 1, dt, n1, ov, n2, first=0 if (n1 + ov) % 2 else 3))
    trace, v, other = apicheck.run_api(ck, P, "c09", {"C01", "C09"})
    ngap = sum(1 for p in P if "gap" in p["feat"])
    nov = sum(1 for p in P if "overlap" in p["feat"])
    ck.cov["distinct_nontrivial"] = sum(1 for l in open(trace) if l.startswith('{"e":"RdFsr"') and ('"c":[0]' in l))
    ck.cov["programs_with_gap"] = ngap
    ck.cov["programs_with_overlap"] = nov
    ck.cov["rule"] = ("one case per read window of a program with gaps/overlaps; non-trivial = a successful read that returned "
                      "at least one run of fill values (i.e. crossed a gap)")
    ck.cov["samples"] = [l.strip()[:300] for l in open(trace) if l.startswith('{"e":"RdFsr"') and '"c":[0]' in l][:3]
    ck.assumptions += ["NaN fill is recognised as any NaN bit pattern", "summary clause of C09 (gap samples absent from float summaries) is judged in C02's check"]
    return ck.finish()
