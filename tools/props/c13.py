"""C13 - definitions and user data round-trip; identity rules are enforced.

MC : JlsApiDefs.tla - all orders of defining sources/signals with duplicates,
     missing sources and data for undefined signals: a refused call leaves the
     abstract state unchanged, ids stay unique, enumeration is in id order.
TV : generated programs (ids from {1,2,3,100,254,255} and invalid {0,256,257,65535};
     absent/empty/UTF-8/long strings up to >2 MiB; user data 0 B..3 MB, tags to 0xffff,
     all storage types; late definitions; data/annotations/UTC for undefined signals)
     executed on the real library; return codes, 'no backend write during a refused
     call', jls_rd_sources/signals/signal/user_data judged by JlsApiTrace.tla with the
     normalised parameters computed by SigDef.tla."""
import random

import apicheck
import common as C
import progs


def run(tier):
    ck = C.Check("C13")
    rng = random.Random(C.seed() * 7919 + 13)
    thorough = tier == "thorough"
    C.build("so")
    r = C.tlc("JlsApiDefs", "JlsApiDefs_mc.cfg", timeout=1200, heap="8g")
    if not ck.add_mc("JlsApiDefs (definition identity rules of the contract)", r):
        ck.violation({"where": "model", "config": "JlsApiDefs_mc", "invariant": r.violated})
    P = []
    n = 20000 if thorough else 300
    for i in range(n):
        P.append(progs.gen_defs_program(rng, i + 1, big=(i % 12 == 0)))
    # histories from the shape graph (spec/JlsShapes.tla): definitions and user data (empty items included) next to
    # every combination of tracks
    import shapes
    for q, model in shapes.programs(ck, rng, "c13-shape", thorough, 12000 if thorough else 500, x0=len(P)):
        q["ops"] += shapes.reader_ops(rng, model, nreads=0)
        q["model"] = progs.model_json(model)
        P.append(q)
    trace, v, other = apicheck.run_api(ck, P, "c13", {"C13"})
    ck.cov["distinct_nontrivial"] = sum(1 for p in P if set(p["feat"]) & {"dup-source", "dup-signal", "missing-source", "data-for-undefined", "bad-source-id", "big-string", "big-userdata"})
    ck.cov["rule"] = ("one case per generated definition/user-data program; non-trivial = it contains at least one duplicate definition, "
                      "missing source, invalid id, data for an undefined signal, or a string/user-data item above 1 MiB")
    ck.cov["samples"] = [l.strip()[:300] for l in open(trace) if l.startswith('{"e":"RdSignals"')][:2]
    ck.assumptions += ["strings and payloads are compared through 64-bit BLAKE2 tokens (short printable strings literally)",
                       "definition parameters stay below 2^31 here; the wrap-around region is C16's check"]
    return ck.finish()
