"""Independent decoder ("lifter") of the JLS file format, written from
include/jls/format.h only.  Turns a file image, or the sequence of backend
writes that produced it, into abstract events for the JlsFile* trace
specifications.  Pure syntax: it decodes and reports, TLC judges."""
import bisect
import ctypes as ct
import os
import struct
import subprocess

import numpy as np

ROOT = os.path.dirname(os.path.dirname(os.path.abspath(__file__)))
IDENT = bytes([0x6a, 0x6c, 0x73, 0x66, 0x6d, 0x74, 0x0d, 0x0a, 0x20, 0x0a, 0x20, 0x1a, 0x20, 0x20, 0xb2, 0x1c])

TAG_SOURCE, TAG_SIGNAL, TAG_USER, TAG_END = 0x01, 0x02, 0x40, 0xFF
TRACK_FSR, TRACK_VSR, TRACK_ANNO, TRACK_UTC = 0, 1, 2, 3
CH_DEF, CH_HEAD, CH_DATA, CH_INDEX, CH_SUMMARY = 0, 1, 2, 3, 4

_crc = None


def crc32c(b):
    global _crc
    if _crc is None:
        so = os.path.join(os.environ.get("JLS_BUILD_DIR") or os.path.join(ROOT, "build"), "libcrcref.so")
        if not os.path.exists(so):
            os.makedirs(os.path.dirname(so), exist_ok=True)
            tmp = "%s.%d" % (so, os.getpid())      # several worker processes may get here at once
            subprocess.check_call(["gcc", "-O2", "-shared", "-fPIC", os.path.join(ROOT, "harness", "crc_ref.c"), "-o", tmp])
            os.replace(tmp, so)
        lib = ct.CDLL(so)
        lib.crcref.argtypes = [ct.c_char_p, ct.c_size_t]
        lib.crcref.restype = ct.c_uint32
        _crc = lib.crcref
    return _crc(bytes(b), len(b))


def tag_info(tag):
    """tag -> (kind, track_type, chunk_kind); kind in source/signal/user/end/track/unknown"""
    if tag == TAG_SOURCE:
        return ("source", -1, -1)
    if tag == TAG_SIGNAL:
        return ("signal", -1, -1)
    if tag == TAG_USER:
        return ("user", -1, -1)
    if tag == TAG_END:
        return ("end", -1, -1)
    if (tag & 0xE0) == 0x20 and (tag & 7) <= 4:
        return ("track", (tag >> 3) & 3, tag & 7)
    return ("unknown", -1, -1)


def disk_size(plen):
    if plen == 0:
        return 0
    pad = (plen + 4) & 7
    if pad:
        pad = 8 - pad
    return plen + pad + 4


def parse_hdr(b):
    nxt, prv, tag, rsv, meta, plen, pprev, c = struct.unpack("<QQBBHIII", b)
    return {"next": nxt, "prev": prv, "tag": tag, "rsv": rsv, "meta": meta, "plen": plen, "pprev": pprev, "crc": c,
            "crc_ok": crc32c(b[:28]) == c}


def parse_file_header(b):
    if len(b) < 32:
        return {"present": False}
    length, ver, c = struct.unpack("<QII", b[16:32])
    return {"present": True, "ident_ok": b[:16] == IDENT, "length": length, "major": ver >> 24, "minor": (ver >> 16) & 0xff,
            "patch": ver & 0xffff, "crc_ok": crc32c(b[:28]) == c}


def parse_image(img):
    """Forward walk by payload_length.  Returns (file header, [chunk dict], stop reason).
    Each chunk: off, header fields, pad0 (padding all zero), pcrc_ok, payload (bytes)."""
    fh = parse_file_header(img[:32])
    chunks = []
    off = 32
    why = "eof"
    n = len(img)
    while off < n:
        if off + 32 > n:
            why = "partial header at %d" % off
            break
        h = parse_hdr(img[off:off + 32])
        if not h["crc_ok"]:
            why = "bad header crc at %d" % off
            break
        sz = disk_size(h["plen"])
        if off + 32 + sz > n:
            why = "partial payload at %d" % off
            break
        body = img[off + 32:off + 32 + sz]
        payload = body[:h["plen"]]
        h["off"] = off
        h["payload"] = payload
        if sz:
            padb = body[h["plen"]:sz - 4]
            h["pad0"] = all(x == 0 for x in padb)
            h["pcrc_ok"] = struct.unpack("<I", body[sz - 4:])[0] == crc32c(payload)
        else:
            h["pad0"] = True
            h["pcrc_ok"] = True
        chunks.append(h)
        off += 32 + sz
    return fh, chunks, why



def _list_key(c):
    """the item list a chunk belongs to (spec/JlsFormat.tla ListKey), as a string"""
    kind, tt, ck = tag_info(c["tag"])
    if kind == "source":
        return "src"
    if kind == "signal" or (kind == "track" and ck in (0, 1)):
        return "sig"
    if kind == "user":
        return "ud"
    if kind == "track":
        return "trk:%d:%d" % (c["tag"], c["meta"])
    return "none"


def link_projection(chunks):
    """Where the links a reader can follow lead, as the set of distinct (list of the chunk that holds the link, list of
    the chunk the link leads to, leads forward) triples: every entry of every track head table, and item_next of every
    chunk that is REACHABLE: the first source / signal / user-data chunk of the file, the chunks head entries lead to,
    the SUMMARY behind a reachable INDEX, the chunks the entries of a reachable INDEX lead to (those links are part of
    the projection too: they lead backward to a chunk of the level below), and whatever item_next leads to from those.  A chunk no list leads to any
    more (a dead chunk left by a repair) may keep a stale item_next.  'nochunk' = no chunk starts at that offset.
    No judgement here (spec/JlsCrash.tla LinksLead)."""
    byoff = {c["off"]: c for c in chunks}
    out = set()
    start = []
    seen_first = set()
    for i, c in enumerate(chunks):
        kind, tt, ck = tag_info(c["tag"])
        lk = _list_key(c)
        if lk in ("src", "sig", "ud") and lk not in seen_first:
            seen_first.add(lk)
            start.append(c["off"])
        if kind == "track" and ck == 1 and c["pcrc_ok"] and len(c["payload"]) == 128:
            g = c["meta"] & 0xfff
            for lvl, o in enumerate(struct.unpack("<16Q", c["payload"])):
                if o:
                    d = byoff.get(o)
                    want = "trk:%d:%d" % (0x20 | (tt << 3) | (2 if lvl == 0 else 3), (lvl << 12) | g)
                    out.add((want, _list_key(d) if d else "nochunk", True))
                    if d:
                        start.append(o)
    nextphys = {chunks[i]["off"]: chunks[i + 1] for i in range(len(chunks) - 1)}
    reach = set()
    todo = list(start)
    while todo:
        o = todo.pop()
        if o in reach or o not in byoff:
            continue
        reach.add(o)
        c = byoff[o]
        kind, tt, ck = tag_info(c["tag"])
        if kind == "track" and ck == 3:
            n = nextphys.get(o)
            if n is not None and tag_info(n["tag"])[0] == "track" and tag_info(n["tag"])[2] == 4:
                todo.append(n["off"])
            # the entries of a reachable INDEX: each leads (backward) to a DATA chunk (level 1) / INDEX chunk of the level below
            pl = c["payload"]
            lvl, g = c["meta"] >> 12, c["meta"] & 0xfff
            if c["pcrc_ok"] and len(pl) >= 16 and lvl >= 1 and tt in (0, 2, 3):
                cnt = struct.unpack("<I", pl[8:12])[0]
                if tt == 0 and len(pl) >= 16 + 8 * cnt:
                    ents = struct.unpack("<%dQ" % cnt, pl[16:16 + 8 * cnt])
                elif tt != 0 and len(pl) >= 16 + 16 * cnt:
                    ents = [struct.unpack("<q", pl[16 + 16 * i + 8:32 + 16 * i])[0] for i in range(cnt)]
                else:
                    ents = []
                want = "trk:%d:%d" % (0x20 | (tt << 3) | (2 if lvl == 1 else 3), ((lvl - 1) << 12) | g)
                for e_ in ents:
                    if e_:
                        d = byoff.get(e_)
                        out.add((want, _list_key(d) if d else "nochunk", bool(e_ < o)))
                        if d:
                            todo.append(e_)
        if c["next"]:
            d = byoff.get(c["next"])
            out.add((_list_key(c), _list_key(d) if d else "nochunk", bool(c["next"] > c["off"])))
            if d:
                todo.append(c["next"])
    return [{"f": f, "t": t, "fw": fw} for (f, t, fw) in sorted(out)]


def _strings(b, pos, count):
    out = []
    for _ in range(count):
        j = b.find(b"\0", pos)
        if j < 0:
            return None, pos
        s = b[pos:j]
        pos = j + 1
        if pos < len(b) and b[pos] == 0x1f:
            pos += 1
        out.append(s)
    return out, pos


INT_MAX = 2147483647


def clip(v):
    return max(-INT_MAX, min(INT_MAX, int(v)))


def decode(ch, str_tok, fnv, bases=None):
    """Decode a chunk's payload by kind into a small JSON-able dict 'd'.
    bases: sig -> (base, tbase) for making 64-bit ids/times relative (TLC has 32-bit ints)."""
    bases = bases or {}
    kind, tt, ck = tag_info(ch["tag"])
    p = ch["payload"]
    sig = ch["meta"] & 0x0fff
    lvl = ch["meta"] >> 12
    base, tbase = bases.get(sig, (0, 0))
    d = {"kind": kind, "tt": tt, "ck": ck, "sig": sig if kind == "track" else -1, "lvl": lvl if kind == "track" else -1, "ok": True}
    try:
        if kind == "source":
            strs, _ = _strings(p, 64, 5)
            d["rsv0"] = all(x == 0 for x in p[:64])
            d["id"] = ch["meta"]
            d["s"] = [str_tok(s) for s in strs] if strs else []
            d["ok"] = strs is not None
        elif kind == "signal":
            src, st, _r, dt, rate, spd, sdf, eps, sumdf, adf, udf = struct.unpack("<HBBIIIIIIII", p[:36])
            strs, _ = _strings(p, 36 + 92, 2)
            d.update({"id": ch["meta"], "src": src, "st": st, "dtc": dt & 0xffff, "dtq": dt >> 16, "rate": clip(rate), "spd": clip(spd), "sdf": clip(sdf),
                      "eps": clip(eps), "sumdf": clip(sumdf), "adf": clip(adf), "udf": clip(udf),
                      "rsv0": all(x == 0 for x in p[36:128]) and _r == 0,
                      "name": str_tok(strs[0]) if strs else "?", "units": str_tok(strs[1]) if strs else "?"})
            d["ok"] = strs is not None
        elif kind == "user":
            d["meta12"] = ch["meta"] & 0x0fff
            d["st"] = ch["meta"] >> 12
            d["tok"] = fnv(p)
            d["size"] = len(p)
        elif kind == "end":
            pass
        elif kind == "track":
            if ck == CH_DEF:
                d["empty"] = len(p) == 0
            elif ck == CH_HEAD:
                d["ok"] = len(p) == 128
                d["heads"] = list(struct.unpack("<16Q", p)) if len(p) == 128 else []
            else:
                ts, cnt, esb, rsv = struct.unpack("<qIHH", p[:16])
                d.update({"ts": clip(ts - base), "cnt": cnt, "esb": esb, "rsv": rsv})
                body = p[16:]
                if ck == CH_DATA and tt == TRACK_FSR:
                    d["body"] = body        # removed by the caller after computing candidate runs
                    d["blen"] = len(body)
                elif ck == CH_INDEX and tt == TRACK_FSR:
                    d["ok"] = len(body) == 8 * cnt
                    d["offs"] = list(struct.unpack("<%dQ" % cnt, body[:8 * cnt])) if d["ok"] else []
                elif ck == CH_SUMMARY and tt == TRACK_FSR:
                    es = esb // 8
                    d["ok"] = es in (16, 32) and len(body) == es * cnt
                    d["ent"] = [body[i * es:(i + 1) * es].hex() for i in range(cnt)] if d["ok"] else []
                elif ck == CH_DATA and tt == TRACK_ANNO:
                    rsv1 = struct.unpack("<Q", p[8:16])[0]
                    at, stp, grp, r8, ybits, size = struct.unpack("<BBBBII", p[16:28])
                    data = p[28:28 + size]
                    d.update({"atype": at, "stype": stp, "group": grp, "size": size, "r8": r8,
                              "tok": fnv(struct.pack("<qBBBI", ts - base, at, stp, grp, ybits) + struct.pack("<I", len(data)) + data),
                              "tail": p[28 + size:].hex()[:8], "hdr1": cnt == 1})
                    d["ok"] = len(data) == size
                elif ck == CH_INDEX and tt in (TRACK_ANNO, TRACK_UTC, TRACK_VSR):
                    d["ok"] = len(body) == 16 * cnt
                    ent = struct.unpack("<" + "qQ" * cnt, body[:16 * cnt]) if d["ok"] else ()
                    d["ient"] = [[clip(ent[2 * i] - base), ent[2 * i + 1]] for i in range(len(ent) // 2)]
                elif ck == CH_SUMMARY and tt == TRACK_ANNO:
                    d["ok"] = len(body) == 16 * cnt
                    d["sent"] = []
                    for i in range(cnt if d["ok"] else 0):
                        t2, at, grp, r1, r2, yb = struct.unpack("<qBBBBI", body[16 * i:16 * i + 16])
                        d["sent"].append([clip(t2 - base), at, grp, yb >> 16, yb & 0xffff, r1 | r2])
                elif ck == CH_DATA and tt == TRACK_UTC:
                    d["ok"] = len(body) == 8
                    d["utc"] = clip(struct.unpack("<q", body[:8])[0] - tbase) if d["ok"] else 0
                elif ck == CH_SUMMARY and tt == TRACK_UTC:
                    d["ok"] = len(body) == 16 * cnt
                    ent = struct.unpack("<" + "qq" * cnt, body[:16 * cnt]) if d["ok"] else ()
                    d["uent"] = [[clip(ent[2 * i] - base), clip(ent[2 * i + 1] - tbase)] for i in range(len(ent) // 2)]
    except struct.error:
        d["ok"] = False
    return d


HDR_FIELDS = ("next", "prev", "tag", "rsv", "meta", "plen", "pprev", "crc")


class WriteLifter:
    """Replays a backend write log onto a shadow image and classifies every write."""

    def __init__(self):
        self.img = bytearray()
        self.starts = []          # offsets of chunks whose header has been appended
        self.hdrs = {}            # off -> header dict as first appended
        self.cursor = 32          # next chunk boundary for the append state machine
        self.pending = None       # (chunk off, remaining body bytes) while a payload is being appended
        self.events = []

    def chunk_at(self, off):
        i = bisect.bisect_right(self.starts, off) - 1
        if i < 0:
            return None
        c = self.starts[i]
        h = self.hdrs[c]
        if off < c + 32 + disk_size(h["plen"]):
            return c
        return None

    def complete(self, off):
        """is there a completely written chunk starting at off (header crc, payload crc valid now)?"""
        if off not in self.hdrs or off + 32 > len(self.img):
            return False
        h = parse_hdr(bytes(self.img[off:off + 32]))
        if not h["crc_ok"]:
            return False
        sz = disk_size(h["plen"])
        if off + 32 + sz > len(self.img):
            return False
        if sz == 0:
            return True
        body = bytes(self.img[off + 32:off + 32 + sz])
        return struct.unpack("<I", body[-4:])[0] == crc32c(body[:h["plen"]])

    def region(self, c, off):
        h = self.hdrs[c]
        r = off - c
        if r < 32:
            return "hdr"
        r -= 32
        if r < h["plen"]:
            return "payload"
        if r < disk_size(h["plen"]) - 4:
            return "pad"
        return "crc"

    def write(self, w, off, data, mark):
        n = len(data)
        size_before = len(self.img)
        ev = {"e": "BkWrite", "w": w, "off": off, "len": n, "size": size_before, "mark": mark}
        if off > size_before:
            ev["kind"] = "hole"
            self.img.extend(b"\0" * (off - size_before))
        if off >= size_before:
            ev["kind"] = ev.get("kind", "append")
            self.img.extend(data)
            ev["pieces"] = self._append_pieces(off, data)
        elif off == 0 and n == 32 and size_before >= 32:
            old = bytes(self.img[0:32])
            self.img[0:32] = data
            fh = parse_file_header(bytes(data))
            ev["kind"] = "filehdr"
            ev["fh"] = {"ident_ok": fh["ident_ok"], "crc_ok": fh["crc_ok"], "len_eq_size": fh["length"] == len(self.img),
                        "len0": fh["length"] == 0, "major": fh["major"]}
        else:
            ev["kind"] = "overwrite"
            end = off + n
            old = bytes(self.img[off:min(end, size_before)])
            grow = max(0, end - size_before)
            ev["grow"] = grow
            new = bytes(data)
            self.img[off:off + n] = new
            changed = [i for i in range(len(old)) if old[i] != new[i]]
            touch = []
            # classify the whole extent and the changed bytes by chunk region
            cs = sorted({self.chunk_at(off + i) for i in (0, n - 1)} | {self.chunk_at(off + i) for i in changed}, key=lambda v: -1 if v is None else v)
            for c in cs:
                if c is None:
                    touch.append({"chunk": -1, "tag": 0, "meta": 0, "regions": ["filehdr" if off < 32 else "unknown"], "whole_hdr": False,
                                  "hdr_crc_ok": True, "fields": [], "is_head": False, "heads": [], "pcrc_ok": True})
                    continue
                h0 = self.hdrs[c]
                regs = sorted({self.region(c, off + i) for i in changed if self.chunk_at(off + i) == c})
                t = {"chunk": c, "tag": h0["tag"], "meta": h0["meta"], "regions": regs, "whole_hdr": off == c and n == 32,
                     "hdr_crc_ok": True, "fields": [], "is_head": False, "heads": [], "pcrc_ok": True}
                if "hdr" in regs or (off == c and n == 32):
                    oh = parse_hdr(old[c - off:c - off + 32]) if c >= off and c + 32 <= off + len(old) else None
                    nh = parse_hdr(bytes(self.img[c:c + 32]))
                    t["hdr_crc_ok"] = nh["crc_ok"]
                    t["fields"] = [f for f in HDR_FIELDS if oh is not None and oh[f] != nh[f]]
                    t["next_to"] = nh["next"]
                    t["next_from"] = oh["next"] if oh else -1
                    tgt = nh["next"]
                    t["next_target"] = self.describe(tgt)
                if "payload" in regs:
                    kind, tt, ck = tag_info(h0["tag"])
                    t["is_head"] = kind == "track" and ck == CH_HEAD
                    if t["is_head"] and h0["plen"] == 128:
                        o16 = struct.unpack("<16Q", old[c + 32 - off:c + 32 - off + 128]) if c + 32 >= off and c + 160 <= off + len(old) else None
                        n16 = struct.unpack("<16Q", bytes(self.img[c + 32:c + 160]))
                        t["heads"] = []
                        if o16 is not None:
                            for i in range(16):
                                if o16[i] != n16[i]:
                                    t["heads"].append({"lvl": i, "from0": o16[i] == 0, "target": self.describe(n16[i])})
                        else:
                            t["heads"] = [{"lvl": -1, "from0": False, "target": self.describe(0)}]
                if "crc" in regs or "pad" in regs or "payload" in regs:
                    t["pcrc_ok"] = self.complete(c)
                touch.append(t)
            ev["touch"] = touch
        self.events.append(ev)
        return ev

    def describe(self, off):
        """what is at file offset 'off' right now: a complete chunk? its tag/meta"""
        if off == 0:
            return {"zero": True, "exists": False, "tag": 0, "meta": 0}
        if off in self.hdrs and self.complete(off):
            h = parse_hdr(bytes(self.img[off:off + 32]))
            return {"zero": False, "exists": True, "tag": h["tag"], "meta": h["meta"]}
        return {"zero": False, "exists": False, "tag": 0, "meta": 0}

    def _append_pieces(self, off, data):
        """Which chunk headers became complete through this append (any write
        granularity: the image is parsed lazily from the last chunk boundary)."""
        pieces = []
        if off < 32:
            pieces.append({"chunk": -1, "part": "filehdr", "tag": 0, "meta": 0, "plen": 0, "crc_ok": True, "next0": True})
        if self.pending is not None:
            c, _ = self.pending
            if c + 32 + disk_size(self.hdrs[c]["plen"]) <= len(self.img):
                self.pending = None
                self.cursor = c + 32 + disk_size(self.hdrs[c]["plen"])
        while self.pending is None and self.cursor + 32 <= len(self.img):
            c = self.cursor
            h = parse_hdr(bytes(self.img[c:c + 32]))
            self.starts.append(c)
            self.hdrs[c] = h
            pieces.append({"chunk": c, "part": "hdr", "tag": h["tag"], "meta": h["meta"], "plen": h["plen"],
                           "crc_ok": h["crc_ok"], "next0": h["next"] == 0})
            end = c + 32 + disk_size(h["plen"])
            if end <= len(self.img):
                self.cursor = end
            else:
                self.pending = [c, end - len(self.img)]
        return pieces

    def truncate(self, w, length, mark):
        ev = {"e": "BkTruncate", "w": w, "len": length, "size": len(self.img), "mark": mark}
        del self.img[length:]
        # forget chunks beyond the new end
        while self.starts and self.starts[-1] >= length:
            self.hdrs.pop(self.starts.pop())
        self.cursor = length
        self.pending = None
        self.events.append(ev)
        return ev


def coalesce(entries):
    """merge consecutive contiguous writes on the same fd (write granularity is not
    part of any property; a payload and its footer are one logical write)"""
    out = []
    for e in entries:
        if (out and e["kind"] == 3 and out[-1]["kind"] == 3 and out[-1]["fd"] == e["fd"]
                and out[-1]["off"] + out[-1]["len"] == e["off"] and out[-1]["len"] == len(out[-1]["data"])
                and out[-1]["off"] < out[-1]["size_before"] and out[-1]["off"] + out[-1]["len"] <= out[-1]["size_before"]
                and e["off"] + e["len"] <= out[-1]["size_before"]):
            m = dict(out[-1])
            m["data"] = m["data"] + e["data"]
            m["len"] = m["len"] + e["len"]
            out[-1] = m
        else:
            out.append(e)
    return out


def lift_log(entries, path=None, merge=True):
    """entries: list from jlsdrv.read_iolog / in-memory.  Follows the fds opened writable on
    'path' (or any path if None).  Returns the WriteLifter (events, final image)."""
    wl = WriteLifter()
    fds = {}
    w = 0
    if merge:
        entries = coalesce(entries)
    for e in entries:
        k = e["kind"]
        if k == 1:   # open
            if path is None or e["data"] == path:
                fds[e["fd"]] = bool(e["len"])
                wl.events.append({"e": "BkOpen", "w": w, "writable": bool(e["len"]), "size": e["size_before"], "mark": e["mark"],
                                  "trunc": bool(e["off"] & os.O_TRUNC)})
                if e["off"] & os.O_TRUNC:
                    wl.img = bytearray()
                    wl.starts, wl.hdrs, wl.cursor, wl.pending = [], {}, 32, None
        elif e["fd"] in fds:
            if k == 2:
                wl.events.append({"e": "BkClose", "w": w, "size": len(wl.img), "mark": e["mark"]})
                del fds[e["fd"]]
            elif k == 3:
                wl.write(w, e["off"], e["data"], e["mark"])
            elif k == 4:
                wl.truncate(w, e["off"], e["mark"])
            elif k == 5:
                wl.events.append({"e": "BkSync", "w": w, "size": len(wl.img), "mark": e["mark"]})
        w += 1
    return wl
