#!/usr/bin/env python3
"""kf.py fixed <prop> <id> <commit-subject-prefix> <what>   |   kf.py known <prop> <id> <match-json> <what> [also,...]"""
import json, subprocess, sys
kf = json.load(open('/verif/known_findings.json'))
log = subprocess.check_output(['git', '-C', '/repo', 'log', '--format=%h %s']).decode().strip().split('\n')
def commit(prefix):
    for l in log:
        if l.split(' ', 1)[1].startswith('fix: ' + prefix):
            return l.split()[0]
    raise KeyError(prefix)
kind, prop, fid = sys.argv[1:4]
kf["findings"] = [f for f in kf["findings"] if f["id"] != fid]
if kind == "fixed":
    c = commit(sys.argv[4])
    kf["findings"].append({"property": prop, "id": fid, "status": "fixed", "commit": c,
                           "what": "fixed: property=%s %s %s" % (prop, c, sys.argv[5]), "match": {"never": "matches"}})
else:
    d = {"property": prop, "id": fid, "status": "known", "what": sys.argv[5], "match": json.loads(sys.argv[4])}
    if len(sys.argv) > 6:
        d["also"] = sys.argv[6].split(",")
    kf["findings"].append(d)
json.dump(kf, open('/verif/known_findings.json', 'w'), indent=1)
