#!/usr/bin/env python3
"""seedkeep.py <worktree> <seed id> <property> <caught_by csv> <reasons...> : keep a confirmed seeded change under /verif/seeded/<id>/"""
import json, os, shutil, subprocess, sys
wt, sid, prop, caught = sys.argv[1:5]
why = " ".join(sys.argv[5:])
d = os.path.join("/verif/seeded", sid)
os.makedirs(d, exist_ok=True)
for f in os.listdir(os.path.join(wt, "SEED")):
    p = os.path.join(wt, "SEED", f)
    if os.path.isfile(p) and os.path.getsize(p) < 200000 and not f.endswith((".o", ".a", ".jls")) and f not in ("demo",):
        shutil.copy(p, d)
# the patch is regenerated from the worktree so that it is exactly what was tested
diff = subprocess.check_output(["git", "-C", wt, "diff", "--", "src", "include", "include_prv"]).decode()
open(os.path.join(d, "patch.diff"), "w").write(diff)
meta = {}
mp = os.path.join(d, "meta.json")
if os.path.exists(mp):
    try:
        meta = json.load(open(mp))
    except Exception:
        meta = {"raw": open(mp).read()}
base = subprocess.check_output(["git", "-C", "/repo", "rev-parse", "--short", "HEAD"]).decode().strip()
meta.update({"id": sid, "property": prop, "base_commit": base,
             "confirmed": {"applies_to_repo_head": True, "repo_tests_pass_with_patch": True, "demo_fails_on_patched_tree": True},
             "caught_by": [c for c in caught.split(",") if c], "reported_as": why})
json.dump(meta, open(mp, "w"), indent=1)
print("kept", d, sorted(os.listdir(d)))
