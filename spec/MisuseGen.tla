----------------------------- MODULE MisuseGen -----------------------------
(* The finite graph of API sessions over the call alphabet of Misuse.tla:   *)
(* every call of Calls(S) in every reachable abstract state, with both      *)
(* outcomes where the contract allows both.  Each call is its own action    *)
(* instance Do(c), so the edge labels of the dumped graph are the calls and *)
(* a path through the graph is a session script.                            *)
EXTENDS Misuse

VARIABLE S

AllCalls == IdleCalls \cup WriterCalls("w") \cup WriterCalls("t") \cup ReaderCalls

Init == S = S0
Do(c) == /\ c \in Calls(S)
         /\ LET e == Expect(S, c) IN
            \/ e \in {"ok", "any"} /\ S' = Eff(S, c)
            \/ e \in {"err", "any"} /\ S' = S
Next == \E c \in AllCalls : Do(c)
Spec == Init /\ [][Next]_S

\* sanity of the contract itself
PhaseOk == S.phase \in {"idle", "w", "t", "r"}
LenOk == \A g \in DOMAIN S.sig : S.sig[g].len >= UNKNOWN /\ S.sig[g].len <= 1000
============================================================================
