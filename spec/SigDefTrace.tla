----------------------------- MODULE SigDefTrace -----------------------------
(* C16 on the implementation: rows of outputs of the real                      *)
(* jls_core_signal_def_align (applied once and twice) against the              *)
(* transcription and the relations of SigDef.tla.  Total style per row.        *)
EXTENDS SigDef, Json, IOUtils, TLC

TraceLog == ndJsonDeserialize(IOEnv.TRACE)
VARIABLES l, rej, npoints
vars == <<l, rej, npoints>>
Ev == TraceLog[l]
Init == l = 1 /\ rej = <<>> /\ npoints = 0

\* t = <<eps, sumdf, rc, o_spd, o_sdf, o_eps, o_sumdf, rc2, p_spd, p_sdf, p_eps, p_sumdf>>
PointVerdict(w, spd, sdf, t) ==
    LET def == [spd |-> spd, sdf |-> sdf, eps |-> t[1], sumdf |-> t[2], adf |-> 0, udf |-> 0]
        out == [spd |-> t[4], sdf |-> t[5], eps |-> t[6], sumdf |-> t[7]]
        again == [spd |-> t[9], sdf |-> t[10], eps |-> t[11], sumdf |-> t[12]]
    IN IF ~Acceptable(w, def) THEN (IF t[3] = 0 THEN "an unrepresentable definition was accepted" ELSE "")
       ELSE IF t[3] # 0 THEN "a representable definition was refused"
       ELSE IF ~Normalised(w, out) THEN "stored parameters violate a relation the format relies on"
       ELSE IF t[8] # 0 \/ again # out THEN "normalising normalised parameters changed them"
       ELSE LET n == Normalise(w, def) IN
            IF out # [spd |-> n.spd, sdf |-> n.sdf, eps |-> n.eps, sumdf |-> n.sumdf]
            THEN "stored parameters differ from the specified normalisation" ELSE ""

RowVerdict(ev) == LET bad == { i \in 1..Len(ev.tab) : PointVerdict(ev.w, ev.spd, ev.sdf, ev.tab[i]) # "" }
                  IN IF bad = {} THEN <<>>
                     ELSE LET i == CHOOSE k \in bad : \A j \in bad : k <= j
                          IN <<i, PointVerdict(ev.w, ev.spd, ev.sdf, ev.tab[i])>>

Step == /\ l <= Len(TraceLog) /\ l' = l + 1
        /\ IF Ev.e = "SigDefRow" THEN
              LET v == RowVerdict(Ev) IN
              /\ rej' = IF v = <<>> THEN rej ELSE Append(rej, <<Ev.x, l, v[2] \o " @" \o ToString(v[1])>>)
              /\ npoints' = npoints + Len(Ev.tab)
           ELSE UNCHANGED <<rej, npoints>>
Spec == Init /\ [][Step]_vars
Done == PrintT(<<"TRACE_RESULT", TLCGet("stats").diameter - 1, Len(TraceLog)>>)
Final == (l = Len(TraceLog) + 1) => PrintT(<<"TRACE_REJ", rej>>) /\ PrintT(<<"TRACE_INFO", npoints>>)
==========================================================================
