-------------------------------- MODULE CrcHD --------------------------------
(***************************************************************************)
(* C04, by linearity of the CRC: every alteration of at most three bits    *)
(* inside one protected region of N bytes (data + its 4-byte CRC) changes  *)
(* the check, decided exhaustively by TLC on the single-bit syndromes.     *)
(* An error pattern e is undetected iff Syn(e) = 0; Syn is linear over     *)
(* GF(2), so 2 bits escape iff two single-bit syndromes are equal and 3    *)
(* bits escape iff the XOR of two syndromes is a third one.                *)
(***************************************************************************)
EXTENDS Crc32c, FiniteSets, TLC

CONSTANT NBytes      \* protected data bytes (28 for chunk and file headers)

XorR(a, b) == <<a[1] ^^ b[1], a[2] ^^ b[2]>>

\* syndrome of a single flipped bit: in data byte b (0-based) bit k, or in the CRC field bit k (0..31)
DataSyn(b, k) == Advance(Table[2 ^ k], NBytes - 1 - b)
CrcSyn(k) == IF k < 16 THEN <<0, 2 ^ k>> ELSE <<2 ^ (k - 16), 0>>

Syndromes == { DataSyn(b, k) : b \in 0..(NBytes - 1), k \in 0..7 } \cup { CrcSyn(k) : k \in 0..31 }
NBits == NBytes * 8 + 32

ASSUME /\ PrintT(<<"CRCHD", NBytes, Cardinality(Syndromes)>>)
       \* 1 bit: no syndrome is zero; 2 bits: all syndromes distinct
       /\ <<0, 0>> \notin Syndromes
       /\ Cardinality(Syndromes) = NBits
       \* 3 bits: the XOR of two different syndromes is never a syndrome
       /\ \A s \in Syndromes : \A t \in Syndromes : s = t \/ XorR(s, t) \notin Syndromes

VARIABLE dummy
Spec == dummy = 0 /\ [][UNCHANGED dummy]_dummy
==========================================================================
