---------------------------- MODULE JlsTsRepair ----------------------------
(***************************************************************************)
(* Tier B: what the repairing open does to an annotation / UTC track        *)
(* (src/track.c: jls_track_repair_pointers), on top of the track writer     *)
(* model JlsTsWriter.tla.                                                   *)
(*                                                                         *)
(* An image is the first k chunks of the track (ordinals 1..k in file       *)
(* order) together with the links found in them:                            *)
(*   nx[i]   item_next of chunk i: 0, or the ordinal of a chunk; an ordinal *)
(*           > k is a DANGLING link (the chunk it names is not complete);   *)
(*   le[i]   for an INDEX chunk, where its last entry leads;                *)
(*   hd[l]   the head table: first DATA (l = 0) / INDEX (l >= 1) chunk.     *)
(* Two kinds of image:                                                      *)
(*   crash      the writer stopped after k chunks: links are those written  *)
(*              so far (a chunk is linked after it is complete, so nothing  *)
(*              dangles; the last chunk may not be attached yet);           *)
(*   truncated  a closed file cut after k chunks: links are final, so the   *)
(*              last chunk of every list and the head table may dangle.     *)
(*                                                                         *)
(* The repair walks the levels top-down.  On a level >= 1 it follows the    *)
(* INDEX list; an INDEX counts only with the SUMMARY that follows it        *)
(* physically.  When the list ends or breaks it cuts the list behind the    *)
(* last good INDEX (item_next := 0 in INDEX and SUMMARY) and continues one  *)
(* level down at the chunk that INDEX's last entry leads to; without a good *)
(* INDEX the level's head entry is cleared and the level below restarts at  *)
(* its own head.  On level 0 it follows the DATA list and cuts it behind    *)
(* the last readable chunk (fix 0a709a2: the cut is written to that chunk,  *)
(* and a head entry whose first chunk is unreadable is cleared).            *)
(***************************************************************************)
EXTENDS JlsTsWriter, FiniteSets

TsTop == 15
Readable(I, o) == o \in 1..I.k

\* ---- the walk (a transcription of jls_track_repair_pointers)
RECURSIVE WalkData(_, _, _, _)
WalkData(I, R, o, data) ==
    IF o = 0 THEN R
    ELSE IF ~Readable(I, o)
         THEN IF data # 0 THEN [R EXCEPT !.cut = @ \cup {data}]
              ELSE IF o = R.hd[0] THEN [R EXCEPT !.hd[0] = 0] ELSE R
    ELSE WalkData(I, R, I.nx[o], o)

RECURSIVE WalkLevel(_, _, _, _, _, _)
WalkLevel(I, R, level, o, idx, desc) ==
    IF level = 0 THEN WalkData(I, R, o, 0)
    ELSE LET good == Readable(I, o) /\ Readable(I, o + 1)     \* INDEX and the SUMMARY behind it
             idx1 == IF good THEN o ELSE idx
             desc1 == IF good THEN I.le[o] ELSE desc
             o1 == IF good THEN I.nx[o] ELSE o
         IN IF good /\ o1 # 0 THEN WalkLevel(I, R, level, o1, idx1, desc1)
            ELSE IF desc1 # 0 /\ idx1 # 0
                 THEN WalkLevel(I, [R EXCEPT !.cut = @ \cup {idx1, idx1 + 1}], level - 1, desc1, 0, 0)
                 ELSE WalkLevel(I, [R EXCEPT !.hd[level] = 0], level - 1, R.hd[level - 1], 0, 0)

TopLevel(I) == IF \E l \in 1..TsTop : I.hd[l] # 0 THEN CHOOSE l \in 1..TsTop : I.hd[l] # 0 /\ \A m \in (l + 1)..TsTop : I.hd[m] = 0 ELSE 0

TsRepair(I) ==
    LET R0 == [hd |-> I.hd, cut |-> {}]
        top == TopLevel(I)
        R == WalkLevel(I, R0, top, I.hd[top], 0, 0)
    IN [hd |-> R.hd, nx |-> [i \in 1..I.k |-> IF i \in R.cut THEN 0 ELSE I.nx[i]]]

\* ---- images of the writer model's chunk sequence
SameList(a, b) == a.tag = b.tag /\ a.lvl = b.lvl
NextOf(out, i, lim) == LET S == { j \in (i + 1)..lim : SameList(out[j], out[i]) } IN IF S = {} THEN 0 ELSE CHOOSE j \in S : \A z \in S : j <= z
FirstOf(out, tag, l, lim) == LET S == { j \in 1..lim : out[j].tag = tag /\ out[j].lvl = l } IN IF S = {} THEN 0 ELSE CHOOSE j \in S : \A z \in S : j <= z

\* lim = how far links were written: k (crash, last chunk attached), k - 1 (crash, last chunk not attached; a SUMMARY
\* is found behind its INDEX anyway), Len(out) (truncated closed file)
ImgTs(out, k, lim) ==
    [k |-> k, tag |-> [i \in 1..k |-> out[i].tag], lvl |-> [i \in 1..k |-> out[i].lvl],
     nx |-> [i \in 1..k |-> NextOf(out, i, lim)],
     le |-> [i \in 1..k |-> IF out[i].tag = "I" /\ out[i].ent # <<>> THEN out[i].ent[Len(out[i].ent)][2] ELSE 0],
     hd |-> [l \in 0..TsTop |-> FirstOf(out, IF l = 0 THEN "D" ELSE "I", l, lim)]]

\* ---- what must hold of the repaired track
RECURSIVE Chain(_, _, _)
Chain(nx, o, fuel) == IF o = 0 \/ fuel = 0 \/ o > Len(nx) THEN (IF o = 0 THEN <<>> ELSE <<o>>) ELSE <<o>> \o Chain(nx, nx[o], fuel - 1)
ListOf(I, P, l) == Chain(P.nx, P.hd[l], I.k + 1)

\* the chunks of a list that the file really holds and that were linked: DATA chunks, and INDEX chunks with their SUMMARY
Holds(I, l, lim) == { i \in 1..I.k : i <= lim /\ I.lvl[i] = l /\ (IF l = 0 THEN I.tag[i] = "D" ELSE I.tag[i] = "I" /\ i + 1 <= I.k) }

TsRepairOk(I, lim) ==
    LET P == TsRepair(I) IN
    \A l \in 0..TsTop :
        LET L == ListOf(I, P, l) IN
        /\ \A j \in 1..Len(L) : L[j] \in Holds(I, l, lim)              \* no link leads to a chunk the file does not hold
        /\ { L[j] : j \in 1..Len(L) } = Holds(I, l, lim)              \* nothing that was linked is lost
        /\ \A j \in 1..(Len(L) - 1) : L[j] < L[j + 1]
\* and the index entries of listed INDEX chunks lead to listed chunks of the level below
TsEntriesOk(I, out, lim) ==
    LET P == TsRepair(I) IN
    \A l \in 1..TsTop : \A j \in 1..Len(ListOf(I, P, l)) :
        LET ix == ListOf(I, P, l)[j]
            below == ListOf(I, P, l - 1) IN
        \A e \in 1..Len(out[ix].ent) : \E b \in 1..Len(below) : below[b] = out[ix].ent[e][2]
=============================================================================
