------------------------------ MODULE JlsFormat ------------------------------
(***************************************************************************)
(* Tier A: the published JLS file format (include/jls/format.h) as a       *)
(* predicate on the chunk list that the independent lifter extracted from  *)
(* the bytes of a file, and the decoding of that chunk list back into the  *)
(* abstract content of JlsApi (property C05).                              *)
(*                                                                         *)
(* D : sequence of chunk records in file order (fields: see op_liftfile in *)
(*     tools/jlsdrv.py); F : the FileHdr record; E : the FileEnd record.   *)
(* Verdict operators return "" or the first reason the file is not         *)
(* well-formed / does not decode to the submitted content.                 *)
(***************************************************************************)
EXTENDS JlsApi

FirstNonEmptyV(seq) == IF \E i \in 1..Len(seq) : seq[i] # ""
                       THEN seq[CHOOSE i \in 1..Len(seq) : seq[i] # "" /\ \A j \in 1..(i-1) : seq[j] = ""]
                       ELSE ""

DiskSize(plen) == IF plen = 0 THEN 0 ELSE plen + ((8 - ((plen + 4) % 8)) % 8) + 4

TAG_SOURCE == 1  TAG_SIGNAL == 2  TAG_USER == 64  TAG_END == 255
CK_DEF == 0  CK_HEAD == 1  CK_DATA == 2  CK_INDEX == 3  CK_SUMMARY == 4
TT_FSR == 0  TT_VSR == 1  TT_ANNO == 2  TT_UTC == 3

\* which doubly linked list a chunk belongs to
ListKey(c) == IF c.kind = "source" THEN <<"src", 0, 0>>
              ELSE IF c.kind = "signal" \/ (c.kind = "track" /\ c.ck \in {CK_DEF, CK_HEAD}) THEN <<"sig", 0, 0>>
              ELSE IF c.kind = "user" THEN <<"ud", 0, 0>>
              ELSE IF c.kind = "track" THEN <<"trk", c.tag, c.meta>>
              ELSE <<"none", 0, 0>>

\* index of the chunk at file offset off (0 if none); D is in offset order: binary search
RECURSIVE Bs(_, _, _, _)
Bs(D, off, lo, hi) == IF lo > hi THEN 0
                      ELSE LET mid == (lo + hi) \div 2
                           IN IF D[mid].off = off THEN mid
                              ELSE IF D[mid].off < off THEN Bs(D, off, mid + 1, hi) ELSE Bs(D, off, lo, mid - 1)
At(D, off) == Bs(D, off, 1, Len(D))

First(P(_), D) == IF \E i \in 1..Len(D) : P(D[i]) THEN CHOOSE i \in 1..Len(D) : P(D[i]) /\ \A j \in 1..(i-1) : ~P(D[j]) ELSE 0

--------------------------------------------------------------------------
Structure(D, F, E) ==
    IF ~(F.present /\ F.ident_ok /\ F.crc_ok) THEN "file header invalid"
    ELSE IF F.major # 1 THEN "file header version"
    ELSE IF ~F.len_eq_size THEN "file header length differs from the file size"
    ELSE IF E.why # "eof" THEN "forward walk stopped before the end of the file"
    ELSE IF Len(D) = 0 THEN "no chunks"
    ELSE IF D[1].off # 32 THEN "first chunk not at offset 32"
    ELSE IF \E i \in 1..Len(D) : ~D[i].hcrc THEN "chunk header CRC invalid"
    ELSE IF \E i \in 1..Len(D) : ~D[i].pcrc THEN "payload CRC invalid"
    ELSE IF \E i \in 1..Len(D) : ~D[i].pad0 THEN "payload padding not zero"
    ELSE IF \E i \in 1..Len(D) : D[i].rsv # 0 THEN "reserved header byte not zero"
    ELSE IF \E i \in 1..Len(D) : D[i].off % 8 # 0 THEN "chunk not 8-byte aligned"
    ELSE IF \E i \in 1..(Len(D)-1) : D[i+1].off # D[i].off + 32 + DiskSize(D[i].plen) THEN "chunks not contiguous"
    ELSE IF D[Len(D)].off + 32 + DiskSize(D[Len(D)].plen) # E.size THEN "last chunk does not end at the end of the file"
    ELSE IF D[1].pprev # 0 \/ \E i \in 2..Len(D) : D[i].pprev # D[i-1].plen THEN "payload_prev_length does not lead to the previous chunk"
    ELSE IF D[Len(D)].tag # TAG_END \/ \E i \in 1..(Len(D)-1) : D[i].tag = TAG_END THEN "END chunk missing or not last"
    ELSE IF \E i \in 1..Len(D) : D[i].kind = "unknown" THEN "unknown tag"
    ELSE IF \E i \in 1..Len(D) : ~D[i].ok THEN "payload does not parse as its kind"
    ELSE ""

Links(D) ==
    IF \E i \in 1..Len(D) : D[i].next # 0 /\
          (At(D, D[i].next) = 0 \/ At(D, D[i].next) <= i
           \/ ListKey(D[At(D, D[i].next)]) # ListKey(D[i]) \/ D[At(D, D[i].next)].prev # D[i].off)
    THEN "item_next does not lead to the next chunk of the same list"
    ELSE IF \E i \in 1..Len(D) : D[i].prev # 0 /\
          (At(D, D[i].prev) = 0 \/ At(D, D[i].prev) >= i
           \/ ListKey(D[At(D, D[i].prev)]) # ListKey(D[i]) \/ D[At(D, D[i].prev)].next # D[i].off)
    THEN "item_prev does not lead to the previous chunk of the same list"
    ELSE IF LET H == { i \in 1..Len(D) : D[i].prev = 0 /\ ListKey(D[i])[1] # "none" }
            IN \E i, j \in H : i < j /\ ListKey(D[i]) = ListKey(D[j])
    THEN "a list has two heads (a chunk is not linked)"
    ELSE IF LET T == { i \in 1..Len(D) : D[i].next = 0 /\ ListKey(D[i])[1] # "none" }
            IN \E i, j \in T : i < j /\ ListKey(D[i]) = ListKey(D[j])
    THEN "a list has two tails (a chunk is not linked)"
    ELSE IF D[Len(D)].next # 0 \/ D[Len(D)].prev # 0 THEN "END chunk is linked"
    ELSE ""

\* track heads: entry l = first DATA (l = 0) / INDEX (l >= 1) chunk of that track, signal and level
Heads(D) ==
    IF \E i \in 1..Len(D) : D[i].kind = "track" /\ D[i].ck = CK_HEAD /\
         \E l \in 0..15 :
            LET want == First(LAMBDA c : c.kind = "track" /\ c.tt = D[i].tt /\ c.sig = D[i].sig /\ c.lvl = l
                                         /\ c.ck = (IF l = 0 THEN CK_DATA ELSE CK_INDEX), D)
            IN D[i].offs[l + 1] # (IF want = 0 THEN 0 ELSE D[want].off)
    THEN "track head does not point at the first chunk of a level"
    ELSE ""

IndexSummary(D) ==
    IF \E i \in 1..Len(D) : D[i].kind = "track" /\ D[i].ck = CK_INDEX /\
         (i = Len(D) \/ D[i+1].kind # "track" \/ D[i+1].ck # CK_SUMMARY \/ D[i+1].tt # D[i].tt
          \/ D[i+1].meta # D[i].meta \/ D[i+1].ts # D[i].ts)
    THEN "INDEX not immediately followed by its SUMMARY"
    ELSE IF \E i \in 2..Len(D) : D[i].kind = "track" /\ D[i].ck = CK_SUMMARY /\
         (D[i-1].kind # "track" \/ D[i-1].ck # CK_INDEX)
    THEN "SUMMARY without its INDEX"
    ELSE IF \E i \in 1..Len(D) : D[i].kind = "track" /\ D[i].ck = CK_INDEX /\ D[i].lvl = 0 THEN "INDEX at level 0"
    ELSE ""

\* FSR index entries: entry k of a level-L index leads to the level L-1 chunk whose first
\* sample id is ts + k * Stride(L) (or is 0 at level 1: omitted block)
Stride(g, L) == LET F[k \in 1..L] == IF k = 1 THEN g.norm.spd
                                      ELSE IF k = 2 THEN g.norm.spd * (g.norm.eps \div (g.norm.spd \div g.norm.sdf))
                                      ELSE F[k-1] * g.norm.sumdf
                IN F[L]

FsrIndex(D, S) ==
    IF \E i \in 1..Len(D) : D[i].kind = "track" /\ D[i].tt = TT_FSR /\ D[i].ck = CK_INDEX /\ Has(S.sigs, D[i].sig) /\
         LET g == S.sigs[Idx(S.sigs, D[i].sig)] IN
         \/ D[i].esb # 64 \/ D[i].cnt # Len(D[i].offs)
         \/ \E k \in 1..Len(D[i].offs) :
               LET o == D[i].offs[k]
                   j == At(D, o)
               IN IF o = 0 THEN D[i].lvl # 1
                  ELSE \/ j = 0 \/ j >= i
                       \/ D[j].kind # "track" \/ D[j].tt # TT_FSR \/ D[j].sig # D[i].sig \/ D[j].lvl # D[i].lvl - 1
                       \/ D[j].ck # (IF D[i].lvl = 1 THEN CK_DATA ELSE CK_INDEX)
                       \/ D[j].ts # D[i].ts + (k - 1) * Stride(g, D[i].lvl)
    THEN "FSR index entry does not lead to the chunk of the expected kind, signal, level and timestamp"
    ELSE ""

\* annotation / UTC index entries <<timestamp, offset>>
TsIndex(D) ==
    IF \E i \in 1..Len(D) : D[i].kind = "track" /\ D[i].tt \in {TT_ANNO, TT_UTC} /\ D[i].ck = CK_INDEX /\
         \/ D[i].cnt # Len(D[i].pairs) \/ D[i].cnt = 0 \/ D[i].ts # D[i].pairs[1][1]
         \/ \E k \in 1..Len(D[i].pairs) :
               LET j == At(D, D[i].pairs[k][2]) IN
               \/ j = 0 \/ j >= i
               \/ D[j].kind # "track" \/ D[j].tt # D[i].tt \/ D[j].sig # D[i].sig \/ D[j].lvl # D[i].lvl - 1
               \/ D[j].ck # (IF D[i].lvl = 1 THEN CK_DATA ELSE CK_INDEX)
               \/ D[j].ts # D[i].pairs[k][1]
    THEN "annotation/UTC index entry does not lead to the chunk of the expected kind, signal, level and timestamp"
    ELSE ""

WellFormed(D, F, E, S) ==
    FirstNonEmptyV(<<Structure(D, F, E), Links(D), Heads(D), IndexSummary(D), FsrIndex(D, S), TsIndex(D)>>)

--------------------------------------------------------------------------
(* decoding the chunk list back into the abstract content *)
Sel(D, P(_)) == SelectSeq(D, P)

DecSources(D) == LET X == Sel(D, LAMBDA c : c.kind = "source") IN [i \in 1..Len(X) |-> [id |-> X[i].id, s |-> X[i].strs]]
DecSignals(D) == LET X == Sel(D, LAMBDA c : c.kind = "signal") IN [i \in 1..Len(X) |-> X[i].sdef]
DecUser(D) == LET X == Sel(D, LAMBDA c : c.kind = "user" /\ c.st # 0) IN [i \in 1..Len(X) |-> <<X[i].id, X[i].st, X[i].tok, X[i].size>>]
DecAnno(D, sig) == LET X == Sel(D, LAMBDA c : c.kind = "track" /\ c.tt = TT_ANNO /\ c.ck = CK_DATA /\ c.sig = sig)
                   IN [i \in 1..Len(X) |-> <<X[i].ts, X[i].tok>>]
DecUtc(D, sig) == LET X == Sel(D, LAMBDA c : c.kind = "track" /\ c.tt = TT_UTC /\ c.ck = CK_DATA /\ c.sig = sig)
                  IN [i \in 1..Len(X) |-> X[i].pairs[1]]
FsrData(D, sig) == Sel(D, LAMBDA c : c.kind = "track" /\ c.tt = TT_FSR /\ c.ck = CK_DATA /\ c.sig = sig)

SameSet(a, b) == { a[i] : i \in 1..Len(a) } = { b[i] : i \in 1..Len(b) } /\ Len(a) = Len(b)

\* the stored DATA chunks of one signal: block-aligned, each holding what was submitted there
FsrDecodes(D, g) ==
    LET X == FsrData(D, g.id) IN
    IF ~g.has THEN (IF Len(X) = 0 THEN "" ELSE "DATA chunks for a signal without samples")
    ELSE IF Len(X) = 0 THEN "no DATA chunk for a signal with samples"
    ELSE IF X[1].ts # g.first THEN "first DATA chunk does not start at the first sample id"
    ELSE IF \E i \in 1..Len(X) : X[i].esb # g.bits THEN "DATA entry size differs from the signal's type"
    \* format.h: summary entries are 4 x f64 for u32 / i32 / u64 / i64 / f64 signals (whatever their fixed-point
    \* position), 4 x f32 for all other types
    ELSE IF \E c \in { D[i] : i \in 1..Len(D) } :
              c.kind = "track" /\ c.tt = TT_FSR /\ c.ck = CK_SUMMARY /\ c.sig = g.id
              /\ c.esb # (IF g.dt \in {"u32", "i32", "u64", "i64", "f64"} THEN 256 ELSE 128)
         THEN "FSR SUMMARY entry size differs from what the format prescribes for the signal's type"
    ELSE IF \E i \in 1..Len(X) : (X[i].ts - g.first) % g.norm.spd # 0 \/ X[i].cnt > g.norm.spd \/ X[i].cnt = 0
         THEN "DATA chunk is not aligned to the block size"
    ELSE IF \E i \in 1..(Len(X)-1) : X[i].cnt # g.norm.spd \/ X[i+1].ts <= X[i].ts THEN "a DATA chunk other than the last is not full"
    ELSE IF X[Len(X)].ts + X[Len(X)].cnt > g.next THEN "DATA beyond the last submitted sample"
    ELSE IF \E i \in 1..Len(X) : X[i].blen * 8 < X[i].cnt * g.bits \/ X[i].blen * 8 >= X[i].cnt * g.bits + 8
         THEN "DATA payload size does not match its entry count"
    ELSE IF \E i \in 1..Len(X) :
              \/ Len(X[i].runs) = 0
              \/ X[i].runs[1].p # X[i].ts
              \/ \E k \in 1..Len(X[i].runs) : ~RunOk(g, [p |-> X[i].runs[k].p - g.first, n |-> X[i].runs[k].n, c |-> X[i].runs[k].c])
         THEN "DATA chunk content differs from the submitted samples"
    ELSE ""

Decodes(D, S) ==
    LET srcWant == [i \in 1..Len(S.srcs) |-> [id |-> S.srcs[i].id, s |-> [j \in 1..5 |-> AbsentToEmpty(S.srcs[i].s[j])]]]
        sigWant == [i \in 1..Len(S.sigs) |-> SigRec(S.sigs[i])]
    IN IF ~SameSet(DecSources(D), srcWant) THEN "SOURCE_DEF chunks differ from the sources defined"
       ELSE IF ~SameSet(DecSignals(D), sigWant) THEN "SIGNAL_DEF chunks differ from the signals defined (as normalised)"
       ELSE IF DecUser(D) # S.ud THEN "USER_DATA chunks differ from the user data written"
       ELSE IF \E i \in 1..Len(S.sigs) : DecAnno(D, S.sigs[i].id) # S.sigs[i].annos THEN "ANNOTATION DATA chunks differ from the annotations written"
       ELSE IF \E i \in 1..Len(S.sigs) : DecUtc(D, S.sigs[i].id) # S.sigs[i].utcs THEN "UTC DATA chunks differ from the UTC entries written"
       ELSE FirstNonEmptyV([i \in 1..Len(S.sigs) |-> IF S.sigs[i].st = 0 THEN FsrDecodes(D, S.sigs[i]) ELSE ""])
==========================================================================
