SPECIFICATION Spec
CONSTANTS
  CapWr = 2
  CapAnno0 = 2
  CapAnno = 1
  CapUtc = 1
  CapUd = 1
INVARIANT TypeOk
CHECK_DEADLOCK FALSE
