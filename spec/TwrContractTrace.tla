------------------------- MODULE TwrContractTrace -------------------------
(* Trace validation of recorded threaded-writer executions against         *)
(* TwrContract (total style: a rejected execution is recorded and skipped  *)
(* up to the next Reset, so one TLC run judges every execution).           *)
EXTENDS TwrContract, Json, IOUtils, TLC

TraceLog == ndJsonDeserialize(IOEnv.TRACE)

VARIABLES l, C, x, skip, rej
vars == <<l, C, x, skip, rej>>

Ev == TraceLog[l]

Init == l = 1 /\ C = C0 /\ x = 0 /\ skip = FALSE /\ rej = <<>>

Step ==
    /\ l <= Len(TraceLog)
    /\ l' = l + 1
    /\ IF Ev.e = "Reset" THEN
            /\ C' = C0 /\ x' = Ev.x /\ skip' = FALSE /\ UNCHANGED rej
       ELSE IF skip THEN UNCHANGED <<C, x, skip, rej>>
       ELSE LET v == Verdict(C, Ev) IN
            IF v # "" THEN /\ rej' = Append(rej, <<x, l, v>>) /\ skip' = TRUE /\ UNCHANGED <<C, x>>
            ELSE /\ C' = Update(C, Ev) /\ UNCHANGED <<x, skip, rej>>

Spec == Init /\ [][Step]_vars

Done == /\ PrintT(<<"TRACE_RESULT", TLCGet("stats").diameter - 1, Len(TraceLog)>>)
        /\ TRUE
Final == (l = Len(TraceLog) + 1) => PrintT(<<"TRACE_REJ", rej>>)
===========================================================================
