SPECIFICATION Spec
CONSTANTS
  MaxLen = 5
INVARIANT RoutesAgree
INVARIANT VarNonNegative
INVARIANT MeanBetween
INVARIANT EmptyIsIdentity
CHECK_DEADLOCK FALSE
