--------------------------- MODULE JlsRepairTrace ---------------------------
(* Conformance of the real repairing open with the tier-B model JlsRepair.tla: *)
(* for crash images cut between two backend writes, the FSR chunk sequence of   *)
(* a signal before the open (decoded from the image) drives the model, and the  *)
(* sequence found in the file after the open must be the one the model yields   *)
(* (same chunks kept, same INDEX / SUMMARY chunks appended with the same first   *)
(* sample, entry count and index entries).  A deviation is MODEL-DRIFT.  The     *)
(* design properties of the model (JlsRepair!RepairOk) are model-checked on all  *)
(* crash images of the writer model in JlsRepairMC.tla.                          *)
EXTENDS JlsRepair, Json, IOUtils, TLC

TraceLog == ndJsonDeserialize(IOEnv.TRACE)
VARIABLES l, x, rej, nimg
vars == <<l, x, rej, nimg>>
Ev == TraceLog[l]
Init == l = 1 /\ x = 0 /\ rej = <<>> /\ nimg = 0

ToOut(seq) == [i \in 1..Len(seq) |-> [tag |-> seq[i].t, lvl |-> seq[i].l, ts |-> seq[i].ts, n |-> seq[i].n, offs |-> seq[i].o]]
GeomOk(P) == P[1] > 0 /\ P[2] > 0 /\ P[3] > 0 /\ P[4] > 1 /\ P[1] % P[2] = 0
ImgOf(ev) == [P |-> [spd |-> ev.P[1], sdf |-> ev.P[2], eps |-> ev.P[3], sumdf |-> ev.P[4]], out |-> ToOut(ev.pre), att |-> ev.att]

RepVerdict(ev) ==
    IF ~GeomOk(ev.P) \/ Len(ev.pre) = 0 THEN ""
    ELSE LET I == ImgOf(ev)
             M == Repair(I).out
         IN IF ToOut(ev.post) # M THEN "the FSR chunk sequence after the repairing open differs from the repair model"
            ELSE ""

Step == /\ l <= Len(TraceLog) /\ l' = l + 1
        /\ IF Ev.e = "Reset" THEN x' = Ev.x /\ UNCHANGED <<rej, nimg>>
           ELSE IF Ev.e = "RepSeq" THEN
                LET v == RepVerdict(Ev) IN
                /\ rej' = IF v = "" THEN rej ELSE Append(rej, <<x, l, v>>)
                /\ nimg' = nimg + 1 /\ UNCHANGED x
           ELSE UNCHANGED <<x, rej, nimg>>
Spec == Init /\ [][Step]_vars
Done == PrintT(<<"TRACE_RESULT", TLCGet("stats").diameter - 1, Len(TraceLog)>>)
Final == (l = Len(TraceLog) + 1) => PrintT(<<"TRACE_REJ", rej>>) /\ PrintT(<<"TRACE_INFO", nimg>>)
==============================================================================
