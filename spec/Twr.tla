-------------------------------- MODULE Twr --------------------------------
(***************************************************************************)
(* Tier B: the threaded writer (src/threaded_writer.c over                 *)
(* src/backend_posix.c) as a system of threads that interleave at their    *)
(* synchronisation operations.                                             *)
(*                                                                         *)
(* Grain: one step = one pthread operation of one thread being performed   *)
(* (lock, unlock, cond wait, wake-up from the wait, cond signal, thread     *)
(* create, join, start, exit, sleep, end of sleep) followed by the thread's *)
(* local code up to the point where it asks for its next operation.  That  *)
(* is exactly the grain at which harness/sched_shim.c schedules the real    *)
(* code, so a behaviour of this module is a script for the real code and a  *)
(* recorded execution of the real code is (or is not) a behaviour of this   *)
(* module.  Time is virtual: a Tick moves the clock to the next wake-up     *)
(* time of a sleeping thread, possibly overshooting it (a descheduled       *)
(* process oversleeps).                                                     *)
(*                                                                         *)
(* Threads: 0 = the thread that opens (and usually closes) the writer,      *)
(* 1 = the writer thread (jls_twr_run), 2.. = producer threads.             *)
(*                                                                         *)
(* The state is one record S (total style: the model-checking module wraps  *)
(* it in a variable, the trace module steps it along a recorded schedule).  *)
(* Ghost fields carry the tier-A contract (enq / applied / synced / bad).   *)
(***************************************************************************)
EXTENDS Integers, Sequences, FiniteSets

CONSTANT MaxT          \* largest thread number (threads that a program does not use are never created)

(* The configuration of a run is the record K kept in the state (S.K, never changed):
     np            number of producer threads (2 .. np+1)
     prog          [2..MaxT -> Seq([k, sz, key])]  k in F A U D O L, sz = bytes handed to the queue
     ndefs         definitions made by thread 0 before the producers start (the first one is the source)
     closer        thread that calls jls_twr_close (0, or the only producer)
     drop          JLS_TWR_FLAG_DROP_ON_OVERFLOW
     qn            queue buffer size in bytes
     sendTimeout, sendSleep      msg_send: give up after / retry every (ms)
     flushTimeout, pollSleep     jls_twr_flush: give up after / poll every (ms)
     closeRetry    TRUE: jls_twr_close repeats the CLOSE message until it is queued (tree after fix 73b3a57) *)

Thr == 0..MaxT
HDR == 40
BUSY == 19
TIMED_OUT == 11
ALREADY_EXISTS == 17

Max(a, b) == IF a > b THEN a ELSE b
NoPend == [op |-> "none", obj |-> "", arg |-> 0]

\* what thread 0 does, in order
MainSeq(K) ==
    <<[op |-> "create", obj |-> "", arg |-> 1]>>
    \o [i \in 1..(2 * K.ndefs) |-> [op |-> IF i % 2 = 1 THEN "lock" ELSE "unlock", obj |-> "P", arg |-> (i + 1) \div 2]]
    \o [i \in 1..K.np |-> [op |-> "create", obj |-> "", arg |-> i + 1]]
    \o [i \in 1..K.np |-> [op |-> "join", obj |-> "", arg |-> i + 1]]

S0(K) == [K |-> K,
       pend |-> [t \in Thr |-> IF t = 0 THEN MainSeq(K)[1] ELSE NoPend],
       pc |-> [t \in Thr |-> IF t = 0 THEN "main" ELSE ""],
       own |-> [m \in {"M", "P", "E"} |-> -1],
       sgn |-> [t \in Thr |-> FALSE],
       wake |-> [t \in Thr |-> 0],
       fin |-> [t \in Thr |-> FALSE],
       now |-> 0,
       flag |-> 0, quit |-> FALSE, fsend |-> 0, fproc |-> 0,
       head |-> 0, tail |-> 0, q |-> <<>>,
       msg |-> FALSE,
       ip |-> [t \in Thr |-> IF t = 0 THEN 1 ELSE 0],
       closing |-> [t \in Thr |-> FALSE],
       allocok |-> [t \in Thr |-> FALSE],
       tstop |-> [t \in Thr |-> 0],
       fid |-> [t \in Thr |-> 0],
       fseen |-> [t \in Thr |-> 0],      \* flush_processed_id as this thread last read it (under the message lock)
       \* ghosts
       enq |-> <<>>, applied |-> <<>>, synced |-> 0, maxret |-> 0,
       need |-> [t \in Thr |-> 0], enqidx |-> [t \in Thr |-> 0],
       wrclosed |-> FALSE, bad |-> {},
       out |-> <<>>]

--------------------------------------------------------------------------
(* the queue: the decisions of jls_mrb_alloc / peek / pop over head, tail and the live messages
   (the byte-level model and its proof obligations are Mrb.tla / property C08) *)

AllocPos(S, size) ==      \* <<ok, prefix offset, tail after>>
    IF size > S.K.qn THEN <<FALSE, 0, S.tail>>
    ELSE IF S.head >= S.tail THEN
        LET end_idx == S.head + 4 + size + 4 + (IF S.tail = 0 THEN 1 ELSE 0) IN
        IF end_idx < S.K.qn THEN <<TRUE, S.head, S.tail>>
        ELSE IF size + 5 < S.tail THEN <<TRUE, 0, S.tail>>
        ELSE IF S.head = S.tail THEN
            IF 4 + size + 4 + 1 >= S.K.qn THEN <<FALSE, 0, S.tail>> ELSE <<TRUE, 0, 0>>
        ELSE <<FALSE, 0, S.tail>>
    ELSE IF S.head + size + 5 < S.tail THEN <<TRUE, S.head, S.tail>>
    ELSE <<FALSE, 0, S.tail>>

Alloc(S, t, m) ==          \* m = [sz, key, kind, d]
    LET r == AllocPos(S, m.sz)
        h0 == r[2] + 4 + m.sz
        h1 == IF h0 >= S.K.qn THEN 0 ELSE h0
    IN IF r[1] THEN
            LET S1 == [S EXCEPT !.head = h1, !.tail = r[3],
                                !.q = Append(@, [off |-> r[2] + 4, sz |-> m.sz, key |-> m.key, kind |-> m.kind, d |-> m.d]),
                                !.allocok[t] = TRUE,
                                !.enq = IF m.kind = "C" THEN @ ELSE Append(@, m.key),
                                !.enqidx[t] = IF m.kind = "C" THEN 0 ELSE Len(S.enq) + 1,
                                !.bad = @ \cup (IF S.wrclosed THEN {"accepted after close"} ELSE {})]
            IN [S1 EXCEPT !.out = Append(@, <<"Enq", t, m.key, TRUE, S1.head, S1.tail, Len(S1.q)>>)]
       ELSE [S EXCEPT !.allocok[t] = FALSE,
                      !.out = Append(@, <<"Enq", t, m.key, FALSE, S.head, S.tail, Len(S.q)>>)]

Peek(S) ==
    IF S.q = <<>> THEN [S EXCEPT !.msg = FALSE, !.out = Append(@, <<"Deq", 1, "peek", FALSE, S.head, S.tail, 0>>)]
    ELSE LET t1 == S.q[1].off - 4 IN        \* either the tail itself or 0 (a wrap marker sits at the tail)
         [S EXCEPT !.msg = TRUE, !.tail = t1, !.out = Append(@, <<"Deq", 1, "peek", TRUE, S.head, t1, Len(S.q)>>)]

Pop(S) ==
    IF S.q = <<>> THEN [S EXCEPT !.out = Append(@, <<"Deq", 1, "pop", FALSE, S.head, S.tail, 0>>)]
    ELSE LET t0 == S.q[1].off + S.q[1].sz
             t1 == IF t0 >= S.K.qn THEN t0 - S.K.qn ELSE t0
         IN [S EXCEPT !.q = Tail(@), !.tail = t1,
                      !.out = Append(@, <<"Deq", 1, "pop", TRUE, S.head, t1, Len(S.q) - 1>>)]

--------------------------------------------------------------------------
Goto(S, t, op, obj, arg, pc) == [S EXCEPT !.pend[t] = [op |-> op, obj |-> obj, arg |-> arg], !.pc[t] = pc]

CloseKey(t) == "C"
CurOp(S, t) == IF S.closing[t] THEN [k |-> "C", sz |-> HDR, key |-> CloseKey(t)] ELSE S.K.prog[t][S.ip[t]]
Once(S, t) == ~S.closing[t] /\ S.K.drop /\ S.K.prog[t][S.ip[t]].k = "F"

\* msg_send / msg_send_inner entered: the deadline is taken, the first attempt starts
BeginSend(S, t) == Goto([S EXCEPT !.tstop[t] = S.now + S.K.sendTimeout], t, "lock", "M", 0, "s_lockM")

BeginClose(S, t) ==
    BeginSend([S EXCEPT !.closing[t] = TRUE, !.out = Append(@, <<"Call", t, CloseKey(t)>>)], t)

BeginOp(S, t) ==
    LET i == S.ip[t] + 1 IN
    IF i > Len(S.K.prog[t]) THEN
        IF S.K.closer = t THEN BeginClose([S EXCEPT !.ip[t] = i], t)
        ELSE Goto([S EXCEPT !.ip[t] = i], t, "exit", "", 0, "exit")
    ELSE LET op == S.K.prog[t][i]
             S1 == [S EXCEPT !.ip[t] = i, !.need[t] = S.maxret, !.enqidx[t] = 0,
                             !.out = Append(@, <<"Call", t, op.key>>)]
         IN IF op.k = "L" THEN Goto(S1, t, "lock", "M", 0, "f_lockM")
            ELSE IF op.k = "X" THEN Goto(S1, t, "lock", "P", 0, "x_lockP")      \* jls_twr_signal_def that will be refused
            ELSE BeginSend(S1, t)

Return(S, t, rc) ==
    LET op == S.K.prog[t][S.ip[t]]
        b == IF op.k = "L" /\ rc = 0 /\ Len(S.applied) < S.need[t] THEN {"flush returned before earlier messages were applied"}
             ELSE IF op.k = "L" /\ rc = 0 /\ S.synced < S.need[t] THEN {"flush returned before earlier messages were synced"}
             ELSE IF op.k \notin {"L", "X"} /\ rc = 0 /\ S.enqidx[t] = 0 THEN {"success without a queued message"}
             ELSE IF op.k \notin {"L", "X"} /\ rc # 0 /\ S.enqidx[t] # 0 THEN {"error although the message was queued"}
             ELSE {}
        S1 == [S EXCEPT !.out = Append(@, <<"Ret", t, op.key, rc, S.fsend, S.fproc>>),
                        !.bad = @ \cup b,
                        !.maxret = IF rc = 0 THEN Max(@, S.enqidx[t]) ELSE @]
    IN BeginOp(S1, t)

\* jls_twr_flush polls flush_processed_id: each read takes the message lock (flush_processed_id_get)
FlushPoll(S, t) == Goto(S, t, "lock", "M", 0, "f_pLockM")
FlushDecide(S, t) ==
    IF S.fseen[t] < S.fid[t] THEN Goto([S EXCEPT !.wake[t] = S.now + S.K.pollSleep], t, "sleep", "", 0, "f_sleep")
    ELSE Return(S, t, 0)

SendDone(S, t, rc) ==
    IF S.closing[t] THEN
        IF rc # 0 /\ S.K.closeRetry THEN BeginSend(S, t)
        ELSE Goto(S, t, "join", "", 1, "c_join")
    ELSE IF S.K.prog[t][S.ip[t]].k = "L" THEN FlushPoll([S EXCEPT !.tstop[t] = S.now + S.K.flushTimeout], t)
    ELSE Return(S, t, rc)

\* what the writer thread does with the message at the head of the queue (under the process lock)
Process(S) ==
    LET m == S.q[1] IN
    IF m.kind = "C" THEN [S EXCEPT !.quit = TRUE]
    ELSE IF m.kind = "L" THEN        \* jls_wr_flush; the processed id is published under the message lock (k_fLockM)
        [S EXCEPT !.applied = Append(@, m.key), !.synced = Len(S.applied) + 1,
                  !.out = Append(@, <<"Apply", 1, "-", "L">>)]
    ELSE [S EXCEPT !.applied = Append(@, m.key), !.out = Append(@, <<"Apply", 1, m.key, m.kind>>),
                   !.bad = @ \cup (IF S.wrclosed THEN {"applied after close"} ELSE {})]

\* thread 0 after its i-th scripted operation
MainNext(S) ==
    LET i == S.ip[0]
        done == MainSeq(S.K)[i]
        S1 == IF done.op = "lock" /\ done.arg > 1 THEN [S EXCEPT !.out = Append(@, <<"Apply", 0, "-", "S">>)] ELSE S
    IN IF i < Len(MainSeq(S.K)) THEN [S1 EXCEPT !.ip[0] = i + 1, !.pend[0] = MainSeq(S.K)[i + 1]]
       ELSE IF S.K.closer = 0 THEN BeginClose([S1 EXCEPT !.ip[0] = i + 1], 0)
       ELSE [S1 EXCEPT !.ip[0] = i + 1, !.pend[0] = [op |-> "done", obj |-> "", arg |-> 0], !.pc[0] = "done"]

--------------------------------------------------------------------------
Enabled(S, t) ==
    LET p == S.pend[t] IN
    CASE p.op = "none" -> FALSE
      [] p.op = "done" -> FALSE
      [] p.op = "lock" -> S.own[p.obj] = -1
      [] p.op = "wake" -> S.sgn[t] /\ S.own["E"] = -1
      [] p.op = "join" -> S.fin[p.arg]
      [] p.op = "slept" -> S.now >= S.wake[t]
      [] OTHER -> TRUE

\* effect of the pending operation itself
Perform(S, t) ==
    LET p == S.pend[t] IN
    CASE p.op = "lock" -> [S EXCEPT !.own[p.obj] = t]
      [] p.op = "unlock" -> [S EXCEPT !.own[p.obj] = -1]
      [] p.op = "wait" -> [S EXCEPT !.own["E"] = -1]
      [] p.op = "wake" -> [S EXCEPT !.own["E"] = t, !.sgn[t] = FALSE]
      [] p.op = "signal" -> IF S.pend[1].op = "wake" /\ ~S.sgn[1] THEN [S EXCEPT !.sgn[1] = TRUE] ELSE S
      [] p.op = "create" -> [S EXCEPT !.pend[p.arg] = [op |-> "start", obj |-> "", arg |-> 0], !.pc[p.arg] = "start"]
      [] p.op = "exit" -> [S EXCEPT !.fin[t] = TRUE]
      [] OTHER -> S

\* the thread's local code after the operation, up to its next request
Local(S, t) ==
    LET pc == S.pc[t] IN
    CASE pc = "main" -> MainNext(S)
      [] pc = "start" -> IF t = 1 THEN Goto(S, 1, "lock", "E", 0, "k_lockE") ELSE BeginOp(S, t)
      [] pc = "exit" -> [S EXCEPT !.pend[t] = [op |-> "done", obj |-> "", arg |-> 0], !.pc[t] = "done"]
      \* ---- msg_send
      [] pc = "s_lockM" ->
            LET op == CurOp(S, t)
                S1 == Alloc(S, t, [sz |-> op.sz, key |-> op.key, kind |-> op.k, d |-> S.fid[t]])
            IN Goto(S1, t, "unlock", "M", 0, "s_unlockM")
      [] pc = "s_unlockM" ->
            IF S.allocok[t] THEN Goto(S, t, "lock", "E", 0, "s_lockE")
            ELSE IF Once(S, t) THEN SendDone(S, t, BUSY)
            ELSE Goto([S EXCEPT !.wake[t] = S.now + S.K.sendSleep], t, "sleep", "", 0, "s_sleep")
      [] pc = "s_sleep" -> Goto(S, t, "slept", "", 0, "s_slept")
      [] pc = "s_slept" -> IF S.now <= S.tstop[t] THEN Goto(S, t, "lock", "M", 0, "s_lockM") ELSE SendDone(S, t, BUSY)
      [] pc = "s_lockE" -> Goto([S EXCEPT !.flag = 1], t, "signal", "E", 0, "s_signal")
      [] pc = "s_signal" -> Goto(S, t, "unlock", "E", 0, "s_unlockE")
      [] pc = "s_unlockE" -> SendDone(S, t, 0)
      \* ---- jls_twr_flush
      [] pc = "f_lockM" -> Goto([S EXCEPT !.fid[t] = S.fsend + 1, !.fsend = S.fsend + 1], t, "unlock", "M", 0, "f_unlockM")
      [] pc = "f_unlockM" -> BeginSend(S, t)
      [] pc = "f_pLockM" -> Goto([S EXCEPT !.fseen[t] = S.fproc], t, "unlock", "M", 0, "f_pUnlockM")
      [] pc = "f_pUnlockM" -> FlushDecide(S, t)
      [] pc = "f_sleep" -> Goto(S, t, "slept", "", 0, "f_slept")
      \* jls_now() >= t_stop with t_stop = t_start + JLS_TIME_MILLISECOND * timeout: JLS_TIME_MILLISECOND is rounded
      \* up (1073742 for 1073741.824), so at exactly timeout ms the deadline has not passed yet
      [] pc = "f_slept" -> IF S.now > S.tstop[t] THEN Return(S, t, TIMED_OUT) ELSE FlushPoll(S, t)
      \* ---- jls_twr_signal_def of an existing signal: refused under the process lock, which is released again
      [] pc = "x_lockP" -> Goto([S EXCEPT !.out = Append(@, <<"Apply", t, "-", "S">>)], t, "unlock", "P", 0, "x_unlockP")
      [] pc = "x_unlockP" -> Return(S, t, ALREADY_EXISTS)
      \* ---- jls_twr_close after the join
      [] pc = "c_join" ->
            LET S1 == [S EXCEPT !.wrclosed = TRUE,
                                !.bad = @ \cup (IF S.applied # S.enq THEN {"closed before every accepted message was applied"} ELSE {})
                                          \cup (IF S.q # <<>> THEN {"closed with messages in the queue"} ELSE {}),
                                !.out = Append(Append(@, <<"Apply", t, "-", "C">>), <<"Ret", t, CloseKey(t), 0, 0, 0>>)]
            IN IF t = 0 THEN [S1 EXCEPT !.pend[0] = [op |-> "done", obj |-> "", arg |-> 0], !.pc[0] = "done"]
               ELSE Goto(S1, t, "exit", "", 0, "exit")
      \* ---- jls_twr_run
      [] pc = "k_lockE" -> IF S.flag = 0 THEN Goto(S, 1, "wait", "E", 0, "k_wait")
                           ELSE Goto([S EXCEPT !.flag = 0], 1, "unlock", "E", 0, "k_unlockE")
      [] pc = "k_wait" -> Goto(S, 1, "wake", "E", 0, "k_wake")
      [] pc = "k_wake" -> IF S.flag = 0 THEN Goto(S, 1, "wait", "E", 0, "k_wait")
                          ELSE Goto([S EXCEPT !.flag = 0], 1, "unlock", "E", 0, "k_unlockE")
      [] pc = "k_unlockE" -> Goto(S, 1, "lock", "M", 0, "k_lockM")
      [] pc = "k_lockM" -> Goto(Peek(IF S.msg THEN Pop(S) ELSE S), 1, "unlock", "M", 0, "k_unlockM")
      [] pc = "k_unlockM" ->
            IF S.msg THEN Goto(S, 1, "lock", "P", 0, "k_lockP")
            ELSE IF S.quit THEN Goto(S, 1, "exit", "", 0, "exit")
            ELSE Goto(S, 1, "lock", "E", 0, "k_lockE")
      [] pc = "k_lockP" -> IF S.q[1].kind = "L" THEN Goto(Process(S), 1, "lock", "M", 0, "k_fLockM")
                           ELSE Goto(Process(S), 1, "unlock", "P", 0, "k_unlockP")
      [] pc = "k_fLockM" -> Goto([S EXCEPT !.fproc = Max(@, S.q[1].d)], 1, "unlock", "M", 0, "k_fUnlockM")
      [] pc = "k_fUnlockM" -> Goto(S, 1, "unlock", "P", 0, "k_unlockP")
      [] pc = "k_unlockP" -> Goto(S, 1, "lock", "M", 0, "k_lockM")
      [] OTHER -> S

Step(S, t) == Local(Perform([S EXCEPT !.out = <<>>], t), t)

\* virtual time
Sleepers(S) == { t \in Thr : S.pend[t].op = "slept" /\ S.wake[t] > S.now }
TickEnabled(S) == Sleepers(S) # {}
NextWake(S) == CHOOSE w \in { S.wake[t] : t \in Sleepers(S) } : \A t \in Sleepers(S) : w <= S.wake[t]
Tick(S, jump) == [S EXCEPT !.now = NextWake(S) + jump, !.out = <<>>]

AllDone(S) == \A t \in 0..(S.K.np + 1) : S.pend[t].op = "done"

--------------------------------------------------------------------------
(* properties, as predicates of a state *)

\* C06: applied is a prefix of accepted (exactly once, in order), nothing breached
C06ok(S) == /\ Len(S.applied) <= Len(S.enq)
            /\ S.applied = SubSeq(S.enq, 1, Len(S.applied))
            /\ S.bad \cap {"success without a queued message", "error although the message was queued"} = {}
\* C07: flush / close semantics
C07ok(S) == S.bad \ {"success without a queued message", "error although the message was queued"} = {}
\* when everything has finished the file was closed with everything applied
FinalOk(S) == AllDone(S) => S.wrclosed /\ S.applied = S.enq /\ S.q = <<>>
\* a lock has one owner and only lock holders touch what the lock protects: by construction of Perform / Local;
\* what is checked is the shape of the state
TypeOk(S) == /\ S.head \in 0..S.K.qn /\ S.tail \in 0..S.K.qn
             /\ \A m \in {"M", "P", "E"} : S.own[m] \in Thr \cup {-1}
=============================================================================
