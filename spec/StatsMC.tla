------------------------------- MODULE StatsMC -------------------------------
(* The closed forms of StatsContract against their definitions, for all     *)
(* small periods and windows (the oracle of C02 checked by TLC itself).      *)
EXTENDS StatsContract, FiniteSets, TLC
CONSTANTS MaxM, MaxN
VARIABLES m, a, b
Init == m \in 2..MaxM /\ a \in 0..MaxN /\ b \in 0..MaxN /\ a < b
Next == UNCHANGED <<m, a, b>>
Spec == Init /\ [][Next]_<<m, a, b>>
V(gen, i) == IF gen = "ramp" THEN i % m ELSE IF (i % m) < (m + 1) \div 2 THEN 1 ELSE 0
RECURSIVE BSum(_, _, _)
RECURSIVE BSq(_, _, _)
BSum(gen, i, j) == IF i >= j THEN 0 ELSE V(gen, i) + BSum(gen, i + 1, j)
BSq(gen, i, j) == IF i >= j THEN 0 ELSE V(gen, i) * V(gen, i) + BSq(gen, i + 1, j)
Vals(gen) == { V(gen, i) : i \in a..(b - 1) }
ClosedFormsRight ==
    \A gen \in {"ramp", "bit"} :
        /\ Sum(gen, m, a, b) = BSum(gen, a, b)
        /\ SumSq(gen, m, a, b) = BSq(gen, a, b)
        /\ WMin(gen, m, a, b) = (CHOOSE v \in Vals(gen) : \A w \in Vals(gen) : v <= w)
        /\ WMax(gen, m, a, b) = (CHOOSE v \in Vals(gen) : \A w \in Vals(gen) : v >= w)
\* the exact statistics of a window are accepted, statistics of a shifted window are not
ExactEntry(gen, i, j) == [nan |-> <<0, 0, 0, 0>>, mn |-> [k |-> "i", v |-> WMin(gen, m, i, j)], mx |-> [k |-> "i", v |-> WMax(gen, m, i, j)],
                          sum |-> Sum(gen, m, i, j), sres |-> 0,
                          var100 |-> IF j - i < 2 THEN 0 ELSE (100 * ((j - i) * SumSq(gen, m, i, j) - Sum(gen, m, i, j) * Sum(gen, m, i, j))) \div ((j - i) * (j - i - 1))]
ExactAccepted == \A gen \in {"ramp", "bit"} : SingleVerdict(gen, m, a, b, ExactEntry(gen, a, b), 10, TRUE) = ""
ShiftRejected == \A gen \in {"ramp"} :
    ((a % m) + (b - a) < m /\ b - a >= 2) => SingleVerdict(gen, m, a, b, ExactEntry(gen, a + 1, b + 1), 10, TRUE) # ""
==========================================================================
