------------------------------- MODULE JlsCrash -------------------------------
(***************************************************************************)
(* Tier A: what reopening a file may show after the writer stopped at an   *)
(* arbitrary point (property C03), and that repair converges (C19).        *)
(* A CrashObs event describes one crash image: the first k backend writes  *)
(* of the run plus j bytes of the next one, opened by the real reader in a *)
(* child process; S is the abstract content after the API call during      *)
(* which that write happened (everything submitted so far).                *)
(***************************************************************************)
EXTENDS JlsApi

RECURSIVE SubFrom(_, _, _, _)
SubFrom(a, i, b, j) == IF i > Len(a) THEN TRUE
                       ELSE IF j > Len(b) THEN FALSE
                       ELSE IF a[i] = b[j] THEN SubFrom(a, i + 1, b, j + 1)
                       ELSE SubFrom(a, i, b, j + 1)
IsSubSeq(a, b) == SubFrom(a, 1, b, 1)      \* a is an in-order sub-sequence of b

\* statistics reported next to the same quantities computed from the samples the reader returned (which the clause
\* before has tied to the submitted prefix); sums and extremes are scaled by 8; the sum may deviate by the
\* precision of 32-bit float summaries
StatsAgree(w) == w[1] # 0 \/ ( /\ Abs(w[2] - w[3]) <= 2 + Abs(w[3]) \div 100000
                                 /\ w[4] = w[5] /\ w[6] = w[7] )

SigObsVerdict(S, ev, ent) ==
    IF ~Has(S.sigs, ent.sig) THEN "a signal that was never defined appeared"
    ELSE LET g == S.sigs[Idx(S.sigs, ent.sig)] IN
        IF ent.lrc # 0 THEN (IF ev.j = 0 THEN "length query failed on a file that opened" ELSE "")
        ELSE IF ent.len > Length(g) THEN "more samples than were submitted"
        ELSE IF ent.len > 0 /\ ent.rrc # 0 THEN (IF ev.j = 0 THEN "samples inside the reported length cannot be read" ELSE "")
        ELSE IF ent.len > 0 /\ ent.first # g.first THEN "first sample id differs from the one submitted"
        ELSE IF ent.len > 0 /\ (~RunsCover(ent.runs, ent.first, ent.len)
                                \/ \E i \in 1..Len(ent.runs) : ~RunOk(g, [p |-> ent.runs[i].p - g.first, n |-> ent.runs[i].n, c |-> ent.runs[i].c]))
             THEN "samples differ from the submitted prefix"
        ELSE IF \E i \in 1..Len(ent.st) : ~StatsAgree(ent.st[i]) THEN "statistics disagree with the samples of the prefix"
        \* at most the buffered samples and the one block in flight are lost (no omission involved)
        ELSE IF ev.j = 0 /\ ev.after_defs /\ g.synth = {} /\ g.bits > 8 /\ g.reg = 0 /\ ent.len < ent.ondisk - g.norm.spd
             THEN "more than the block in flight was lost"
        ELSE ""

FirstBad(seq) == IF \E i \in 1..Len(seq) : seq[i] # ""
                 THEN seq[CHOOSE i \in 1..Len(seq) : seq[i] # "" /\ \A j \in 1..(i-1) : seq[j] = ""] ELSE ""

LinksLead(lk) == \A i \in 1..Len(lk) : lk[i].f = lk[i].t /\ lk[i].fw    \* fw: item_next and head entries lead forward, index entries backward
CrashObsVerdict(S, ev) ==
    IF ev.term # "ok" THEN "opening a crash image did not terminate normally: " \o ev.term
    ELSE IF ev.rc # 0 THEN
        (IF ev.j = 0 /\ ev.after_defs THEN "a stop between two complete writes left a file that does not open" ELSE "")
    ELSE IF ev.nsig > Len(S.sigs) THEN "more signals than were defined"
    ELSE LET v1 == FirstBad([i \in 1..Len(ev.sigs) |-> SigObsVerdict(S, ev, ev.sigs[i])]) IN
        IF v1 # "" THEN v1
        \* a call may fail after a stop in the middle of a write; whatever is delivered must be genuine
        ELSE IF ev.j = 0 /\ ((\E i \in 1..Len(ev.annos) : ev.annos[i].rc # 0) \/ (\E i \in 1..Len(ev.utcs) : ev.utcs[i].rc # 0) \/ ev.ud.rc # 0)
             THEN "a read call failed on a file that opened after a stop between two complete writes"
        ELSE IF \E i \in 1..Len(ev.annos) : ~Has(S.sigs, ev.annos[i].sig)
                     \/ ~IsSubSeq(ev.annos[i].items, S.sigs[Idx(S.sigs, ev.annos[i].sig)].annos)
             THEN "annotations are not an in-order selection of unaltered submitted ones"
        ELSE IF \E i \in 1..Len(ev.utcs) : ~Has(S.sigs, ev.utcs[i].sig)
                     \/ ~IsSubSeq(ev.utcs[i].items, S.sigs[Idx(S.sigs, ev.utcs[i].sig)].utcs)
             THEN "UTC entries are not an in-order selection of unaltered submitted ones"
        ELSE IF ~IsSubSeq(ev.ud.items, S.ud) THEN "user data are not an in-order selection of unaltered submitted items"
        \* C19: after the (possibly repairing) open the file is closed and stable
        ELSE IF ev.re.rc # 0 THEN "a file that opened once does not open again"
        ELSE IF ev.re.wcount # 0 \/ ev.re.modified THEN "opening the file again modified it"
        ELSE IF ~ev.re.same THEN "a second open shows different content than the first"
        ELSE IF ev.modified /\ ~ev.closed_ok THEN "after the repairing open the file is not a well-formed closed file"
        \* ... whose links lead somewhere: every item_next and every head-table entry of the file as the open left it
        \* leads forward to a chunk of the list it belongs to (ev.lk: the distinct <<list of the holder, list of the
        \* target, forward>> triples; a link into a chunk of another list, or to no chunk, is a dangling link)
        ELSE IF ~LinksLead(ev.lk) THEN "after the open a link of the file leads to a chunk of another list or to no chunk"
        ELSE ""
==========================================================================
