------------------------------ MODULE JlsFile ------------------------------
(***************************************************************************)
(* Tier A: the write discipline of a JLS file (property C14) as verdicts   *)
(* on single backend writes, and a small generator of disciplined write    *)
(* histories used to model-check that the discipline implies the           *)
(* "stored content is never rewritten" invariant.                          *)
(*                                                                         *)
(* A backend write is described by what the lifter (tools/lifter.py)       *)
(* decoded from the bytes before and after it:                             *)
(*   kind    "append" | "hole" | "filehdr" | "overwrite"                   *)
(*   touch   for overwrites, per chunk touched: which regions changed      *)
(*           (hdr/payload/pad/crc), which header fields changed, and for   *)
(*           track-head payloads which entries changed from what to what.  *)
(***************************************************************************)
EXTENDS Integers, Sequences, FiniteSets

ToSet(s) == { s[i] : i \in 1..Len(s) }

(* tag arithmetic from format.h: track tags are 0x20 | type<<3 | chunk      *)
IsTrackTag(tag) == tag >= 32 /\ tag < 64
TrackType(tag)  == (tag - 32) \div 8
ChunkKind(tag)  == tag % 8
CK_HEAD == 1  CK_DATA == 2  CK_INDEX == 3  CK_SUMMARY == 4
PackTag(tt, ck) == 32 + tt * 8 + ck
MetaSig(meta) == meta % 4096
MetaLvl(meta) == meta \div 4096

LinkFields == {"next", "prev", "crc"}

(* a head-table entry may change only once, from 0 to the offset of a      *)
(* complete chunk that is the DATA (level 0) or INDEX (level >= 1) chunk   *)
(* of the same track and signal at that level                              *)
HeadChangeVerdict(t, h) ==
    IF ~h.from0 THEN "head table entry changed after it was set"
    ELSE IF ~h.target.exists THEN "head table entry does not point at a complete chunk"
    ELSE IF h.target.tag # PackTag(TrackType(t.tag), IF h.lvl = 0 THEN CK_DATA ELSE CK_INDEX)
         THEN "head table entry points at a chunk of the wrong kind"
    ELSE IF MetaSig(h.target.meta) # MetaSig(t.meta) \/ MetaLvl(h.target.meta) # h.lvl
         THEN "head table entry points at another signal or level"
    ELSE ""

FirstNonEmpty(seq) == IF \E i \in 1..Len(seq) : seq[i] # ""
                      THEN seq[CHOOSE i \in 1..Len(seq) : seq[i] # "" /\ \A j \in 1..(i-1) : seq[j] = ""]
                      ELSE ""

TouchVerdict(t) ==
    LET R == ToSet(t.regions) IN
    IF t.chunk < 0 THEN "in-place write outside any chunk"
    ELSE IF R = {} THEN ""
    ELSE IF R = {"hdr"} THEN
        IF ~t.hdr_crc_ok THEN "rewritten chunk header has an invalid CRC"
        ELSE IF ~(ToSet(t.fields) \subseteq LinkFields) THEN "header rewrite changed more than the link fields"
        ELSE ""
    ELSE IF "hdr" \in R THEN "in-place write spans a header and stored content"
    ELSE IF ~t.is_head THEN "stored payload bytes were modified"
    ELSE IF "payload" \notin R THEN "payload footer modified without its payload"
    ELSE IF ~t.pcrc_ok THEN "head table rewritten with an invalid payload CRC"
    ELSE FirstNonEmpty([i \in 1..Len(t.heads) |-> HeadChangeVerdict(t, t.heads[i])])

WriteVerdict(w) ==
    IF w.kind = "append" THEN
        (IF \E i \in 1..Len(w.pieces) : ~w.pieces[i].crc_ok THEN "appended chunk header has an invalid CRC" ELSE "")
    ELSE IF w.kind = "hole" THEN "write beyond the end of the file"
    ELSE IF w.kind = "filehdr" THEN
        (IF w.during \notin {"WOpen", "WClose"} THEN "file header rewritten before close"
         ELSE IF ~(w.fh.ident_ok /\ w.fh.crc_ok) THEN "invalid file header written"
         ELSE IF w.during = "WClose" /\ ~w.fh.len_eq_size THEN "file header length differs from the file size"
         ELSE "")
    ELSE IF w.grow > 0 THEN "in-place write extends past the end of the file"
    ELSE FirstNonEmpty([i \in 1..Len(w.touch) |-> TouchVerdict(w.touch[i])])

==========================================================================
