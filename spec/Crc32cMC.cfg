SPECIFICATION Spec
INVARIANT CheckValue
INVARIANT EmptyValue
INVARIANT TableIsSerial
INVARIANT SplitInvariant
CHECK_DEADLOCK FALSE
