--------------------------- MODULE JlsFormatTrace ---------------------------
(* C05: the API events of a writer session build the abstract content S;     *)
(* the chunk list lifted from the bytes of the produced file must be          *)
(* well-formed per JlsFormat and decode to S.  Total style.                   *)
EXTENDS JlsFormat, Json, IOUtils, TLC

TraceLog == ndJsonDeserialize(IOEnv.TRACE)

VARIABLES l, S, D, F, x, skip, rej, nfiles
vars == <<l, S, D, F, x, skip, rej, nfiles>>
Ev == TraceLog[l]
NoF == [present |-> FALSE]

Init == l = 1 /\ S = Fresh /\ D = <<>> /\ F = NoF /\ x = 0 /\ skip = FALSE /\ rej = <<>> /\ nfiles = 0

Reject(v) == rej' = Append(rej, <<x, l, v>>) /\ skip' = TRUE /\ UNCHANGED <<S, D, F, x, nfiles>>

Step ==
    /\ l <= Len(TraceLog)
    /\ l' = l + 1
    /\ IF Ev.e = "Reset" THEN S' = Fresh /\ D' = <<>> /\ F' = NoF /\ x' = Ev.x /\ skip' = FALSE /\ UNCHANGED <<rej, nfiles>>
       ELSE IF skip THEN UNCHANGED <<S, D, F, x, skip, rej, nfiles>>
       ELSE IF Ev.e = "FileHdr" THEN F' = Ev /\ D' = <<>> /\ UNCHANGED <<S, x, skip, rej, nfiles>>
       ELSE IF Ev.e = "Chunk" THEN D' = Append(D, Ev) /\ UNCHANGED <<S, F, x, skip, rej, nfiles>>
       ELSE IF Ev.e = "FileEnd" THEN
            LET v1 == WellFormed(D, F, Ev, S)
                v == IF v1 # "" THEN v1 ELSE Decodes(D, S)
            IN IF v # "" THEN Reject(v)
               ELSE D' = <<>> /\ nfiles' = nfiles + 1 /\ UNCHANGED <<S, F, x, skip, rej>>
       ELSE LET v == Verdict(S, Ev) IN
            IF v # "" THEN Reject(v)
            ELSE S' = Update(S, Ev) /\ UNCHANGED <<D, F, x, skip, rej, nfiles>>

Spec == Init /\ [][Step]_vars
Done == PrintT(<<"TRACE_RESULT", TLCGet("stats").diameter - 1, Len(TraceLog)>>)
Final == (l = Len(TraceLog) + 1) => PrintT(<<"TRACE_REJ", rej>>) /\ PrintT(<<"TRACE_INFO", nfiles>>)
==========================================================================
