--------------------------- MODULE JlsCorruptTrace ---------------------------
EXTENDS JlsCorrupt, Json, IOUtils, TLC
TraceLog == ndJsonDeserialize(IOEnv.TRACE)
VARIABLES l, S, x, skip, rej, nobs
vars == <<l, S, x, skip, rej, nobs>>
Ev == TraceLog[l]
Init == l = 1 /\ S = Fresh /\ x = 0 /\ skip = FALSE /\ rej = <<>> /\ nobs = 0
Step ==
    /\ l <= Len(TraceLog)
    /\ l' = l + 1
    /\ IF Ev.e = "Reset" THEN S' = Fresh /\ x' = Ev.x /\ skip' = FALSE /\ UNCHANGED <<rej, nobs>>
       ELSE IF skip THEN UNCHANGED <<S, x, skip, rej, nobs>>
       ELSE IF Ev.e = "FaultObs" THEN
            LET v == FaultObsVerdict(S, Ev) IN
            /\ rej' = IF v = "" THEN rej ELSE Append(rej, <<x, l, v>>)
            /\ nobs' = nobs + 1 /\ UNCHANGED <<S, x, skip>>
       ELSE LET v == Verdict(S, Ev) IN
            IF v # "" THEN rej' = Append(rej, <<x, l, v>>) /\ skip' = TRUE /\ UNCHANGED <<S, x, nobs>>
            ELSE S' = Update(S, Ev) /\ UNCHANGED <<x, skip, rej, nobs>>
Spec == Init /\ [][Step]_vars
Done == PrintT(<<"TRACE_RESULT", TLCGet("stats").diameter - 1, Len(TraceLog)>>)
Final == (l = Len(TraceLog) + 1) => PrintT(<<"TRACE_REJ", rej>>) /\ PrintT(<<"TRACE_INFO", nobs>>)
==========================================================================
