------------------------------ MODULE RawTrace ------------------------------
(* Judges recorded raw-API sessions (harness/misuse_drv.c, x* calls, on the *)
(* ASan + UBSan build) with the contract of Raw.tla.  Calls of the writer    *)
(* prelude that builds the session's file are passed over.                   *)
EXTENDS Raw, Json, IOUtils
TraceLog == ndJsonDeserialize(IOEnv.TRACE)
VARIABLES l, S, x, skip, rej
vars == <<l, S, x, skip, rej>>
Ev == TraceLog[l]
CallOf(ev) == <<ev.op>> \o ev.a
IsRaw(ev) == ev.e = "Call" /\ SubSeq(ev.op, 1, 1) = "x"

Verdict(ev) ==
    IF ev.e = "Abnormal" THEN "the process crashed, hung, or the sanitizer reported a stray access"
    ELSE IF ev.e = "End" THEN (IF ev.live # 0 THEN "memory still allocated after every handle was closed" ELSE "")
    ELSE IF ~IsRaw(ev) THEN ""
    ELSE LET c == CallOf(ev)
             e == IF c \in Calls(S) THEN Expect(S, c) ELSE "any"
         IN IF e = "err" /\ (ev.rc = 0 \/ (ev.op = "xopen" /\ ev.out[2] # 0)) THEN "an invalid call was accepted: " \o ev.op
            ELSE IF e = "ok" /\ ev.rc # 0 THEN "a valid call was refused: " \o ev.op
            ELSE IF ev.op = "xclose" /\ ev.live # S.live0 THEN "memory not released by close: xclose"
            ELSE IF ev.op = "xopen" /\ ev.out[2] = 0 /\ ev.live # ev.out[1] THEN "a failed open keeps memory: xopen"
            ELSE IF ev.op = "xopen" /\ ev.out[2] = 0 /\ ev.rc = 0 THEN "open reports success without an instance"
            ELSE ""

Update(ev) ==
    IF ~IsRaw(ev) THEN S
    ELSE IF ev.op = "xopen" THEN (IF ev.out[2] # 0 THEN [Eff(S, CallOf(ev)) EXCEPT !.live0 = ev.out[1], !.mode = IF ev.a[2] \in 0..2 THEN ev.a[2] ELSE 0] ELSE S)
    ELSE IF ev.op = "xclose" THEN Eff(S, CallOf(ev))
    ELSE IF ev.rc # 0 THEN S
    ELSE Eff(S, CallOf(ev))

Init == l = 1 /\ S = S0 /\ x = 0 /\ skip = FALSE /\ rej = <<>>
Step ==
    /\ l <= Len(TraceLog) /\ l' = l + 1
    /\ IF Ev.e = "Reset" THEN S' = S0 /\ x' = Ev.x /\ skip' = FALSE /\ UNCHANGED rej
       ELSE IF skip THEN UNCHANGED <<S, x, skip, rej>>
       ELSE LET v == Verdict(Ev) IN
            IF v # "" THEN rej' = Append(rej, <<x, l, v>>) /\ skip' = TRUE /\ UNCHANGED <<S, x>>
            ELSE S' = Update(Ev) /\ UNCHANGED <<x, skip, rej>>
Spec == Init /\ [][Step]_vars
Done == PrintT(<<"TRACE_RESULT", TLCGet("stats").diameter - 1, Len(TraceLog)>>)
Final == (l = Len(TraceLog) + 1) => PrintT(<<"TRACE_REJ", rej>>)
=============================================================================
