------------------------ MODULE MrbContractTrace ------------------------
(* Trace validation of recorded jls_mrb_* executions against MrbContract.  *)
(* Total style: a call the contract does not allow is recorded in rej and   *)
(* the rest of that execution is skipped, so one TLC run judges every       *)
(* execution in the file.                                                   *)
EXTENDS MrbContract, Json, IOUtils, TLC

TraceLog == ndJsonDeserialize(IOEnv.TRACE)

VARIABLES l,      \* next line
          N,      \* capacity of the current execution
          q, T, stk, \* contract state (live messages, consumer positions) and the walk's snapshot stack
          x,      \* current execution number
          skip,   \* TRUE: execution already rejected, wait for Reset
          rej     \* rejected <<execution, line, reason>>

vars == <<l, N, q, T, stk, x, skip, rej>>

Ev == TraceLog[l]

Init == l = 1 /\ N = 0 /\ q = <<>> /\ T = {0} /\ stk = <<>> /\ x = 0 /\ skip = FALSE /\ rej = <<>>

Reject(why) == /\ rej' = Append(rej, <<x, l, why>>) /\ skip' = TRUE
               /\ UNCHANGED <<N, q, T, stk, x>>

Step ==
    /\ l <= Len(TraceLog)
    /\ l' = l + 1
    /\ IF Ev.e = "Reset" THEN
            /\ N' = Ev.n /\ q' = <<>> /\ T' = {0} /\ stk' = <<>> /\ x' = Ev.x /\ skip' = FALSE /\ UNCHANGED rej
       ELSE IF skip THEN UNCHANGED <<N, q, T, stk, x, skip, rej>>
       ELSE IF Ev.e = "Alloc" THEN
            LET v == AllocVerdict(q, T, N, Ev.size, Ev.ret, Ev.g) IN
            IF v # "" THEN Reject(v)
            ELSE /\ q' = AllocUpd(q, Ev.size, Ev.ret, Ev.fp) /\ T' = AllocUpdT(q, T, Ev.ret)
                 /\ UNCHANGED <<N, stk, x, skip, rej>>
       ELSE IF Ev.e \in {"Peek", "Pop"} THEN
            LET v == PeekVerdict(q, Ev.ret, Ev.size, Ev.fp, Ev.g) IN
            IF v # "" THEN Reject(v)
            ELSE /\ q' = (IF Ev.e = "Pop" THEN PopUpd(q, Ev.ret) ELSE q)
                 /\ T' = PeekUpdT(q, T, N, Ev.ret, Ev.e = "Pop")
                 /\ UNCHANGED <<N, stk, x, skip, rej>>
       ELSE IF Ev.e = "Push" THEN
            /\ stk' = Append(stk, <<q, T>>) /\ UNCHANGED <<N, q, T, x, skip, rej>>
       ELSE IF Ev.e = "Back" THEN
            /\ q' = stk[Len(stk)][1] /\ T' = stk[Len(stk)][2] /\ stk' = SubSeq(stk, 1, Len(stk) - 1) /\ UNCHANGED <<N, x, skip, rej>>
       ELSE Reject("unknown event")

Spec == Init /\ [][Step]_vars

\* evaluated once when the state space (a single path) is exhausted
Done == /\ PrintT(<<"TRACE_RESULT", TLCGet("stats").diameter - 1, Len(TraceLog)>>)
        /\ TRUE
Final == (l = Len(TraceLog) + 1) => PrintT(<<"TRACE_REJ", rej>>)
==========================================================================
