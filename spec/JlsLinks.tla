------------------------------ MODULE JlsLinks ------------------------------
(***************************************************************************)
(* Tier B: the writer's list maintenance (jls_core_update_item_head with a *)
(* cached copy of each list's tail, jls_track_update for the per-level     *)
(* head table) as a small state machine, checked against the format        *)
(* predicates Links and Heads of JlsFormat.tla at every reachable state    *)
(* after the pending link patch (i.e. between API calls) and at close.     *)
(***************************************************************************)
EXTENDS JlsFormat, TLC

CONSTANTS MaxChunks, Levels

VARIABLES D,      \* chunks written so far (records shaped like the lifter's Chunk events)
          tails,  \* cached tail per list key: offset of the last chunk, 0 = none
          headc,  \* index in D of the track HEAD chunk
          closed
lvars == <<D, tails, headc, closed>>

Keys == {<<"trk", 34, 1>>} \cup { <<"trk", 35, 1 + 4096 * l>> : l \in Levels } \cup { <<"trk", 36, 1 + 4096 * l>> : l \in Levels }

Chunk(off, tag, meta, prev) ==
    [off |-> off, tag |-> tag, meta |-> meta, plen |-> 0, pprev |-> 0, next |-> 0, prev |-> prev, hcrc |-> TRUE, pcrc |-> TRUE,
     pad0 |-> TRUE, rsv |-> 0, kind |-> IF tag = 255 THEN "end" ELSE "track", tt |-> 0, ck |-> tag % 8, sig |-> meta % 4096,
     lvl |-> meta \div 4096, ok |-> TRUE, ts |-> 0, cnt |-> 0, esb |-> 0, offs |-> [i \in 1..16 |-> 0], pairs |-> <<>>]

NextOff == 32 + 32 * Len(D)

LInit == /\ D = <<Chunk(32, 33, 1, 0)>>          \* the FSR track HEAD chunk of signal 1
         /\ tails = [k \in Keys |-> 0] /\ headc = 1 /\ closed = FALSE

\* append a chunk of list key k: prev = cached tail; patch the tail's next; move the tail;
\* INDEX and DATA chunks update the head table the first time their level appears
AppendChunk(k) ==
    LET c == Chunk(NextOff, k[2], k[3], tails[k])
        D1 == Append(D, c)
        D2 == IF tails[k] = 0 THEN D1 ELSE [D1 EXCEPT ![At(D1, tails[k])].next = c.off]
        lvl == k[3] \div 4096
        isHeadKind == (k[2] = 34 /\ lvl = 0) \/ (k[2] = 35)
        D3 == IF isHeadKind /\ D2[headc].offs[lvl + 1] = 0 THEN [D2 EXCEPT ![headc].offs[lvl + 1] = c.off] ELSE D2
    IN /\ D' = D3 /\ tails' = [tails EXCEPT ![k] = c.off]

LNext == /\ ~closed
         /\ \/ /\ Len(D) < MaxChunks /\ \E k \in Keys : AppendChunk(k) /\ UNCHANGED <<headc, closed>>
            \/ /\ closed' = TRUE /\ D' = Append(D, Chunk(NextOff, 255, 0, 0)) /\ UNCHANGED <<tails, headc>>
LSpec == LInit /\ [][LNext]_lvars

LinksOk == Links(IF closed THEN D ELSE Append(D, Chunk(NextOff, 255, 0, 0))) = ""
HeadsOk == Heads(D) = ""
==========================================================================
