------------------------------ MODULE JlsLinks ------------------------------
(***************************************************************************)
(* Tier B: the writer's list maintenance (jls_core_update_item_head with a *)
(* cached copy of each list's tail, jls_track_update for the per-level     *)
(* head table) as a small state machine, checked against the format        *)
(* predicates Links and Heads of JlsFormat.tla at every reachable state    *)
(* after the pending link patch (i.e. between API calls) and at close.     *)
(***************************************************************************)
EXTENDS JlsFormat, TLC

CONSTANTS MaxChunks, Levels

VARIABLES D,      \* chunks written so far (records shaped like the lifter's Chunk events)
          tails,  \* cached tail per list key: offset of the last chunk, 0 = none
          headc,  \* index in D of the track HEAD chunk
          closed,
          pending \* in-place patches of the current call not yet written: <<kind, chunk index, level, value>>
lvars == <<D, tails, headc, closed, pending>>

Keys == {<<"trk", 34, 1>>} \cup { <<"trk", 35, 1 + 4096 * l>> : l \in Levels } \cup { <<"trk", 36, 1 + 4096 * l>> : l \in Levels }

Chunk(off, tag, meta, prev) ==
    [off |-> off, tag |-> tag, meta |-> meta, plen |-> 0, pprev |-> 0, next |-> 0, prev |-> prev, hcrc |-> TRUE, pcrc |-> TRUE,
     pad0 |-> TRUE, rsv |-> 0, kind |-> IF tag = 255 THEN "end" ELSE "track", tt |-> 0, ck |-> tag % 8, sig |-> meta % 4096,
     lvl |-> meta \div 4096, ok |-> TRUE, ts |-> 0, cnt |-> 0, esb |-> 0, offs |-> [i \in 1..16 |-> 0], pairs |-> <<>>]

NextOff == 32 + 32 * Len(D)

LInit == /\ D = <<Chunk(32, 33, 1, 0)>>          \* the FSR track HEAD chunk of signal 1
         /\ tails = [k \in Keys |-> 0] /\ headc = 1 /\ closed = FALSE /\ pending = <<>>

\* One backend write per step, in the order of the code: the complete chunk first (prev = cached
\* tail), then the in-place patch of the old tail's item_next, then - the first time a level
\* appears - the in-place patch of the head table.
AppendChunk(k) ==
    LET c == Chunk(NextOff, k[2], k[3], tails[k])
        lvl == k[3] \div 4096
        isHeadKind == (k[2] = 34 /\ lvl = 0) \/ (k[2] = 35)
    IN /\ pending = <<>>
       /\ D' = Append(D, c)
       /\ tails' = [tails EXCEPT ![k] = c.off]
       /\ pending' = (IF tails[k] = 0 THEN <<>> ELSE << <<"next", At(D, tails[k]), 0, c.off>> >>)
                      \o (IF isHeadKind /\ D[headc].offs[lvl + 1] = 0 THEN << <<"head", headc, lvl, c.off>> >> ELSE <<>>)

Patch == /\ pending # <<>>
         /\ LET p == Head(pending) IN
            D' = IF p[1] = "next" THEN [D EXCEPT ![p[2]].next = p[4]] ELSE [D EXCEPT ![p[2]].offs[p[3] + 1] = p[4]]
         /\ pending' = Tail(pending)
         /\ UNCHANGED <<tails, headc, closed>>

LNext == /\ ~closed
         /\ \/ /\ Len(D) < MaxChunks /\ \E k \in Keys : AppendChunk(k) /\ UNCHANGED <<headc, closed>>
            \/ Patch
            \/ /\ pending = <<>> /\ closed' = TRUE /\ D' = Append(D, Chunk(NextOff, 255, 0, 0)) /\ UNCHANGED <<tails, headc, pending>>
LSpec == LInit /\ [][LNext]_lvars

LinksOk == pending = <<>> => Links(IF closed THEN D ELSE Append(D, Chunk(NextOff, 255, 0, 0))) = ""
HeadsOk == pending = <<>> => Heads(D) = ""
\* C03 rests on this: after ANY prefix of the backend writes, every pointer on disk is 0 or
\* leads to a chunk that is completely on disk
PointersValid == /\ \A i \in 1..Len(D) : D[i].next # 0 => At(D, D[i].next) # 0
                 /\ \A i \in 1..Len(D) : D[i].prev # 0 => At(D, D[i].prev) # 0
                 /\ \A l \in 1..16 : D[headc].offs[l] # 0 => At(D, D[headc].offs[l]) # 0
==========================================================================
