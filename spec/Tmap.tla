-------------------------------- MODULE Tmap --------------------------------
(***************************************************************************)
(* Sample-id <-> UTC conversion (property C12) in integer arithmetic.      *)
(*  - contract operators: which segment a query must be interpolated on,   *)
(*    and "within one tick of the exact linear value", cross-multiplied so *)
(*    that no division is needed;                                          *)
(*  - a transcription of interp_i64's binary search (src/tmap.c) as a      *)
(*    recursive operator that also reports every array index it reads, so  *)
(*    that TLC can check segment choice and in-bounds access for all small *)
(*    maps and all queries.                                                *)
(* A = sequence of anchors <<x, y>> strictly increasing in x.              *)
(***************************************************************************)
EXTENDS Integers, Sequences, FiniteSets

Abs(v) == IF v < 0 THEN -v ELSE v

\* the segment (index of its left anchor) the contract prescribes for query x0, n >= 2
Segment(A, x0) ==
    LET n == Len(A) IN
    IF x0 < A[1][1] THEN 1
    ELSE LET k == CHOOSE i \in 1..n : A[i][1] <= x0 /\ (i = n \/ A[i+1][1] > x0)
         IN IF k >= n THEN n - 1 ELSE k

\* Values beyond this magnitude are outside every map and query the drivers build (ids and times are relative to
\* per-signal bases and stay below about 1.7e7).  A result that large is wrong whatever the query was, and saying
\* so first keeps the cross-multiplied tests inside TLC's 32-bit integers; a query that large (it can only be a
\* result fed back in by a round trip) is not judged.
Huge(v) == v > 30000000 \/ v < -30000000

\* res is within one unit of the value interpolated/extrapolated on segment k
WithinOne(A, k, x0, res) ==
    LET x1 == A[k][1]  y1 == A[k][2]  x2 == A[k+1][1]  y2 == A[k+1][2]
        ds == x2 - x1
    IN IF Huge(x0) THEN TRUE
       ELSE IF Huge(res) THEN FALSE
       ELSE Abs((res - y1) * ds - (x0 - x1) * (y2 - y1)) <= ds

InterpOk(A, x0, res) == WithinOne(A, Segment(A, x0), x0, res)
ExactAtAnchors(A, x0, res) == \A i \in 1..Len(A) : A[i][1] = x0 => res = A[i][2]

\* one anchor: extrapolate with the nominal rate, num/den output units per input unit
RateOk(a, x0, res, num, den) ==
    IF Huge(x0) \/ Abs(x0 - a[1]) > 2147483647 \div num THEN TRUE
    ELSE IF Huge(res) \/ Abs(res - a[2]) > 2147483647 \div den THEN FALSE
    ELSE Abs((res - a[2]) * den - (x0 - a[1]) * num) <= den

--------------------------------------------------------------------------
(* transcription of interp_i64's search; indices are 0-based as in C.      *)
(* Returns [low, reads] where reads is the set of indices of x[] it read.  *)
RECURSIVE Search(_, _, _, _, _)
Search(X, x0, low, high, reads) ==
    IF low < high THEN
        LET mid == (low + high + 1) \div 2
            r == reads \cup {mid}
            xm == IF mid < Len(X) THEN X[mid + 1] ELSE 0      \* out-of-bounds read: value irrelevant, flagged by reads
        IN IF x0 = xm THEN [low |-> mid, reads |-> r]
           ELSE IF x0 < xm THEN Search(X, x0, low, mid - 1, r)
           ELSE Search(X, x0, mid, high, r)
    ELSE [low |-> low, reads |-> reads]

\* HighInit: the initial 'high' of the search (entries_length - 1 in the repaired code)
InterpLow(X, x0, highInit) ==
    LET s == Search(X, x0, 0, highInit, {})
        n == Len(X)
    IN [low |-> IF s.low >= n - 1 THEN n - 2 ELSE s.low, reads |-> s.reads]
==========================================================================
