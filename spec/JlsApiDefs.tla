----------------------------- MODULE JlsApiDefs -----------------------------
(***************************************************************************)
(* Model-checks the identity rules of the JlsApi contract (C13): every     *)
(* order of defining a few sources and signals - with duplicates, missing  *)
(* sources, invalid ids - and of sending data for defined and undefined    *)
(* signals.  The outcome of each call is what the contract prescribes      *)
(* (rc = 0 iff accepted); a refused call must leave the state unchanged.   *)
(***************************************************************************)
EXTENDS JlsApi, TLC

CONSTANTS MaxCalls, SrcIds, SigIds

VARIABLES S, k, lastRefused
dvars == <<S, k, lastRefused>>

Str == <<"s:a", "~", "s:", "s:b", "s:c">>
SrcEv(id) == [e |-> "SourceDef", id |-> id, s |-> Str, maxlen |-> 3, w |-> <<0, 0>>]
SigEv(id, src, st) == [e |-> "SignalDef", id |-> id, src |-> src, st |-> st, dt |-> "u8", fq |-> 0, bits |-> 8, rate |-> 1000, spd |-> 0, sdf |-> 0,
                       eps |-> 0, sumdf |-> 0, adf |-> 0, udf |-> 0, name |-> "~", units |-> "s:V", maxlen |-> 3, w |-> <<0, 0>>]
DataEv(kind, sig, q) == [e |-> kind, sig |-> sig, id |-> 0, n |-> 3, q |-> q, ts |-> 0, tok |-> "t", t |-> 0, en |-> 1, gen |-> "rnd", gp |-> 0, w |-> <<0, 0>>]

Accepts(ev) == CASE ev.e = "SourceDef" -> SourceAccept(S, ev)
                 [] ev.e = "SignalDef" -> SignalAccept(S, ev)
                 [] ev.e \in {"WrFsr", "Omit"} -> FsrAccept(S, ev)
                 [] ev.e = "Anno" -> AnnoAccept(S, ev)
                 [] ev.e = "Utc" -> UtcAccept(S, ev)

Call(ev0) == LET acc == Accepts(ev0)
                 ev == [ev0 EXCEPT !.w = <<0, 0>>] @@ [rc |-> IF acc THEN 0 ELSE 5]
             IN /\ Verdict(S, ev) = ""
                /\ S' = Update(S, ev)
                /\ lastRefused' = ~acc
                /\ k' = k + 1

DInit == S = Opened /\ k = 0 /\ lastRefused = FALSE
DNext == /\ k < MaxCalls
         /\ \/ \E id \in SrcIds : Call(SrcEv(id))
            \/ \E id \in SigIds, src \in SrcIds, st \in {0, 1, 2} : Call(SigEv(id, src, st))
            \/ \E kind \in {"WrFsr", "Anno", "Utc", "Omit"}, sig \in SigIds : Call(DataEv(kind, sig, k + 1))
DSpec == DInit /\ [][DNext]_dvars

UniqueIds == /\ \A i, j \in 1..Len(S.srcs) : S.srcs[i].id = S.srcs[j].id => i = j
             /\ \A i, j \in 1..Len(S.sigs) : S.sigs[i].id = S.sigs[j].id => i = j
SignalsHaveSources == \A i \in 1..Len(S.sigs) : Has(S.srcs, S.sigs[i].src)
ValidIdsOnly == (\A i \in 1..Len(S.srcs) : S.srcs[i].id < 256) /\ (\A i \in 1..Len(S.sigs) : S.sigs[i].id < 256)
ReservedPresent == Has(S.srcs, 0) /\ Has(S.sigs, 0)
RefusedChangesNothing == [][lastRefused' => S' = S]_dvars
\* the reader contract accepts an enumeration in id order with the normalised parameters
EnumAccepted ==
    LET ids == SortedIds(S.sigs) IN
    RdSignalsVerdict(S, [rc |-> 0, items |-> [i \in 1..Len(ids) |-> SigRec(S.sigs[Idx(S.sigs, ids[i])])]]) = ""
EnumOrderMatters ==
    Len(S.sigs) >= 2 =>
        LET ids == SortedIds(S.sigs)
            rev == [i \in 1..Len(ids) |-> SigRec(S.sigs[Idx(S.sigs, ids[Len(ids) + 1 - i])])]
        IN RdSignalsVerdict(S, [rc |-> 0, items |-> rev]) # ""
==========================================================================
