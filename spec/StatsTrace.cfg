SPECIFICATION Spec
INVARIANT Final2
POSTCONDITION Done
CHECK_DEADLOCK FALSE
