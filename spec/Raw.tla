--------------------------------- MODULE Raw ---------------------------------
(***************************************************************************)
(* Property C10 for the raw chunk API (include/jls/raw.h): what a session   *)
(* of jls_raw_* calls with arbitrary arguments may do.                      *)
(*                                                                         *)
(* The raw layer has almost no argument that is invalid by itself: a call  *)
(* may fail or succeed depending on the bytes under the cursor.  The        *)
(* contract therefore fixes only what the header promises - a mode string   *)
(* other than "r" / "w" / "a" and a missing file opened for reading must be *)
(* refused, a file opened for writing must open - and otherwise demands     *)
(* what C10 demands of every call: it returns, touches nothing outside the  *)
(* buffers it was given (sized as the header documents), and close releases *)
(* every block.  The abstract state exists to make the call SEQUENCES       *)
(* diverse: the open mode, the kind of file under the handle, a rough       *)
(* cursor class and whether a header is cached all select different code    *)
(* paths in src/raw.c.  RawGen dumps the graph; every (state, call) pair is *)
(* executed on the ASan + UBSan build by harness/misuse_drv.c.              *)
(***************************************************************************)
EXTENDS Integers, Sequences, FiniteSets, TLC

\* file kinds: 0 the closed file of the session's writer prelude, 1 missing, 2 garbage, 3 empty, 4 identification
\* only, 5 the first half of file 0, 6 a file of the raw session's own
Kinds == 0..6
\* modes: 0 "r", 1 "w", 2 "a", 3 "q", 4 ""
Modes == 0..4

\* made: an earlier open of this session in mode "w" / "a" may have created the file of kind 1 ("missing")
S0 == [open |-> FALSE, mode |-> 0, fk |-> 0, pos |-> "b", hdr |-> FALSE, made |-> FALSE, live0 |-> 0]

IdleCalls == { <<"xopen", k, m>> : k \in Kinds, m \in Modes } \cup
             { <<"xtag", v>> : v \in {0, 1, 2, 32, 39, 64, 127, 255} } \cup
             { <<"xdt", v>> : v \in {0, 259, 8196, 16388, 6145, 77, 65535} }
OpenCalls == {<<"xclose">>, <<"xrdhdr">>, <<"xend">>, <<"xtell">>, <<"xscan">>, <<"xflush">>, <<"xnext">>, <<"xprev">>,
              <<"xinext">>, <<"xiprev">>, <<"xver">>, <<"xbk">>} \cup
             { <<"xrd", m>> : m \in {0, 64, 100000} } \cup
             { <<"xrdpay", m>> : m \in {0, 64, 100000} } \cup
             { <<"xwr", t, 0, n>> : t \in {0, 64, 255}, n \in {0, 9, 70000} } \cup
             { <<"xwrhdr", t, 1, n>> : t \in {64, 255}, n \in {0, 9, 70000} } \cup
             { <<"xwrpay", n>> : n \in {0, 9, 70000} } \cup
             { <<"xseek", o>> : o \in {0, 32, 33, -1, 2147483647, -3} }
AllCalls == IdleCalls \cup OpenCalls

Calls(S) == IF S.open THEN OpenCalls ELSE IdleCalls

Expect(S, c) ==
    IF c[1] = "xopen" THEN
        (IF c[3] \in {3, 4} THEN "err"                       \* not a mode
         ELSE IF c[3] = 1 THEN "ok"                          \* "w" creates the file
         ELSE IF c[2] = 1 /\ c[3] = 0 /\ ~S.made THEN "err" \* nothing to read
         ELSE "any")
    ELSE IF c[1] = "xclose" THEN "ok"
    ELSE IF c[1] \in {"xtag", "xdt", "xver", "xbk", "xtell"} THEN "ok"
    ELSE "any"

\* the assumed effect of a successful call (navigation through the graph only; nothing is judged by it)
Eff(S, c) ==
    CASE c[1] = "xopen"  -> [S EXCEPT !.open = TRUE, !.mode = c[3], !.fk = c[2], !.pos = "b", !.hdr = FALSE,
                                      !.made = @ \/ (c[2] = 1 /\ c[3] \in {1, 2})]
      [] c[1] = "xclose" -> [S0 EXCEPT !.live0 = S.live0, !.made = S.made]
      [] c[1] = "xrdhdr" -> [S EXCEPT !.hdr = TRUE]
      [] c[1] \in {"xrd", "xrdpay", "xnext", "xinext", "xscan"} -> [S EXCEPT !.pos = "m", !.hdr = FALSE]
      [] c[1] \in {"xprev", "xiprev"} -> [S EXCEPT !.pos = "m", !.hdr = FALSE]
      [] c[1] = "xend"   -> [S EXCEPT !.pos = "e", !.hdr = FALSE]
      [] c[1] = "xseek"  -> [S EXCEPT !.pos = IF c[2] = 32 THEN "b" ELSE IF c[2] = -3 THEN "m" ELSE "x", !.hdr = FALSE]
      [] c[1] \in {"xwr", "xwrpay"} -> [S EXCEPT !.hdr = FALSE]
      [] c[1] = "xwrhdr" -> [S EXCEPT !.hdr = TRUE]
      [] OTHER -> S
==============================================================================
