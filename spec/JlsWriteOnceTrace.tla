------------------------- MODULE JlsWriteOnceTrace -------------------------
(* C14: every backend write of every recorded writer run is judged by       *)
(* JlsFile!WriteVerdict.  Total style (see MrbContractTrace).               *)
EXTENDS JlsFile, Json, IOUtils, TLC

TraceLog == ndJsonDeserialize(IOEnv.TRACE)

VARIABLES l, x, skip, rej, nwrites, writing
vars == <<l, x, skip, rej, nwrites, writing>>
Ev == TraceLog[l]

Init == l = 1 /\ x = 0 /\ skip = FALSE /\ rej = <<>> /\ nwrites = 0 /\ writing = FALSE

Reject(why) == rej' = Append(rej, <<x, l, why>>) /\ skip' = TRUE /\ UNCHANGED <<x, nwrites, writing>>

Step ==
    /\ l <= Len(TraceLog)
    /\ l' = l + 1
    /\ IF Ev.e = "Reset" THEN x' = Ev.x /\ skip' = FALSE /\ writing' = FALSE /\ UNCHANGED <<rej, nwrites>>
       ELSE IF skip THEN UNCHANGED <<x, skip, rej, nwrites, writing>>
       ELSE IF Ev.e = "BkOpen" THEN writing' = Ev.writable /\ UNCHANGED <<x, skip, rej, nwrites>>
       ELSE IF Ev.e = "BkWrite" /\ Ev.during # "ROpen" THEN
            LET v == WriteVerdict(Ev) IN
            IF v # "" THEN Reject(v)
            ELSE nwrites' = nwrites + 1 /\ UNCHANGED <<x, skip, rej, writing>>
       ELSE IF Ev.e = "BkTruncate" /\ Ev.during # "ROpen" THEN Reject("file truncated while writing")
       ELSE UNCHANGED <<x, skip, rej, nwrites, writing>>

Spec == Init /\ [][Step]_vars
Done == PrintT(<<"TRACE_RESULT", TLCGet("stats").diameter - 1, Len(TraceLog)>>)
Final == (l = Len(TraceLog) + 1) => PrintT(<<"TRACE_REJ", rej>>) /\ PrintT(<<"TRACE_INFO", nwrites>>)
==========================================================================
