---------------------------- MODULE StatsContract ----------------------------
(***************************************************************************)
(* C02 in exact integer arithmetic, for structured sample streams whose    *)
(* window statistics have closed forms:                                    *)
(*   "ramp", M : v(i) = i mod M          "bit", P : v(i) = 1 if (i mod P) < (P+1) div 2 else 0 *)
(* (i = sample id relative to the signal's base, i >= 0).                  *)
(***************************************************************************)
EXTENDS Integers, Sequences

SMax(a, b) == IF a > b THEN a ELSE b
SMin(a, b) == IF a < b THEN a ELSE b
SAbs(v) == IF v < 0 THEN -v ELSE v

\* prefix sums over 0..n-1
RampSum(M, n) == (n \div M) * ((M * (M - 1)) \div 2) + (((n % M) * ((n % M) - 1)) \div 2)
RampSq(M, n)  == (n \div M) * (((M - 1) * M * (2 * M - 1)) \div 6) + ((((n % M) - 1) * (n % M) * (2 * (n % M) - 1)) \div 6)
BitSum(P, n)  == LET H == (P + 1) \div 2 IN (n \div P) * H + SMin(n % P, H)

\* both streams have period p: shift the window to start inside the first period (keeps numbers small)
Sum(gen, p, a, b) == LET a0 == a % p  b0 == a0 + (b - a)
                     IN IF gen = "ramp" THEN RampSum(p, b0) - RampSum(p, a0) ELSE BitSum(p, b0) - BitSum(p, a0)
SumSq(gen, p, a, b) == LET a0 == a % p  b0 == a0 + (b - a)
                       IN IF gen = "ramp" THEN RampSq(p, b0) - RampSq(p, a0) ELSE BitSum(p, b0) - BitSum(p, a0)

WMin(gen, p, a, b) ==
    IF gen = "ramp" THEN
        (IF b - a >= p THEN 0 ELSE IF (a % p) + (b - a) <= p THEN a % p ELSE 0)
    ELSE (IF Sum(gen, p, a, b) = b - a THEN 1 ELSE 0)
WMax(gen, p, a, b) ==
    IF gen = "ramp" THEN
        (IF b - a >= p THEN p - 1 ELSE IF (a % p) + (b - a) <= p THEN (a % p) + (b - a) - 1 ELSE p - 1)
    ELSE (IF Sum(gen, p, a, b) = 0 THEN 0 ELSE 1)

\* tolerance on n*mean: one unit plus the relative precision of the stored summaries
SumTol(S, wide) == 1 + (IF wide THEN 0 ELSE SAbs(S) \div 1000000) + SAbs(S) \div 4000000

\* the variance clause is evaluated only where n*SumSq and n*(n-1) stay below 2^31
VarComputable(gen, p, n, d) == n >= 2 /\ n * (IF gen = "ramp" THEN p - 1 ELSE 1) <= 46000

\* floor(100 * num / den) without leaving 32 bits (den <= 2^31, scaled remainder)
Var100(num, den) == LET k == 1 + den \div 20000000
                    IN 100 * (num \div den) + (100 * ((num % den) \div k)) \div (den \div k)

\* single window [a,b): e = one projected entry
SingleVerdict(gen, p, a, b, e, d, wide) ==
    LET n == b - a
        S == Sum(gen, p, a, b)
    IN IF e.nan # <<0, 0, 0, 0>> THEN "statistics are NaN although the window has no gap"
       ELSE IF e.mn.k # "i" \/ e.mn.v # WMin(gen, p, a, b) THEN "min is not the minimum of the window"
       ELSE IF e.mx.k # "i" \/ e.mx.v # WMax(gen, p, a, b) THEN "max is not the maximum of the window"
       ELSE IF e.sres < 0 \/ SAbs(e.sum - S) > SumTol(S, wide) THEN "mean is not the mean of the window"
       ELSE IF e.var100 < 0 THEN "std is not a number"
       ELSE IF VarComputable(gen, p, n, d) THEN
            LET Q == SumSq(gen, p, a, b)
                v == Var100(n * Q - S * S, n * (n - 1))     \* sample variance in 1/100 units
                tol == 2 + v \div 50000
            IN IF e.var100 > v + tol THEN "std exceeds the sample standard deviation of the window"
               ELSE IF e.var100 < v - (v \div d) - tol - 1 THEN "std is below sqrt((d-1)/d) of the sample standard deviation"
               ELSE ""
       ELSE ""

\* multi-window request: entry i describes [s+i*incr, s+(i+1)*incr); L = signal end (exclusive, same units)
MultiVerdict(gen, p, s, incr, ent, lo, L, wide) ==
    LET cnt == Len(ent)
        Bad(i) == LET a == SMax(lo, s + (i - 2) * incr)
                      b == SMin(L, s + (i + 1) * incr)
                      mnW == WMin(gen, p, a, b)
                      mxW == WMax(gen, p, a, b)
                      e == ent[i]
                  IN \/ e.nan # <<0, 0, 0, 0>>
                     \/ e.mn.k = "x" \/ e.mn.v < mnW \/ e.mx.k = "x" \/ (IF e.mx.k = "i" THEN e.mx.v ELSE e.mx.v + 1) > mxW
                     \/ e.sres < 0 \/ e.sum < mnW * incr - 1 \/ e.sum > mxW * incr + 1
        F[i \in 0..cnt] == IF i = 0 THEN 0 ELSE F[i-1] + ent[i].sum
        S == Sum(gen, p, s, s + cnt * incr)
    IN IF \E i \in 1..cnt : Bad(i) THEN "an entry is outside the extremes of its widened window"
       ELSE IF SAbs(F[cnt] - S) > cnt + SumTol(S, wide) THEN "the average of the entries' means is not the mean of the range"
       ELSE ""
==========================================================================
