SPECIFICATION DSpec
CONSTANTS
  MaxCalls = 4
  SrcIds = {0, 1, 255, 256}
  SigIds = {0, 2, 255, 300}
INVARIANT UniqueIds
INVARIANT SignalsHaveSources
INVARIANT ValidIdsOnly
INVARIANT ReservedPresent
INVARIANT EnumAccepted
INVARIANT EnumOrderMatters
PROPERTY RefusedChangesNothing
CHECK_DEADLOCK FALSE
