SPECIFICATION Spec
CONSTANT MaxT = 4
INVARIANT Final
POSTCONDITION Done
CHECK_DEADLOCK FALSE
