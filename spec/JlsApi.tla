------------------------------- MODULE JlsApi -------------------------------
(***************************************************************************)
(* Tier A: the reader/writer contract of jls as a state machine over the   *)
(* abstract content of one file.  Pure operators: for every API event `ev` *)
(* (as recorded by tools/jlsdrv.py at the call's return)                    *)
(*     Verdict(S, ev)  = "" when the contract allows the observed outcome, *)
(*                        otherwise the reason it does not;                 *)
(*     Update(S, ev)   = the abstract state after the call.                 *)
(* Used by JlsApiTrace (C01 C09 C11 C12 C13 C15), JlsFormatTrace (C05),     *)
(* JlsCrashTrace (C03 C19) and JlsCopyTrace (C17).                          *)
(*                                                                         *)
(* Abstract state S (a record):                                             *)
(*   mode   "init" | "writing" | "closed" | "reading"                       *)
(*   srcs   sequence of [id, s]          (s = the five string tokens)       *)
(*   sigs   sequence of signal records, see NewSig                          *)
(*   ud     sequence of [meta, st, tok, size]                               *)
(* Sample content is never stored: segs holds *references* [src, a, b) =    *)
(* "ids a..b-1 come from write event src" (src = 0: fill values).           *)
(***************************************************************************)
EXTENDS Integers, Sequences, FiniteSets, SigDef, Tmap, StatsContract

SrcTok0 == <<"h:24:5b4486e46d780d11", "s:jls", "s:-", "s:1.0.0", "s:-">>   \* SOURCE_0 of src/writer.c
Sig0Name == "h:24:4e42a77955b956d0"                                       \* "global_annotation_signal"

AbsentToEmpty(t) == IF t = "~" THEN "s:" ELSE t

Idx(seq, id) == IF \E i \in 1..Len(seq) : seq[i].id = id
                THEN CHOOSE i \in 1..Len(seq) : seq[i].id = id ELSE 0
Has(seq, id) == Idx(seq, id) # 0

ValidTypes == {"u1", "u4", "u8", "u16", "u24", "u32", "u64", "i4", "i8", "i16", "i24", "i32", "i64", "f32", "f64"}

NewSig(ev) ==
    [id |-> ev.id, src |-> ev.src, st |-> ev.st, dt |-> ev.dt, fq |-> ev.fq, bits |-> ev.bits,    \* fq: fixed-point position, part of the data type
     rate |-> IF ev.st = 1 THEN 0 ELSE ev.rate,
     norm |-> Normalise(ev.bits, [spd |-> ev.spd, sdf |-> ev.sdf, eps |-> ev.eps, sumdf |-> ev.sumdf, adf |-> ev.adf, udf |-> ev.udf]),
     name |-> AbsentToEmpty(ev.name), units |-> AbsentToEmpty(ev.units),
     has |-> FALSE, first |-> 0, next |-> 0, segs |-> <<>>,
     reg |-> 0, nblk |-> 0, synth |-> {},
     annos |-> <<>>, utcs |-> <<>>, i2t |-> {}, t2i |-> {}, gen |-> "", gp |-> 0]

Sig0Ev == [id |-> 0, src |-> 0, st |-> 1, dt |-> "f32", fq |-> 0, bits |-> 32, rate |-> 0, spd |-> 10, sdf |-> 10, eps |-> 10,
           sumdf |-> 10, adf |-> 100, udf |-> 100, name |-> Sig0Name, units |-> "s:"]

Fresh == [mode |-> "init", srcs |-> <<>>, sigs |-> <<>>, ud |-> <<>>]
Opened == [mode |-> "writing", srcs |-> <<[id |-> 0, s |-> SrcTok0]>>, sigs |-> <<NewSig(Sig0Ev)>>, ud |-> <<>>]

Length(g) == IF g.has THEN g.next - g.first ELSE 0

--------------------------------------------------------------------------
(* writer side *)

SourceAccept(S, ev) == ev.id < 256 /\ ~Has(S.srcs, ev.id)
SignalAccept(S, ev) == /\ ev.id < 256 /\ ev.src < 256 /\ Has(S.srcs, ev.src) /\ ~Has(S.sigs, ev.id)
                       /\ ev.st \in {0, 1} /\ ev.dt \in ValidTypes
                       /\ (ev.st = 0 => ev.rate # 0)
                       /\ Acceptable(ev.bits, [spd |-> ev.spd, sdf |-> ev.sdf, eps |-> ev.eps, sumdf |-> ev.sumdf, adf |-> 0, udf |-> 0])

\* omission on request (C15): the request takes effect one block later, never for the
\* first block, and not at all for types of 8 bits or less (constant detection rules there)
RegStep(r) == ((2 * r) + (r % 2)) % 256
\* the register is 0 or odd; from an odd value it reaches 255 within 7 steps and stays
StepN(r, m) == LET F[k \in 0..(IF m < 8 THEN m ELSE 8)] == IF k = 0 THEN r ELSE RegStep(F[k-1])
               IN F[IF m < 8 THEN m ELSE 8]
OmitBlocks(g, nblk1) ==
    \* blocks g.nblk .. nblk1-1 complete during this call; block g.nblk+j sees StepN(g.reg, j),
    \* which exceeds 1 iff g.reg > 1, or g.reg = 1 and j >= 1
    [reg |-> StepN(g.reg, nblk1 - g.nblk),
     synth |-> g.synth \cup { k \in g.nblk..(nblk1-1) :
                                 (g.reg > 1 \/ (g.reg = 1 /\ k > g.nblk)) /\ k > 0 /\ g.bits > 8 }]

FsrUpd(g, ev) ==
    IF ev.n = 0 THEN g
    ELSE LET g0 == [g EXCEPT !.gen = IF g.gen = "" THEN ev.gen ELSE IF g.gen = ev.gen /\ g.gp = ev.gp THEN g.gen ELSE "mixed",
                             !.gp = IF g.gen = "" THEN ev.gp ELSE g.gp]
             g1 == IF ~g.has THEN [g0 EXCEPT !.has = TRUE, !.first = ev.id, !.next = ev.id] ELSE g0
             hi == ev.id + ev.n
             g2 == IF ev.id = g1.next THEN [g1 EXCEPT !.segs = Append(@, [src |-> ev.q, a |-> ev.id, b |-> hi]), !.next = hi]
                   ELSE IF ev.id > g1.next THEN
                        [g1 EXCEPT !.segs = @ \o <<[src |-> 0, a |-> g1.next, b |-> ev.id], [src |-> ev.q, a |-> ev.id, b |-> hi]>>,
                                   !.next = hi]
                   ELSE IF hi <= g1.next THEN g1
                   ELSE [g1 EXCEPT !.segs = Append(@, [src |-> ev.q, a |-> g1.next, b |-> hi]), !.next = hi]
             nblk1 == (g2.next - g2.first) \div g2.norm.spd
             ob == OmitBlocks(g2, nblk1)
         IN [g2 EXCEPT !.nblk = nblk1, !.reg = ob.reg, !.synth = ob.synth]

\* the final partial block is written at close under the same omission rule
CloseSig(g) == IF g.has /\ (g.next - g.first) % g.norm.spd # 0 /\ g.reg > 1 /\ g.nblk > 0 /\ g.bits > 8
               THEN [g EXCEPT !.synth = @ \cup {g.nblk}] ELSE g

FsrAccept(S, ev) == Has(S.sigs, ev.sig) /\ S.sigs[Idx(S.sigs, ev.sig)].st = 0
AnnoAccept(S, ev) == Has(S.sigs, ev.sig)
UtcAccept(S, ev) == Has(S.sigs, ev.sig) /\ S.sigs[Idx(S.sigs, ev.sig)].st = 0

RcMatches(accept, rc) == (accept /\ rc = 0) \/ (~accept /\ rc # 0)
RcWhy(accept, rc) == IF RcMatches(accept, rc) THEN ""
                     ELSE IF accept THEN "a valid call was refused" ELSE "an invalid call was accepted"
\* a refused writer call must not have touched the file: no backend I/O between call and return
WrWhy(accept, ev) == IF RcWhy(accept, ev.rc) # "" THEN RcWhy(accept, ev.rc)
                     ELSE IF ev.rc # 0 /\ ev.w[2] # ev.w[1] THEN "a refused call wrote to the file"
                     ELSE ""
\* strings that do not fit the writer's 1 MiB string block may be refused (then nothing changes)
LongString(ev) == ev.maxlen >= 1048575
DefWhy(accept, ev) == IF accept /\ LongString(ev) /\ ev.rc # 0
                      THEN (IF ev.w[2] # ev.w[1] THEN "a refused call wrote to the file" ELSE "")
                      ELSE WrWhy(accept, ev)


--------------------------------------------------------------------------
(* reader side *)

\* the segment of g that holds absolute id a
SegAt(g, a) == CHOOSE i \in 1..Len(g.segs) : g.segs[i].a <= a /\ a < g.segs[i].b

RunsCover(runs, start, n) ==
    /\ Len(runs) > 0 /\ runs[1].p = start
    /\ \A i \in 1..Len(runs) : runs[i].n > 0 /\ (i > 1 => runs[i].p = runs[i-1].p + runs[i-1].n)
    /\ runs[Len(runs)].p + runs[Len(runs)].n = start + n

\* run r of signal g (positions are reader indices: absolute id = first + p)
RunOk(g, r) ==
    LET a == g.first + r.p
        b == a + r.n
        i == SegAt(g, a)
        ToS(s) == { s[k] : k \in 1..Len(s) }
        kLo == (a - g.first) \div g.norm.spd
        kHi == (b - 1 - g.first) \div g.norm.spd
    IN \/ \E k \in kLo..kHi : k \in g.synth                       \* synthesised block: any value
       \/ (b <= g.segs[i].b /\ g.segs[i].src \in ToS(r.c))
       \/ (b > g.segs[i].b /\ \A j \in i..Len(g.segs) :            \* run spans segments of one source
               (g.segs[j].a < b) => g.segs[j].src \in ToS(r.c))

RdFsrVerdict(S, ev) ==
    IF ~ev.g THEN "wrote outside the caller's buffer"
    ELSE IF ~FsrAccept(S, ev) THEN (IF ev.rc = 0 THEN "read of an undefined or non-FSR signal succeeded" ELSE "")
    ELSE LET g == S.sigs[Idx(S.sigs, ev.sig)] IN
        IF ev.n <= 0 THEN (IF ev.rc = 0 THEN "" ELSE "empty read refused")
        ELSE IF ev.start < 0 \/ ev.start + ev.n > Length(g)
             THEN (IF ev.rc = 0 THEN "read outside the signal succeeded" ELSE "")
        ELSE IF ev.rc # 0 THEN "read inside the signal failed"
        ELSE IF ~RunsCover(ev.runs, ev.start, ev.n) THEN "returned runs do not cover the window"
        ELSE IF \E i \in 1..Len(ev.runs) : ~RunOk(g, ev.runs[i]) THEN "returned samples differ from what was written"
        ELSE ""

RdLengthVerdict(S, ev) ==
    IF ~FsrAccept(S, ev) THEN (IF ev.rc = 0 THEN "length of an undefined or non-FSR signal" ELSE "")
    ELSE IF ev.rc # 0 THEN "length query failed"
    ELSE IF ev.len # Length(S.sigs[Idx(S.sigs, ev.sig)]) THEN "wrong signal length"
    ELSE ""

\* annotations: a contiguous tail containing everything at or after t and at most one earlier
FirstGE(A, t) == IF \E i \in 1..Len(A) : A[i][1] >= t THEN CHOOSE i \in 1..Len(A) : A[i][1] >= t /\ \A j \in 1..(i-1) : A[j][1] < t
                 ELSE Len(A) + 1
RdAnnoVerdict(S, ev) ==
    IF ~Has(S.sigs, ev.sig) THEN (IF ev.rc = 0 THEN "annotations of an undefined signal" ELSE "")
    ELSE IF ev.rc # 0 THEN "annotation read failed"
    ELSE LET A == S.sigs[Idx(S.sigs, ev.sig)].annos
             k == FirstGE(A, ev.t)
             n == Len(ev.items)
         IN IF \E j \in {k - 1, k} : j >= 1 /\
                  LET want == SubSeq(A, j, Len(A)) IN
                  IF ev.stop > 0 /\ Len(want) > ev.stop THEN ev.items = SubSeq(want, 1, ev.stop)
                  ELSE ev.items = want
            THEN "" ELSE "annotation iteration is not the expected tail"

UtcFrom(U, id) == SelectSeq(U, LAMBDA u : u[1] >= id)
IsPrefixOf(s, t) == Len(s) <= Len(t) /\ s = SubSeq(t, 1, Len(s))
RdUtcVerdict(S, ev) ==
    IF ~Has(S.sigs, ev.sig) THEN (IF ev.rc = 0 THEN "UTC of an undefined signal" ELSE "")
    ELSE IF ev.rc # 0 THEN "UTC read failed"
    ELSE LET want == UtcFrom(S.sigs[Idx(S.sigs, ev.sig)].utcs, ev.id) IN
         IF ev.stop = 0 THEN (IF ev.items = want THEN "" ELSE "UTC entries differ from those written at or after the id")
         ELSE IF IsPrefixOf(ev.items, want) /\ (Len(ev.items) > 0 \/ Len(want) = 0) THEN "" ELSE "UTC entries differ (stopped iteration)"

RdUserDataVerdict(S, ev) ==
    IF ev.rc # 0 THEN "user data read failed"
    ELSE IF ev.stop = 0 \/ Len(S.ud) <= ev.stop THEN (IF ev.items = S.ud THEN "" ELSE "user data differ from what was written")
    ELSE IF ev.items = SubSeq(S.ud, 1, ev.stop) THEN "" ELSE "user data differ (stopped iteration)"

\* id order
SortedIds(seq) == LET ids == { seq[i].id : i \in 1..Len(seq) }
                      F[k \in 0..Cardinality(ids)] ==
                          IF k = 0 THEN <<>>
                          ELSE LET rest == ids \ { F[k-1][j] : j \in 1..(k-1) }
                               IN Append(F[k-1], CHOOSE m \in rest : \A o \in rest : m <= o)
                  IN F[Cardinality(ids)]

RdSourcesVerdict(S, ev) ==
    IF ev.rc # 0 THEN "sources read failed"
    ELSE LET ids == SortedIds(S.srcs)
             want == [k \in 1..Len(ids) |-> <<ids[k]>> \o [j \in 1..5 |-> AbsentToEmpty(S.srcs[Idx(S.srcs, ids[k])].s[j])]]
         IN IF ev.items = want THEN "" ELSE "sources differ from the definitions written"

SigRec(g) == [id |-> g.id, src |-> g.src, st |-> g.st, dt |-> g.dt, fq |-> g.fq, rate |-> g.rate, spd |-> g.norm.spd, sdf |-> g.norm.sdf,
              eps |-> g.norm.eps, sumdf |-> g.norm.sumdf, adf |-> g.norm.adf, udf |-> g.norm.udf, name |-> g.name, units |-> g.units]

RdSignalsVerdict(S, ev) ==
    IF ev.rc # 0 THEN "signals read failed"
    ELSE LET ids == SortedIds(S.sigs)
             want == [k \in 1..Len(ids) |-> SigRec(S.sigs[Idx(S.sigs, ids[k])])]
         IN IF ev.items = want THEN "" ELSE "signal definitions differ from those written (as normalised)"

RdSignalVerdict(S, ev) ==
    IF ~Has(S.sigs, ev.id) THEN (IF ev.rc = 0 THEN "definition of an undefined signal" ELSE "")
    ELSE IF ev.rc # 0 THEN "signal read failed"
    ELSE IF ev.def = SigRec(S.sigs[Idx(S.sigs, ev.id)]) THEN "" ELSE "signal definition differs from the one written (as normalised)"

\* ---- statistics (C02)
RECURSIVE LevelFrom(_, _, _, _, _)
LevelFrom(lvl, m, incr, dur, sumdf) == IF incr >= m /\ dur >= 25 * m /\ lvl < 15 THEN LevelFrom(lvl + 1, m * sumdf, incr, dur, sumdf) ELSE lvl
LevelFor(g, incr, cnt) == LevelFrom(0, g.norm.sdf, incr, incr * cnt, g.norm.sumdf)
WideSummary(dt) == dt \in {"i32", "i64", "u32", "u64", "f64"}
HasFill(g, a, b) == \E i \in 1..Len(g.segs) : g.segs[i].src = 0 /\ g.segs[i].a < b /\ g.segs[i].b > a

RdStatsVerdict(S, ev) ==
    IF ~ev.g THEN "wrote outside the caller's buffer"
    ELSE IF ~FsrAccept(S, ev) THEN (IF ev.rc = 0 THEN "statistics of an undefined or non-FSR signal" ELSE "")
    ELSE LET g == S.sigs[Idx(S.sigs, ev.sig)]
             a == g.first + ev.start
         IN
        IF ev.incr <= 0 THEN (IF ev.rc = 0 THEN "statistics with a non-positive increment succeeded" ELSE "")
        ELSE IF ev.cnt <= 0 THEN ""
        ELSE IF ev.start < 0 \/ ev.start + ev.incr * ev.cnt > Length(g)
             THEN (IF ev.rc = 0 THEN "statistics outside the signal succeeded" ELSE "")
        ELSE IF g.bits = 24 THEN ""                                          \* not a type the reader can summarise
        ELSE IF g.bits = 64 /\ ev.rc # 0 THEN ""      \* level-0 statistics of 64-bit types (also needed for unaligned edges) are unsupported
        ELSE IF ev.rc # 0 THEN "statistics request inside the signal failed"
        ELSE IF Len(ev.ent) # ev.cnt THEN "wrong number of statistics entries"
        ELSE IF g.gen \notin {"ramp", "bit"} \/ HasFill(g, a, a + ev.incr * ev.cnt) THEN ""
        ELSE IF ev.cnt = 1 THEN SingleVerdict(g.gen, g.gp, a, a + ev.incr, ev.ent[1], g.norm.sdf, WideSummary(g.dt))
        ELSE MultiVerdict(g.gen, g.gp, a, ev.incr, ev.ent, g.first, g.next, WideSummary(g.dt))

\* ---- stored summary entries, lifted from the file (C02; C09: gap samples of float signals are absent)
\* entry i of a SUMMARY chunk of level lvl describes [ts + (i-1)*span, ts + i*span); the samples that exist there are
\* the parts of written segments inside it.  Level 1 must describe exactly those; higher levels average their
\* sub-entries with equal weights, which is the exact mean / population variance only where nothing is missing.
RECURSIVE PieceAgg(_, _, _, _, _)
\* <<count, sum, sum of squares, min, max>> of the written samples of g in [a, b), from segment i on
PieceAgg(g, i, a, b, acc) ==
    IF i > Len(g.segs) THEN acc
    ELSE LET sg == g.segs[i]
             lo == SMax(a, sg.a)
             hi == SMin(b, sg.b)
         IN IF lo >= hi \/ (sg.src = 0 /\ g.dt \in {"f32", "f64"}) THEN PieceAgg(g, i + 1, a, b, acc)
            ELSE IF sg.src = 0 THEN            \* the gap of an integer signal is that many zeros
                 PieceAgg(g, i + 1, a, b, <<acc[1] + (hi - lo), acc[2], acc[3],
                                            IF acc[1] = 0 THEN 0 ELSE SMin(acc[4], 0), IF acc[1] = 0 THEN 0 ELSE SMax(acc[5], 0)>>)
            ELSE PieceAgg(g, i + 1, a, b,
                          <<acc[1] + (hi - lo), acc[2] + Sum(g.gen, g.gp, lo, hi), acc[3] + SumSq(g.gen, g.gp, lo, hi),
                            IF acc[1] = 0 THEN WMin(g.gen, g.gp, lo, hi) ELSE SMin(acc[4], WMin(g.gen, g.gp, lo, hi)),
                            IF acc[1] = 0 THEN WMax(g.gen, g.gp, lo, hi) ELSE SMax(acc[5], WMax(g.gen, g.gp, lo, hi))>>)

SumEntryBad(g, lvl, a, b, e, wide) ==
    LET A == PieceAgg(g, 1, a, b, <<0, 0, 0, 0, 0>>)
        k == A[1]
        full == k = b - a
    IN IF k = 0 THEN FALSE                                   \* nothing written there (all fill): NaN or anything
       \* upper levels with something missing: the mean is an unweighted average of the sub-entries (approximate by
       \* design); the extremes are still those of the samples that exist, and nothing is NaN
       ELSE IF lvl > 1 /\ ~full THEN
            e.nan[1] # 0 \/ e.nan[3] # 0 \/ e.nan[4] # 0 \/ e.mn.k # "i" \/ e.mn.v # A[4] \/ e.mx.k # "i" \/ e.mx.v # A[5]
       ELSE IF e.nan # <<0, 0, 0, 0>> THEN TRUE
       ELSE IF e.mn.k # "i" \/ e.mn.v # A[4] \/ e.mx.k # "i" \/ e.mx.v # A[5] THEN TRUE
       \* mean = sum / count: |m1000 * k - 1000 * S| within rounding (k + relative precision)
       ELSE IF SAbs(e.m1000 * k - 1000 * A[2]) > k + (IF wide THEN 0 ELSE SAbs(1000 * A[2]) \div 1000000) + 1 THEN TRUE
       \* population variance = (k * Q - S^2) / k^2, in 1/100 units
       ELSE IF k * (IF g.gen = "ramp" THEN g.gp - 1 ELSE 1) > 46000 \/ k < 2 THEN FALSE
       ELSE LET v == Var100(k * A[3] - A[2] * A[2], k * k)
                tol == 2 + v \div 50000
            IN e.var100 < 0 \/ e.var100 > v + tol \/ e.var100 < v - tol

SumEntriesVerdict(S, ev) ==
    IF ~FsrAccept(S, ev) THEN ""
    ELSE LET g == S.sigs[Idx(S.sigs, ev.sig)] IN
         IF g.gen \notin {"ramp", "bit"} \/ g.bits = 24 \/ g.synth # {} THEN ""
         ELSE LET bad == { i \in 1..Len(ev.ent) :
                              SumEntryBad(g, ev.lvl, ev.ts + (i - 1) * ev.span, SMin(ev.ts + i * ev.span, g.next), ev.ent[i], ev.wide) }
              IN IF bad = {} THEN ""
                 ELSE LET i == CHOOSE j \in bad : \A m \in bad : j <= m IN
                      IF HasFill(g, ev.ts + (i - 1) * ev.span, ev.ts + i * ev.span)
                      THEN "a stored summary entry does not treat gap samples as absent"
                      ELSE "a stored summary entry does not describe its samples"

\* ---- which blocks were omitted (C15): never the first; on request exactly the blocks the
\* documented one-block delay prescribes (types above 8 bits; below, constant detection rules)
IdxZerosVerdict(S, ev) ==
    IF ~FsrAccept(S, ev) THEN ""
    ELSE LET g == S.sigs[Idx(S.sigs, ev.sig)]
             Z == { ev.zeros[i] : i \in 1..Len(ev.zeros) }
         IN IF 0 \in Z THEN "the first block of a signal was omitted"
            ELSE IF g.bits > 8 /\ Z # g.synth THEN "omitted blocks differ from the documented one-block delay"
            ELSE ""

\* ---- sample id <-> time (C12); anchors are the UTC pairs written, <<id, t>>
TicksPerSample(rate) == CASE rate = 1073741824 -> <<1, 1>>
                          [] rate = 268435456 -> <<4, 1>>
                          [] rate = 16777216 -> <<64, 1>>
                          [] rate = 1048576 -> <<1024, 1>>
                          [] rate = 1000000000 -> <<2097152, 1953125>>
                          [] rate = 1000000 -> <<16777216, 15625>>
                          [] rate = 48000 -> <<8388608, 375>>
                          [] rate = 1000 -> <<134217728, 125>>
                          [] OTHER -> <<0, 0>>
Swap(A) == [i \in 1..Len(A) |-> <<A[i][2], A[i][1]>>]
StrictlyIncreasing(A) == \A i \in 2..Len(A) : A[i][1] > A[i-1][1]

ConvVerdict(g, A, x0, res, rc, tps, seen) ==
    IF Len(A) = 0 THEN (IF rc = 0 THEN "conversion without any UTC entry succeeded" ELSE "")
    ELSE IF rc # 0 THEN "conversion failed although UTC entries exist"
    ELSE IF Len(A) = 1 THEN
        (IF tps[1] = 0 \/ RateOk(A[1], x0, res, tps[1], tps[2]) THEN "" ELSE "single-entry conversion is off the nominal sample rate")
    ELSE IF ~StrictlyIncreasing(A) THEN ""
    ELSE IF ~ExactAtAnchors(A, x0, res) THEN "conversion does not reproduce a stored pair"
    ELSE IF ~InterpOk(A, x0, res) THEN "conversion is more than one unit off the linear interpolation"
    ELSE IF \E p \in seen : (p[1] <= x0 /\ p[2] > res) \/ (p[1] >= x0 /\ p[2] < res) THEN "conversion is not monotone"
    ELSE ""

I2TVerdict(S, ev) ==
    IF ~UtcAccept(S, ev) THEN (IF ev.rc = 0 THEN "conversion on an undefined or non-FSR signal" ELSE "")
    ELSE LET g == S.sigs[Idx(S.sigs, ev.sig)] IN
         ConvVerdict(g, g.utcs, ev.id, ev.res, ev.rc, TicksPerSample(g.rate), g.i2t)
T2IVerdict(S, ev) ==
    IF ~UtcAccept(S, ev) THEN (IF ev.rc = 0 THEN "conversion on an undefined or non-FSR signal" ELSE "")
    ELSE LET g == S.sigs[Idx(S.sigs, ev.sig)]
             tps == TicksPerSample(g.rate)
             v == ConvVerdict(g, Swap(g.utcs), ev.t, ev.res, ev.rc, <<tps[2], tps[1]>>, g.t2i)
         IN IF v # "" THEN v
            ELSE IF ev.rc = 0 /\ \E p \in g.i2t : p[2] = ev.t /\ (Huge(ev.res) \/ Abs(p[1] - ev.res) > 1)
                 THEN "time -> sample id is not the inverse of sample id -> time within one sample"
            ELSE ""

--------------------------------------------------------------------------
Verdict(S, ev) ==
    CASE ev.e = "WOpen"     -> IF ev.rc = 0 THEN "" ELSE "open for writing failed"
      [] ev.e = "SourceDef" -> DefWhy(SourceAccept(S, ev), ev)
      [] ev.e = "SignalDef" -> DefWhy(SignalAccept(S, ev), ev)
      [] ev.e = "WrFsr"     -> WrWhy(FsrAccept(S, ev), ev)
      [] ev.e = "Omit"      -> RcWhy(FsrAccept(S, ev), ev.rc)
      [] ev.e = "Anno"      -> WrWhy(AnnoAccept(S, ev), ev)
      [] ev.e = "Utc"       -> WrWhy(UtcAccept(S, ev), ev)
      [] ev.e = "UserData"  -> WrWhy(ev.st \in {1, 2, 3}, ev)
      [] ev.e = "WClose"    -> IF ev.rc = 0 THEN "" ELSE "close failed"
      [] ev.e = "Copy"      -> IF S.mode = "closed" /\ ev.rc # 0 THEN "copy of a properly closed file failed" ELSE ""
      [] ev.e = "ROpen"     -> IF S.mode # "closed" THEN ""
                               ELSE IF ev.rc # 0 THEN "a properly closed file could not be opened"
                               ELSE IF ev.wcount # 0 \/ ev.modified THEN "opening a properly closed file modified it"
                               ELSE ""
      [] ev.e = "Unchanged" -> IF S.mode = "closed" /\ (~ev.same \/ ev.wcount # 0) THEN "reading a properly closed file modified it" ELSE ""
      [] ev.e = "RdLength"  -> RdLengthVerdict(S, ev)
      [] ev.e = "RdFsr"     -> RdFsrVerdict(S, ev)
      [] ev.e = "RdAnno"    -> RdAnnoVerdict(S, ev)
      [] ev.e = "RdUtc"     -> RdUtcVerdict(S, ev)
      [] ev.e = "RdUserData" -> RdUserDataVerdict(S, ev)
      [] ev.e = "RdSources" -> RdSourcesVerdict(S, ev)
      [] ev.e = "RdSignals" -> RdSignalsVerdict(S, ev)
      [] ev.e = "RdSignal"  -> RdSignalVerdict(S, ev)
      [] ev.e = "RdStats"   -> RdStatsVerdict(S, ev)
      [] ev.e = "SumEntries" -> SumEntriesVerdict(S, ev)
      [] ev.e = "SumCmp"    -> IF ev.a = ev.b THEN "" ELSE "stored summaries differ between omission on and off"
      [] ev.e = "IdxZeros"  -> IdxZerosVerdict(S, ev)
      [] ev.e = "I2T"       -> I2TVerdict(S, ev)
      [] ev.e = "T2I"       -> T2IVerdict(S, ev)
      [] ev.e = "Abnormal"  -> "abnormal termination (" \o ev.kind \o ")"
      [] OTHER -> ""

UpdSig(S, id, f(_)) == [S EXCEPT !.sigs[Idx(S.sigs, id)] = f(@)]

Update(S, ev) ==
    CASE ev.e = "WOpen" -> IF ev.rc = 0 THEN Opened ELSE S
      [] ev.e = "SourceDef" -> IF ev.rc = 0 /\ SourceAccept(S, ev) THEN [S EXCEPT !.srcs = Append(@, [id |-> ev.id, s |-> ev.s])] ELSE S
      [] ev.e = "SignalDef" -> IF ev.rc = 0 /\ SignalAccept(S, ev) THEN [S EXCEPT !.sigs = Append(@, NewSig(ev))] ELSE S
      [] ev.e = "WrFsr" -> IF ev.rc = 0 /\ FsrAccept(S, ev) THEN UpdSig(S, ev.sig, LAMBDA g : FsrUpd(g, ev)) ELSE S
      [] ev.e = "Omit" -> IF ev.rc = 0 /\ FsrAccept(S, ev)
                          THEN UpdSig(S, ev.sig, LAMBDA g : [g EXCEPT !.reg = IF ev.en # 0 THEN (IF g.reg % 2 = 0 THEN g.reg + 1 ELSE g.reg) ELSE 0])
                          ELSE S
      [] ev.e = "Anno" -> IF ev.rc = 0 /\ AnnoAccept(S, ev) THEN UpdSig(S, ev.sig, LAMBDA g : [g EXCEPT !.annos = Append(@, <<ev.ts, ev.tok>>)]) ELSE S
      [] ev.e = "Utc" -> IF ev.rc = 0 /\ UtcAccept(S, ev) THEN UpdSig(S, ev.sig, LAMBDA g : [g EXCEPT !.utcs = Append(@, <<ev.id, ev.t>>)]) ELSE S
      [] ev.e = "UserData" -> IF ev.rc = 0 /\ ev.st \in {1, 2, 3}
                              THEN [S EXCEPT !.ud = Append(@, <<ev.meta % 4096, ev.st, ev.tok, ev.size>>)] ELSE S
      [] ev.e = "WClose" -> [S EXCEPT !.mode = "closed", !.sigs = [i \in 1..Len(S.sigs) |-> CloseSig(S.sigs[i])]]
      [] ev.e = "ROpen" -> IF ev.rc = 0 /\ S.mode = "closed" THEN [S EXCEPT !.mode = "closed"] ELSE S
      [] ev.e = "I2T" -> IF ev.rc = 0 /\ UtcAccept(S, ev) THEN UpdSig(S, ev.sig, LAMBDA g : [g EXCEPT !.i2t = @ \cup {<<ev.id, ev.res>>}]) ELSE S
      [] ev.e = "T2I" -> IF ev.rc = 0 /\ UtcAccept(S, ev) THEN UpdSig(S, ev.sig, LAMBDA g : [g EXCEPT !.t2i = @ \cup {<<ev.t, ev.res>>}]) ELSE S
      [] OTHER -> S
==========================================================================
