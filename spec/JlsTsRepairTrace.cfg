SPECIFICATION Spec
INVARIANT Final
POSTCONDITION Done
CHECK_DEADLOCK FALSE
