SPECIFICATION Spec
CONSTANTS
  N = 24
  MaxSize = 24
  ResetGuard = TRUE
INVARIANT TypeOK
INVARIANT C08
CHECK_DEADLOCK FALSE
