SPECIFICATION Spec
INVARIANT PhaseOk
INVARIANT LenOk
CHECK_DEADLOCK FALSE
