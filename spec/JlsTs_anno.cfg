SPECIFICATION Spec
CONSTANTS
  D = 2
  MaxN = 9
  Vals = {1, 2, 3, 4}
  Strict = FALSE
INVARIANT AnnoSeekComplete
CHECK_DEADLOCK FALSE
