SPECIFICATION GSpec
CONSTANTS
  MaxCalls = 4
  Ids = {0, 2, 3, 5, 6, 9}
  Lens = {1, 2, 3, 5}
  Bits = 32
INVARIANT SegsWellFormed
INVARIANT IdealAccepted
INVARIANT WrongSourceRejected
INVARIANT OutsideRejected
INVARIANT FirstBlockStored
CHECK_DEADLOCK FALSE
