---------------------------- MODULE JlsTsRepairMC ----------------------------
(* Every image of the annotation / UTC track writer model's chunk sequence for   *)
(* n <= MaxN entries: every number of complete chunks k, as a crash image (last  *)
(* chunk attached or not) of the unclosed sequence and as a truncation of the    *)
(* closed sequence, repaired by the model of jls_track_repair_pointers.          *)
EXTENDS JlsTsRepair, TLC
CONSTANTS Df, MaxN
VARIABLES n, k, mode
vars == <<n, k, mode>>
RECURSIVE AddN(_, _)
AddN(T, m) == IF m = 0 THEN T ELSE Add(AddN(T, m - 1), m)
Open(m) == AddN(T0(Df), m).out
Closed(m) == TsClose(AddN(T0(Df), m)).out
Init == n \in 1..MaxN /\ mode \in {"crash", "crash-unattached", "truncated"} /\ k \in 0..Len(Closed(n))
Next == UNCHANGED vars
Spec == Init /\ [][Next]_vars
Out == IF mode = "truncated" THEN Closed(n) ELSE Open(n)
Lim == IF mode = "truncated" THEN Len(Out) ELSE IF mode = "crash" THEN k ELSE k - 1
InRange == k <= Len(Out) /\ (mode = "crash-unattached" => k >= 1)
Inv == InRange => TsRepairOk(ImgTs(Out, k, Lim), Lim) /\ TsEntriesOk(ImgTs(Out, k, Lim), Out, Lim)
\* not vacuous: some image has a dangling link that the repair cuts, and some image loses a head entry
SomeCut == ~(InRange /\ LET I == ImgTs(Out, k, Lim) IN \E i \in 1..k : I.nx[i] > k /\ TsRepair(I).nx[i] = 0)
SomeHeadCleared == ~(InRange /\ LET I == ImgTs(Out, k, Lim) IN \E l \in 0..TsTop : I.hd[l] # 0 /\ TsRepair(I).hd[l] = 0)
SomeDescend == ~(InRange /\ mode = "crash" /\ LET I == ImgTs(Out, k, Lim) IN I.hd[2] # 0 /\ k >= 1 /\ I.tag[k] = "I")
==============================================================================
