----------------------------- MODULE JlsTsWriter -----------------------------
(***************************************************************************)
(* Tier B: the time-series tracks of a signal (annotations, UTC entries;   *)
(* src/wr_ts.c called from jls_wr_annotation / jls_wr_utc) as a machine     *)
(* that turns the sequence of accepted entries and the final close into the *)
(* sequence of appended chunks of that track:                               *)
(*   D  one DATA chunk per entry,                                           *)
(*   I  INDEX chunk of level k: entries <<timestamp, position of the chunk  *)
(*      it leads to>>,  S  SUMMARY chunk of level k (n entries),            *)
(* emitted by commit(): when a level holds df (the decimate factor) index   *)
(* entries, and for every level bottom-up at close.  A commit writes the    *)
(* INDEX, then its SUMMARY, feeds the level above (an index entry always;   *)
(* a summary entry except at close) and only then lets the level above      *)
(* commit.  The highest level has no level above it (fix 9460f34).          *)
(***************************************************************************)
EXTENDS Integers, Sequences

TsMaxLevel == 15
TsNoLevel == [on |-> FALSE, idx |-> <<>>, n |-> 0]

T0(df) == [df |-> df, lvl |-> [k \in 1..TsMaxLevel |-> TsNoLevel], pos |-> 0, out |-> <<>>, closed |-> FALSE]

TsEmit(T, c) == [T EXCEPT !.out = Append(@, c), !.pos = @ + 1]

RECURSIVE Commit(_, _, _)
Commit(T, k, close) ==
    LET L == T.lvl[k] IN
    IF ~L.on \/ L.idx = <<>> THEN T
    ELSE LET hasUp == k < TsMaxLevel
             T1 == IF ~close /\ hasUp THEN [T EXCEPT !.lvl[k + 1].on = TRUE] ELSE T
             posI == T1.pos + 1
             T2 == TsEmit(T1, [tag |-> "I", lvl |-> k, ts |-> L.idx[1][1], n |-> Len(L.idx), ent |-> L.idx])
             T3 == TsEmit(T2, [tag |-> "S", lvl |-> k, ts |-> L.idx[1][1], n |-> L.n, ent |-> <<>>])
             up == hasUp /\ T3.lvl[k + 1].on
             T4 == IF up THEN [T3 EXCEPT !.lvl[k + 1].idx = Append(@, <<L.idx[1][1], posI>>),
                                         !.lvl[k + 1].n = IF close THEN @ ELSE @ + 1]
                   ELSE T3
             T5 == IF up /\ Len(T4.lvl[k + 1].idx) >= T.df THEN Commit(T4, k + 1, close) ELSE T4
         IN [T5 EXCEPT !.lvl[k].idx = <<>>, !.lvl[k].n = 0]

\* jls_wr_annotation / jls_wr_utc: the DATA chunk, then the level-1 entry
Add(T, ts) ==
    LET T1 == TsEmit(T, [tag |-> "D", lvl |-> 0, ts |-> ts, n |-> 1, ent |-> <<>>])
        T2 == [T1 EXCEPT !.lvl[1] = [on |-> TRUE, idx |-> Append(T.lvl[1].idx, <<ts, T.pos + 1>>), n |-> T.lvl[1].n + 1]]
    IN IF Len(T2.lvl[1].idx) >= T.df THEN Commit(T2, 1, FALSE) ELSE T2

RECURSIVE CloseFrom(_, _)
CloseFrom(T, k) == IF k > TsMaxLevel THEN T ELSE CloseFrom(Commit(T, k, TRUE), k + 1)
TsClose(T) == [CloseFrom(T, 1) EXCEPT !.closed = TRUE]

--------------------------------------------------------------------------
(* what must hold of the emitted sequence *)
TsChunks(T, tag, k) == SelectSeq(T.out, LAMBDA c : c.tag = tag /\ c.lvl = k)
TsOrd(T, tag, k) == LET I == { i \in 1..Len(T.out) : T.out[i].tag = tag /\ T.out[i].lvl = k }
                        RECURSIVE Asc(_, _)
                        Asc(S, acc) == IF S = {} THEN acc
                                       ELSE LET x == CHOOSE y \in S : \A z \in S : y <= z IN Asc(S \ {x}, Append(acc, x))
                    IN Asc(I, <<>>)
RECURSIVE TsFlat(_)
TsFlat(s) == IF s = <<>> THEN <<>> ELSE [i \in 1..Len(Head(s).ent) |-> Head(s).ent[i][2]] \o TsFlat(Tail(s))

\* every INDEX is immediately followed by its SUMMARY
TsPairOk(T) == \A i \in 1..Len(T.out) : T.out[i].tag = "I" =>
                  i < Len(T.out) /\ T.out[i + 1].tag = "S" /\ T.out[i + 1].lvl = T.out[i].lvl /\ T.out[i + 1].ts = T.out[i].ts
\* after close the level-1 index entries are exactly the data chunks, in order, and the level-k entries the level k-1 indices
TsClosedOk(T) == T.closed =>
    /\ TsFlat(TsChunks(T, "I", 1)) = TsOrd(T, "D", 0)
    /\ \A k \in 2..TsMaxLevel : TsChunks(T, "I", k) # <<>> => TsFlat(TsChunks(T, "I", k)) = TsOrd(T, "I", k - 1)
    /\ \A k \in 1..TsMaxLevel : T.lvl[k].idx = <<>>
\* no level ever holds more index entries than the decimate factor (the allocation)
TsBounded(T) == \A k \in 1..TsMaxLevel : Len(T.lvl[k].idx) <= T.df
TsWriterOk(T) == TsPairOk(T) /\ TsClosedOk(T) /\ TsBounded(T)
=============================================================================
