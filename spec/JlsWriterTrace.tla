---------------------------- MODULE JlsWriterTrace ----------------------------
(* Conformance of the files the real writer produces with the tier-B model     *)
(* JlsWriter.tla: the recorded jls_wr_fsr calls of every FSR signal drive the   *)
(* model, and the FSR chunks found in the closed file (decoded independently    *)
(* by tools/lifter.py: kind, level, first sample, entry count, index offsets)   *)
(* must be exactly the chunk sequence the model emitted.  Signals for which     *)
(* data chunks may be omitted (on request, or constant blocks of types of at    *)
(* most 8 bits) are driven but not compared.  A deviation is MODEL-DRIFT.       *)
EXTENDS JlsWriter, JlsTsWriter, SigDef, Json, IOUtils, TLC

TraceLog == ndJsonDeserialize(IOEnv.TRACE)

VARIABLES l, G, H, x, skip, rej
vars == <<l, G, H, x, skip, rej>>
Ev == TraceLog[l]

\* G: signal id -> [W, next (next expected sample id, relative to base), first, has, cmp, obs]
NoG == <<>>
Put(f, k, v) == [y \in DOMAIN f \cup {k} |-> IF y = k THEN v ELSE f[y]]
\* H: time-series tracks, key sig * 4 + track type (2 annotation, 3 UTC) -> [T, obs]; signal 0 (global annotations,
\* decimate factor 100) exists from the start
H0 == Put(<<>>, 2, [T |-> T0(100), obs |-> <<>>])
Init == l = 1 /\ G = NoG /\ H = H0 /\ x = 0 /\ skip = FALSE /\ rej = <<>>

OnSignalDefH(ev) ==
    IF ev.rc # 0 \/ ev.st # 0 \/ ev.bits \notin {1, 4, 8, 16, 32, 64} THEN H
    ELSE LET p == Normalise(ev.bits, [spd |-> ev.spd, sdf |-> ev.sdf, eps |-> ev.eps, sumdf |-> ev.sumdf, adf |-> ev.adf, udf |-> ev.udf]) IN
         Put(Put(H, ev.id * 4 + 2, [T |-> T0(p.adf), obs |-> <<>>]), ev.id * 4 + 3, [T |-> T0(p.udf), obs |-> <<>>])
OnEntry(key, ts, rc) == IF rc # 0 \/ key \notin DOMAIN H THEN H ELSE Put(H, key, [H[key] EXCEPT !.T = Add(@, ts)])
OnCloseH == [k \in DOMAIN H |-> [H[k] EXCEPT !.T = TsClose(@)]]
IsTsChunk(ev) == ev.kind = "track" /\ ev.tt \in {2, 3} /\ ev.ck \in {2, 3, 4} /\ (ev.sig * 4 + ev.tt) \in DOMAIN H /\ ev.file = "a"
OnTsChunk(ev) == LET k == ev.sig * 4 + ev.tt IN
    Put(H, k, [H[k] EXCEPT !.obs = Append(@, [tag |-> IF ev.ck = 2 THEN "D" ELSE IF ev.ck = 3 THEN "I" ELSE "S", lvl |-> ev.lvl, ts |-> ev.ts,
                                              n |-> ev.cnt, pairs |-> ev.pairs, off |-> ev.off])])
TsOrdOf(obs, o) == IF o = 0 THEN 0 ELSE IF \E i \in 1..Len(obs) : obs[i].off = o THEN CHOOSE i \in 1..Len(obs) : obs[i].off = o ELSE -1
TsObserved(obs) == [i \in 1..Len(obs) |-> [tag |-> obs[i].tag, lvl |-> obs[i].lvl, ts |-> obs[i].ts, n |-> obs[i].n,
                                            ent |-> IF obs[i].tag = "I" THEN [j \in 1..Len(obs[i].pairs) |-> <<obs[i].pairs[j][1], TsOrdOf(obs, obs[i].pairs[j][2])>>] ELSE <<>>]]
TsDiffers == { k \in DOMAIN H : H[k].T.closed /\ TsObserved(H[k].obs) # H[k].T.out }

OnSignalDef(ev) ==
    IF ev.rc # 0 \/ ev.st # 0 \/ ev.bits \notin {1, 4, 8, 16, 32, 64} THEN G
    ELSE LET p == Normalise(ev.bits, [spd |-> ev.spd, sdf |-> ev.sdf, eps |-> ev.eps, sumdf |-> ev.sumdf, adf |-> ev.adf, udf |-> ev.udf]) IN
         Put(G, ev.id, [W |-> W0([spd |-> p.spd, sdf |-> p.sdf, eps |-> p.eps, sumdf |-> p.sumdf]),
                        next |-> 0, first |-> 0, has |-> FALSE, cmp |-> ev.bits > 8, obs |-> <<>>])

OnWrFsr(ev) ==
    IF ev.rc # 0 \/ ev.sig \notin DOMAIN G \/ ev.n <= 0 THEN G
    ELSE LET g == G[ev.sig]
             nxt == IF g.has THEN g.next ELSE ev.id
             eff == IF ev.id >= nxt THEN (ev.id - nxt) + ev.n
                    ELSE IF ev.id + ev.n > nxt THEN ev.id + ev.n - nxt ELSE 0
         IN Put(G, ev.sig, [g EXCEPT !.W = Write(g.W, eff, FALSE), !.next = nxt + eff, !.has = TRUE,
                                     !.first = IF g.has THEN g.first ELSE ev.id])

OnOmit(ev) == IF ev.sig \in DOMAIN G THEN Put(G, ev.sig, [G[ev.sig] EXCEPT !.cmp = FALSE]) ELSE G
OnClose == [s \in DOMAIN G |-> [G[s] EXCEPT !.W = Close(G[s].W, FALSE)]]

\* an FSR DATA (2) / INDEX (3) / SUMMARY (4) chunk of a known signal
IsFsrChunk(ev) == ev.kind = "track" /\ ev.tt = 0 /\ ev.ck \in {2, 3, 4} /\ ev.sig \in DOMAIN G /\ ev.file = "a"
OnChunk(ev) == LET g == G[ev.sig] IN
    Put(G, ev.sig, [g EXCEPT !.obs = Append(@, [tag |-> IF ev.ck = 2 THEN "D" ELSE IF ev.ck = 3 THEN "I" ELSE "S",
                                               lvl |-> ev.lvl, ts |-> ev.ts - g.first, n |-> ev.cnt, offs |-> ev.offs, off |-> ev.off])])

\* file offsets -> ordinals among the signal's FSR chunks (0 stays 0: omitted block)
OrdOf(obs, o) == IF o = 0 THEN 0 ELSE IF \E i \in 1..Len(obs) : obs[i].off = o THEN CHOOSE i \in 1..Len(obs) : obs[i].off = o ELSE -1
Observed(obs) == [i \in 1..Len(obs) |-> [tag |-> obs[i].tag, lvl |-> obs[i].lvl, ts |-> obs[i].ts, n |-> obs[i].n,
                                         offs |-> IF obs[i].tag = "I" THEN [j \in 1..Len(obs[i].offs) |-> OrdOf(obs, obs[i].offs[j])] ELSE <<>>]]

Differs == { s \in DOMAIN G : G[s].cmp /\ G[s].W.closed /\ Observed(G[s].obs) # G[s].W.out }

Step ==
    /\ l <= Len(TraceLog)
    /\ l' = l + 1
    /\ IF Ev.e = "Reset" THEN G' = NoG /\ H' = H0 /\ x' = Ev.x /\ skip' = FALSE /\ UNCHANGED rej
       ELSE IF skip THEN UNCHANGED <<G, H, x, skip, rej>>
       ELSE IF Ev.e = "SignalDef" THEN G' = OnSignalDef(Ev) /\ H' = OnSignalDefH(Ev) /\ UNCHANGED <<x, skip, rej>>
       ELSE IF Ev.e = "WrFsr" THEN G' = OnWrFsr(Ev) /\ UNCHANGED <<H, x, skip, rej>>
       ELSE IF Ev.e = "Omit" THEN G' = OnOmit(Ev) /\ UNCHANGED <<H, x, skip, rej>>
       ELSE IF Ev.e = "Anno" THEN H' = OnEntry(Ev.sig * 4 + 2, Ev.ts, Ev.rc) /\ UNCHANGED <<G, x, skip, rej>>
       ELSE IF Ev.e = "Utc" THEN H' = OnEntry(Ev.sig * 4 + 3, Ev.id, Ev.rc) /\ UNCHANGED <<G, x, skip, rej>>
       ELSE IF Ev.e = "WClose" THEN G' = OnClose /\ H' = OnCloseH /\ UNCHANGED <<x, skip, rej>>
       ELSE IF Ev.e = "Chunk" /\ IsFsrChunk(Ev) THEN G' = OnChunk(Ev) /\ UNCHANGED <<H, x, skip, rej>>
       ELSE IF Ev.e = "Chunk" /\ IsTsChunk(Ev) THEN H' = OnTsChunk(Ev) /\ UNCHANGED <<G, x, skip, rej>>
       ELSE IF Ev.e = "FileEnd" /\ Ev.file = "a" THEN
            IF Differs # {} THEN /\ rej' = Append(rej, <<x, l, "the FSR chunk sequence of the file differs from the writer model">>)
                                 /\ skip' = TRUE /\ UNCHANGED <<G, H, x>>
            ELSE IF TsDiffers # {} THEN /\ rej' = Append(rej, <<x, l, "the annotation / UTC chunk sequence of the file differs from the writer model">>)
                                        /\ skip' = TRUE /\ UNCHANGED <<G, H, x>>
            ELSE UNCHANGED <<G, H, x, skip, rej>>
       ELSE UNCHANGED <<G, H, x, skip, rej>>

Spec == Init /\ [][Step]_vars
Done == /\ PrintT(<<"TRACE_RESULT", TLCGet("stats").diameter - 1, Len(TraceLog)>>)
        /\ TRUE
Final == (l = Len(TraceLog) + 1) => PrintT(<<"TRACE_REJ", rej>>)
==============================================================================
