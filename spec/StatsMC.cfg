SPECIFICATION Spec
CONSTANTS
  MaxM = 7
  MaxN = 30
INVARIANT ClosedFormsRight
INVARIANT ExactAccepted
INVARIANT ShiftRejected
CHECK_DEADLOCK FALSE
