--------------------------- MODULE MrbContract ---------------------------
(***************************************************************************)
(* Tier A contract for property C08: the message queue is a bounded FIFO   *)
(* of pairwise disjoint regions inside its buffer.  Nothing here knows     *)
(* how jls_mrb_* finds room; the contract only sees what each call was     *)
(* given and what it returned.                                             *)
(*                                                                         *)
(* q : sequence of live messages [off, size, fp] (payload offset relative  *)
(*     to the buffer start, payload size, fingerprint of the bytes the     *)
(*     producer stored).  A message occupies [off-4, off+size).            *)
(***************************************************************************)
EXTENDS Integers, Sequences, FiniteSets

Beg(m) == m.off - 4
End(m) == m.off + m.size                    \* one past the last byte
Overlaps(q, a, b) == \E i \in 1..Len(q) : a < End(q[i]) /\ Beg(q[i]) < b   \* [a,b) meets a live message
Inside(q, a) == \E i \in 1..Len(q) : Beg(q[i]) <= a /\ a < End(q[i])

(* "Fails only when the message genuinely does not fit contiguously", in its  *)
(* loosest reading.  The queue is a ring: the bytes between the consumer's     *)
(* position and the end of the newest message are in use (this includes a      *)
(* skipped tail of the buffer after a wrap).  The consumer's position is       *)
(* visible through the API up to one ambiguity (whether an allocation into an  *)
(* empty queue restarted the ring), so T is the *set* of positions it may      *)
(* have; a refusal is a breach only if the message would fit with 12 bytes of  *)
(* slack for every position in T.                                              *)
FitsRing(N, hd, t, size) ==
    IF hd >= t THEN (N - hd >= size + 12) \/ (t >= size + 12)
    ELSE t - hd >= size + 12

AllocVerdict(q, T, N, size, ret, guardOk) ==
    IF ~guardOk THEN "wrote outside the buffer"
    ELSE IF ret < 0 THEN
        (IF size > N - 12 THEN ""
         ELSE IF q = <<>> THEN "refused although the queue is empty"
         ELSE IF \A t \in T : FitsRing(N, End(q[Len(q)]) % N, t, size)
              THEN "refused although it fits contiguously"
         ELSE "")
    ELSE IF ret - 4 < 0 \/ ret + size > N THEN "region outside the buffer"
    ELSE IF Overlaps(q, ret - 4, ret + size) THEN "region overlaps a live message"
    ELSE ""

AllocUpdT(q, T, ret) == IF ret = 4 /\ q = <<>> THEN T \cup {0} ELSE T
PeekUpdT(q, T, N, ret, isPop) ==
    IF q = <<>> \/ ret < 0 THEN T
    ELSE IF isPop THEN {End(Head(q)) % N}
    ELSE IF ret = 4 THEN {0} ELSE T

AllocUpd(q, size, ret, fp) == IF ret < 0 THEN q ELSE Append(q, [off |-> ret, size |-> size, fp |-> fp])

PeekVerdict(q, ret, size, fp, guardOk) ==
    IF ~guardOk THEN "wrote outside the buffer"
    ELSE IF q = <<>> THEN (IF ret >= 0 THEN "message from an empty queue" ELSE "")
    ELSE IF ret < 0 THEN "oldest message not delivered"
    ELSE IF ret # Head(q).off \/ size # Head(q).size THEN "not the oldest message (offset/size)"
    ELSE IF fp # Head(q).fp THEN "message bytes changed"
    ELSE ""

PopUpd(q, ret) == IF q # <<>> /\ ret >= 0 THEN Tail(q) ELSE q
==========================================================================
