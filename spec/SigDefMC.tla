------------------------------ MODULE SigDefMC ------------------------------
(* C16 on the transcription: for every point of a grid of definition          *)
(* parameters and every sample width, the normalised parameters satisfy the   *)
(* relations the format relies on, and normalising them again changes nothing *)
EXTENDS SigDef, TLC
CONSTANTS Grid, GridW
VARIABLES w, spd, sdf, eps, sumdf
v == <<w, spd, sdf, eps, sumdf>>
Init == w \in GridW /\ spd \in Grid /\ sdf \in Grid /\ eps \in Grid /\ sumdf \in Grid
Next == UNCHANGED v
Spec == Init /\ [][Next]_v
Def == [spd |-> spd, sdf |-> sdf, eps |-> eps, sumdf |-> sumdf, adf |-> 0, udf |-> 0]
N1 == Normalise(w, Def)
RelationsHold == Acceptable(w, Def) => Normalised(w, N1)
Idempotent == Acceptable(w, Def) => Normalise(w, N1) = N1
DefaultsApplied == (HasDefaults(w) /\ spd = 0 /\ sdf = 0 /\ eps = 0 /\ sumdf = 0) =>
                      LET D == Defaults(w) IN N1.sdf = D[2] /\ N1.spd = D[1] /\ N1.eps = D[3] /\ N1.sumdf = D[4]
==========================================================================
