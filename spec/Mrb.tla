------------------------------- MODULE Mrb -------------------------------
(***************************************************************************)
(* Tier B: branch-by-branch transcription of src/msg_ring_buffer.c         *)
(* (jls_mrb_alloc / jls_mrb_peek / jls_mrb_pop) over an abstract memory,    *)
(* together with the tier-A contract of property C08 (bounded FIFO of      *)
(* disjoint in-bounds regions) carried as ghost state q.                   *)
(*                                                                         *)
(* Abstract memory: only what the algorithm itself reads back is kept --   *)
(* pre[o] is the value of an intact 4-byte length prefix at offset o       *)
(* (WRAP for the 0xffffffff marker).  Writing bytes over a prefix removes  *)
(* it; writing over a live payload or outside [0,N) raises a flag.         *)
(***************************************************************************)
EXTENDS Integers, Sequences, FiniteSets

CONSTANTS N,          \* buffer size in bytes
          MaxSize,    \* largest message size offered to Alloc
          ResetGuard  \* TRUE: reset-when-empty path refuses what cannot fit

WRAP == -1
NONE == -2

VARIABLES head, tail, count,   \* the struct fields
          pre,                 \* [0..N-1 -> size | WRAP | NONE]
          q,                   \* ghost: live messages, <<payload offset, size>>
          flags,               \* ghost: set of contract breaches seen so far
          last                 \* ghost: last operation and its result (for replay)

vars == <<head, tail, count, pre, q, flags, last>>

Range(a, b) == a .. (b - 1)                \* half-open byte range [a,b)
LiveBytes == UNION { Range(q[i][1] - 4, q[i][1] + q[i][2]) : i \in 1..Len(q) }

\* writing bytes [a,b): which prefixes die, which flags rise
KillPre(p, a, b) == [o \in 0..(N-1) |->
                        IF p[o] # NONE /\ (Range(o, o+4) \cap Range(a, b)) # {} THEN NONE ELSE p[o]]
WriteFlags(a, b) == (IF a < 0 \/ b > N THEN {"oob"} ELSE {})
                    \cup (IF (Range(a, b) \cap LiveBytes) # {} THEN {"clobber"} ELSE {})

\* reading a prefix at o: value, or NONE when the 4 bytes are not an intact prefix
ReadPre(o) == IF o < 0 \/ o + 4 > N THEN NONE ELSE pre[o]

\* contiguous free bytes as the contract sees them (ring between tail and head is used)
FreeRuns == IF q = <<>> THEN {N}
            ELSE IF head >= tail THEN {N - head, tail} ELSE {tail - head}
Fits(size) == \E r \in FreeRuns : r >= size + 12

Init == /\ head = 0 /\ tail = 0 /\ count = 0
        /\ pre = [o \in 0..(N-1) |-> NONE]
        /\ q = <<>> /\ flags = {} /\ last = <<"init">>

AllocFail(size) ==
    /\ UNCHANGED <<head, tail, count, pre, q>>
    /\ flags' = flags \cup (IF Fits(size) THEN {"unjust_fail"} ELSE {})
    /\ last' = <<"alloc", size, NONE>>

\* common tail of jls_mrb_alloc once p (prefix offset) is chosen;
\* pre0/flags0/tail0 carry the effects of the branch taken
AllocAt(size, p, pre0, flags0, tail0) ==
    LET h0 == p + 4 + size
        h1 == IF h0 >= N THEN 0 ELSE h0
        pre1 == [KillPre(pre0, p, p + 4 + size) EXCEPT ![IF p >= 0 /\ p < N THEN p ELSE 0] =
                    IF p >= 0 /\ p + 4 <= N THEN size ELSE @]
    IN /\ head' = h1
       /\ tail' = tail0
       /\ count' = count + 1
       /\ pre' = pre1
       /\ flags' = flags0 \cup WriteFlags(p, p + 4 + size)
       /\ q' = Append(q, <<p + 4, size>>)
       /\ last' = <<"alloc", size, p + 4>>

Alloc(size) ==
    IF size > N THEN AllocFail(size)
    ELSE IF head >= tail THEN
        LET end_idx == head + 4 + size + 4 + (IF tail = 0 THEN 1 ELSE 0) IN
        IF end_idx < N THEN AllocAt(size, head, pre, flags, tail)
        ELSE IF size + 5 < tail THEN
            \* wrap: marker at head, message at 0
            AllocAt(size, 0,
                    [KillPre(pre, head, head + 4) EXCEPT ![head] = IF head + 4 <= N THEN WRAP ELSE @],
                    flags \cup WriteFlags(head, head + 4), tail)
        ELSE IF head = tail THEN
            IF ResetGuard /\ (4 + size + 4 + 1 >= N) THEN AllocFail(size)
            ELSE AllocAt(size, 0, pre, flags, 0)
        ELSE AllocFail(size)
    ELSE IF head + size + 5 < tail THEN AllocAt(size, head, pre, flags, tail)
    ELSE AllocFail(size)

\* jls_mrb_peek as a function of the state: <<tail after, payload offset or NONE, size, cleared?, flags>>
PeekRes ==
    IF tail = head THEN <<tail, NONE, 0, FALSE, {}>>
    ELSE LET sz == ReadPre(tail) IN
        IF sz = NONE THEN <<tail, NONE, 0, FALSE, {"garbage_read"}>>
        ELSE IF sz = WRAP THEN
            IF head > tail THEN <<0, NONE, 0, TRUE, {"overflow_clear"}>>
            ELSE IF 0 = head THEN <<0, NONE, 0, FALSE, {}>>
            ELSE LET sz0 == ReadPre(0) IN
                 IF sz0 = NONE \/ sz0 = WRAP THEN <<0, NONE, 0, FALSE, {"garbage_read"}>>
                 ELSE <<0, 4, sz0, FALSE, {}>>
        ELSE <<tail, tail + 4, sz, FALSE, {}>>

FifoFlags(r) ==
    IF q = <<>> THEN (IF r[2] # NONE THEN {"phantom"} ELSE {})
    ELSE IF r[2] = NONE THEN {"lost"}
         ELSE IF <<r[2], r[3]>> # Head(q) THEN {"fifo"} ELSE {}

Peek ==
    LET r == PeekRes IN
    /\ IF r[4] THEN /\ head' = 0 /\ tail' = 0 /\ count' = 0
                    /\ pre' = [o \in 0..(N-1) |-> NONE]
               ELSE /\ tail' = r[1] /\ UNCHANGED <<head, count, pre>>
    /\ flags' = flags \cup r[5] \cup FifoFlags(r)
    /\ UNCHANGED q
    /\ last' = <<"peek", r[3], r[2]>>

Pop ==
    LET r == PeekRes
        t0 == IF r[2] # NONE THEN r[1] + 4 + r[3] ELSE r[1]
        t1 == IF r[2] # NONE /\ t0 >= N THEN t0 - N ELSE t0
    IN
    /\ IF r[4] THEN /\ head' = 0 /\ tail' = 0 /\ count' = 0
                    /\ pre' = [o \in 0..(N-1) |-> NONE]
               ELSE /\ tail' = t1
                    /\ count' = IF r[2] # NONE /\ count > 0 THEN count - 1 ELSE count
                    \* popped bytes are dead: forget their prefixes (sound: a later read of
                    \* them is flagged as garbage_read, which is already a breach)
                    /\ pre' = IF r[2] # NONE
                              THEN [o \in 0..(N-1) |->
                                      IF o = r[2] - 4 \/ (r[1] = 0 /\ tail # 0 /\ o = tail /\ pre[o] = WRAP)
                                      THEN NONE ELSE pre[o]]
                              ELSE pre
                    /\ UNCHANGED head
    /\ flags' = flags \cup r[5] \cup FifoFlags(r)
    /\ q' = IF q # <<>> /\ r[2] # NONE THEN Tail(q) ELSE q
    /\ last' = <<"pop", r[3], r[2]>>

Next == (\E s \in 0..MaxSize : Alloc(s)) \/ Peek \/ Pop

Spec == Init /\ [][Next]_vars

--------------------------------------------------------------------------
(* C08 *)
TypeOK == /\ head \in 0..N /\ tail \in 0..N /\ count \in Nat

NoBreach   == flags = {}
CountOk    == count = Len(q)
InBounds   == \A i \in 1..Len(q) : q[i][1] - 4 >= 0 /\ q[i][1] + q[i][2] <= N
Disjoint   == \A i, j \in 1..Len(q) : i # j =>
                 (Range(q[i][1] - 4, q[i][1] + q[i][2]) \cap Range(q[j][1] - 4, q[j][1] + q[j][2])) = {}
EmptyIff   == (q = <<>>) <=> (PeekRes[2] = NONE)
\* once emptied, every message up to the usable capacity can be allocated
EmptyAccepts == (q = <<>>) => \A s \in 0..MaxSize : (s <= N - 12) => ENABLED (Alloc(s) /\ last'[3] # NONE)

C08 == NoBreach /\ CountOk /\ InBounds /\ Disjoint /\ EmptyIff
==========================================================================
