---------------------------- MODULE JlsFileGen ----------------------------
(* Generator of disciplined write histories over a tiny abstract file:      *)
(* model-checks that JlsFile's discipline keeps stored content immutable.   *)
EXTENDS JlsFile

CONSTANTS MaxChunks, Sigs

VARIABLES chunks,   \* sequence of [tag, meta, next, content, heads]
          closed,
          hist      \* content version of every chunk as first written

mvars == <<chunks, closed, hist>>

NewChunk(tag, meta, c) == [tag |-> tag, meta |-> meta, next |-> 0, content |-> c, heads |-> [l \in 0..2 |-> 0]]

MInit == chunks = <<>> /\ closed = FALSE /\ hist = <<>>

MAppend == /\ ~closed /\ Len(chunks) < MaxChunks
           /\ \E tt \in {0, 2}, ck \in {CK_HEAD, CK_DATA, CK_INDEX}, s \in Sigs, l \in 0..2 :
                /\ (ck = CK_DATA => l = 0) /\ (ck = CK_INDEX => l > 0) /\ (ck = CK_HEAD => l = 0)
                /\ chunks' = Append(chunks, NewChunk(PackTag(tt, ck), s + 4096 * l, Len(chunks) + 1))
                /\ hist' = Append(hist, Len(chunks) + 1)
           /\ UNCHANGED closed

(* link patch: only next changes, towards a later chunk of the same tag/meta *)
MLink == /\ ~closed
         /\ \E i, j \in 1..Len(chunks) :
              /\ i < j /\ chunks[i].next = 0
              /\ chunks[i].tag = chunks[j].tag /\ chunks[i].meta = chunks[j].meta
              /\ chunks' = [chunks EXCEPT ![i].next = j]
         /\ UNCHANGED <<closed, hist>>

(* head patch: entry l goes once from 0 to a chunk of the right kind *)
MHead == /\ ~closed
         /\ \E i, j \in 1..Len(chunks), l \in 0..2 :
              /\ ChunkKind(chunks[i].tag) = CK_HEAD /\ chunks[i].heads[l] = 0
              /\ HeadChangeVerdict([tag |-> chunks[i].tag, meta |-> chunks[i].meta],
                                   [from0 |-> TRUE, lvl |-> l,
                                    target |-> [exists |-> TRUE, tag |-> chunks[j].tag, meta |-> chunks[j].meta]]) = ""
              /\ chunks' = [chunks EXCEPT ![i].heads[l] = j]
         /\ UNCHANGED <<closed, hist>>

MClose == ~closed /\ closed' = TRUE /\ UNCHANGED <<chunks, hist>>

MNext == MAppend \/ MLink \/ MHead \/ MClose
MSpec == MInit /\ [][MNext]_mvars

(* C14 on the generator *)
ContentImmutable == \A i \in 1..Len(chunks) : chunks[i].content = hist[i]
OnlyGrows == [][Len(chunks') >= Len(chunks)]_mvars
HeadsSetOnce == [][\A i \in 1..Len(chunks) : \A l \in 0..2 :
                      chunks[i].heads[l] # 0 => chunks'[i].heads[l] = chunks[i].heads[l]]_mvars
TagsStable == [][\A i \in 1..Len(chunks) : chunks'[i].tag = chunks[i].tag /\ chunks'[i].meta = chunks[i].meta]_mvars
HeadsPointRight == \A i \in 1..Len(chunks) : \A l \in 0..2 :
      (ChunkKind(chunks[i].tag) = CK_HEAD /\ chunks[i].heads[l] # 0) =>
          LET t == chunks[chunks[i].heads[l]] IN
          /\ TrackType(t.tag) = TrackType(chunks[i].tag)
          /\ MetaSig(t.meta) = MetaSig(chunks[i].meta) /\ MetaLvl(t.meta) = l
==========================================================================
