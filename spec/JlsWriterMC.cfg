SPECIFICATION Spec
CONSTANTS
  Spd = 4
  Sdf = 2
  Eps = 4
  Sumdf = 2
  MaxSamples = 40
  Sizes = {1, 3, 4, 9}
INVARIANT Inv
CHECK_DEADLOCK FALSE
