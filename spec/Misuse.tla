------------------------------- MODULE Misuse -------------------------------
(***************************************************************************)
(* Property C10: what a session of public API calls with arbitrary -- also *)
(* invalid -- arguments may do.                                             *)
(*                                                                         *)
(* The abstract state of a session is small: which handle is open, which    *)
(* sources / signals this writer session has defined and how many samples   *)
(* it wrote, and what the closed file on disk contains.  A call is a tuple  *)
(* <<op, arg, ...>> of concrete values.  Expect(S, c) is the contract:      *)
(*     "err"  the call must be refused with an error code                   *)
(*     "ok"   the call must succeed                                         *)
(*     "any"  either (the property only demands: no crash, hang, stray      *)
(*            access or leak)                                               *)
(* Eff(S, c) is the effect of a successful call on the abstract state.      *)
(*                                                                         *)
(* The same operators generate sessions (MisuseGen: every (state, call)     *)
(* pair of the finite graph over the call alphabet Calls(S), each replayed  *)
(* on the sanitizer build) and judge recorded sessions (MisuseTrace).       *)
(***************************************************************************)
EXTENDS Integers, Sequences, FiniteSets, TLC

Max(a, b) == IF a > b THEN a ELSE b

DT_F32 == 8196      \* JLS_DATATYPE_F32  (basetype 4, 32 bits)
DT_U1  == 259       \* JLS_DATATYPE_U1
DT_U8  == 2051      \* JLS_DATATYPE_U8
ValidDt == {DT_F32, DT_U1, DT_U8, 1025, 1027, 4099, 8195, 16387, 2049, 4097, 8193, 16385, 6145, 6147, 16388}
UNKNOWN == -1       \* a length the model does not know (overlapping / skipped writes)

NoSig == [type |-> "none", dt |-> 0, len |-> 0]
S0 == [phase |-> "idle",                  \* idle | w (writer) | t (threaded writer) | r (reader)
       src |-> {},                        \* sources defined in this writer session (0 is implicit)
       sig |-> <<>>,                      \* signals defined in this writer session: id -> [type, dt, len] (0 is implicit, VSR)
       file |-> "none",                   \* none | valid : the closed file on disk
       fsig |-> <<>>,                     \* its signals
       live0 |-> 0]                       \* library heap blocks before the handle was opened (trace only)

SigOf(S, id) == IF id \in DOMAIN S.sig THEN S.sig[id] ELSE NoSig
FSigOf(S, id) == IF id \in DOMAIN S.fsig THEN S.fsig[id] ELSE NoSig
\* f with f[k] = v (k may be new)
Put(f, k, v) == [x \in DOMAIN f \cup {k} |-> IF x = k THEN v ELSE f[x]]
Op(c) == c[1]

\* ---------------------------------------------------------------- the contract
ExpectWriter(S, c, threaded) ==
    LET op == SubSeq(Op(c), 2, Len(Op(c))) IN     \* without the w / t prefix
    CASE op = "close" -> "ok"
      [] op = "flush" -> "ok"
      [] op = "src" -> IF c[2] \in 1..255 /\ c[2] \notin S.src THEN "ok" ELSE "err"
      [] op = "sig" ->
            \* <<op, id, src, type, dt, rate, spd, sdf, eps, sumdf, adf, udf>>
            IF c[2] \notin 1..255 THEN "err"
            ELSE IF SigOf(S, c[2]).type # "none" THEN "err"
            ELSE IF c[3] # 0 /\ c[3] \notin S.src THEN "err"
            ELSE IF c[4] \notin {0, 1} THEN "err"
            ELSE IF c[4] = 0 /\ (c[5] \notin ValidDt \/ c[6] = 0) THEN "err"
            ELSE IF c[4] = 0 /\ <<c[7], c[8], c[9], c[10], c[11], c[12]>> \in {<<100, 10, 10, 10, 10, 10>>, <<0, 0, 0, 0, 0, 0>>}
                    /\ c[6] \in 1..1000000 THEN "ok"
            ELSE "any"
      [] op = "fsr" ->
            \* <<op, sig, sample id, n>>
            IF threaded THEN
                (IF SigOf(S, c[2]).type = "fsr" /\ c[4] > 0 /\ c[3] = SigOf(S, c[2]).len THEN "ok" ELSE "any")
            ELSE IF SigOf(S, c[2]).type # "fsr" THEN "err"
            ELSE IF c[4] > 0 /\ c[3] = SigOf(S, c[2]).len THEN "ok"
            ELSE "any"
      [] op = "fsrf32" ->
            IF threaded THEN "any"
            ELSE IF SigOf(S, c[2]).type # "fsr" \/ SigOf(S, c[2]).dt # DT_F32 THEN "err"
            ELSE IF c[4] > 0 /\ c[3] = SigOf(S, c[2]).len THEN "ok"
            ELSE "any"
      [] op = "omit" -> IF threaded THEN "any" ELSE IF SigOf(S, c[2]).type = "fsr" THEN "ok" ELSE "err"
      [] op = "anno" ->
            \* <<op, sig, ts, atype, stype, group, len>>
            IF threaded THEN "any"
            ELSE IF c[2] # 0 /\ SigOf(S, c[2]).type = "none" THEN "err"
            ELSE IF c[5] \notin {1, 2, 3} THEN "err"
            ELSE "any"
      [] op = "utc" -> IF threaded THEN "any" ELSE IF SigOf(S, c[2]).type = "fsr" THEN "any" ELSE "err"
      [] op = "ud" -> IF threaded THEN "any" ELSE IF c[3] \notin {0, 1, 2, 3} THEN "err" ELSE "any"
      [] OTHER -> "any"

InWindow(L, start, n) == start >= 0 /\ n >= 0 /\ start <= L /\ n <= L - start
\* start + incr * n <= L without leaving 32 bits
InStatsWindow(L, start, incr, n) == start >= 0 /\ incr > 0 /\ n > 0 /\ start <= L /\ n <= (L - start) \div incr

ExpectReader(S, c) ==
    LET op == SubSeq(Op(c), 2, Len(Op(c))) IN
    CASE op = "close" -> "ok"
      [] op \in {"sources", "signals"} -> "ok"
      [] op = "ud" -> "any"
      [] op = "signal" -> IF c[2] = 0 \/ FSigOf(S, c[2]).type # "none" THEN "ok" ELSE "err"
      [] op = "len" -> IF FSigOf(S, c[2]).type = "fsr" THEN "ok" ELSE "err"
      [] op \in {"fsr", "fsrf32"} ->
            \* <<op, sig, start, n>>
            LET s == FSigOf(S, c[2]) IN
            IF s.type # "fsr" THEN "err"
            ELSE IF op = "fsrf32" /\ s.dt # DT_F32 THEN "err"
            ELSE IF c[4] <= 0 THEN "any"
            ELSE IF s.len = UNKNOWN THEN "any"
            ELSE IF InWindow(s.len, c[3], c[4]) THEN "ok" ELSE "err"
      [] op = "stats" ->
            \* <<op, sig, start, incr, n>>
            LET s == FSigOf(S, c[2]) IN
            IF s.type # "fsr" THEN "err"
            ELSE IF c[4] <= 0 \/ c[5] <= 0 THEN "any"
            ELSE IF s.len = UNKNOWN THEN "any"
            ELSE IF InStatsWindow(s.len, c[3], c[4], c[5]) THEN "ok" ELSE "err"
      [] op = "annos" -> IF c[2] = 0 \/ FSigOf(S, c[2]).type # "none" THEN "ok" ELSE "err"
      \* a defined signal without a UTC track (VSR, signal 0) yields no entries: the code documents that as fine
      [] op = "utc" -> IF FSigOf(S, c[2]).type = "fsr" THEN "ok" ELSE IF c[2] = 0 \/ FSigOf(S, c[2]).type # "none" THEN "any" ELSE "err"
      [] op \in {"i2t", "t2i"} -> IF FSigOf(S, c[2]).type = "fsr" THEN "any" ELSE "err"
      [] OTHER -> "any"

\* what an open / copy of file kind k must do: 0 the session's file, 1 missing, 2 garbage, 3 empty,
\* 4 identification only, 5 the first half of the session's file
ExpectOpen(S, k) ==
    IF k = 0 THEN (IF S.file = "valid" THEN "ok" ELSE "err")
    ELSE IF k = 5 THEN (IF S.file = "valid" THEN "any" ELSE "err")
    ELSE "err"
\* jls_copy also serves to salvage damaged files: a source that starts like a JLS file (or is empty) may be
\* copied as far as it goes
ExpectCopy(S, k) ==
    IF k = 0 THEN (IF S.file = "valid" THEN "ok" ELSE "err")
    ELSE IF k \in {1, 2} THEN "err"
    ELSE IF k = 5 /\ S.file # "valid" THEN "err"
    ELSE "any"

Expect(S, c) ==
    IF S.phase = "idle" THEN
        (IF Op(c) \in {"wopen", "topen"} THEN "ok"
         ELSE IF Op(c) \in {"wopenbad", "topenbad", "copybad"} THEN "err"    \* the destination is in a directory that does not exist
         ELSE IF Op(c) = "ropen" THEN ExpectOpen(S, c[2])
         ELSE IF Op(c) = "copy" THEN ExpectCopy(S, c[2])
         ELSE "any")
    ELSE IF S.phase = "w" THEN ExpectWriter(S, c, FALSE)
    ELSE IF S.phase = "t" THEN ExpectWriter(S, c, TRUE)
    ELSE ExpectReader(S, c)

\* ---------------------------------------------------------------- effect of a successful call
Eff(S, c) ==
    LET op == Op(c) IN
    IF op \in {"wopen", "topen"} THEN
        [S EXCEPT !.phase = IF op = "wopen" THEN "w" ELSE "t", !.src = {}, !.sig = <<>>, !.file = "none", !.fsig = <<>>]
    ELSE IF op = "ropen" THEN
        \* a truncated file that opened: the reader repaired or accepted it; its content is a prefix
        [S EXCEPT !.phase = "r", !.fsig = IF c[2] = 5 THEN [g \in DOMAIN @ |-> IF @[g].type = "fsr" THEN [@[g] EXCEPT !.len = UNKNOWN] ELSE @[g]] ELSE @]
    ELSE IF op \in {"wclose", "tclose"} THEN [S EXCEPT !.phase = "idle", !.file = "valid", !.fsig = S.sig]
    ELSE IF op = "rclose" THEN [S EXCEPT !.phase = "idle"]
    ELSE IF op \in {"wsrc", "tsrc"} THEN [S EXCEPT !.src = @ \cup {c[2]}]
    ELSE IF op \in {"wsig", "tsig"} THEN
        [S EXCEPT !.sig = Put(@, c[2], [type |-> IF c[4] = 0 THEN "fsr" ELSE "vsr", dt |-> c[5], len |-> 0])]
    ELSE IF op \in {"wfsr", "tfsr", "wfsrf32", "tfsrf32"} THEN
        IF SigOf(S, c[2]).type = "fsr" THEN
            [S EXCEPT !.sig[c[2]].len = IF @ = UNKNOWN \/ c[4] <= 0 THEN @ ELSE IF c[3] = @ THEN @ + c[4] ELSE UNKNOWN]
        ELSE S
    ELSE S

\* ---------------------------------------------------------------- the call alphabet (generation)
Ids == {0, 1, 2, 3, 200, 256, 65535}
SigParams == {<<100, 10, 10, 10, 10, 10>>, <<0, 0, 0, 0, 0, 0>>, <<1, 1, 1, 1, 1, 1>>, <<1000000, 3, 7, 1, 1, 1>>}
WriterCalls(p) ==
       { <<p \o "close">>, <<p \o "flush">> }
  \cup { <<p \o "src", i>> : i \in {0, 1, 256} }
  \cup { <<p \o "sig", 1, 1, 0, DT_F32, 1000>> \o q : q \in SigParams }
  \cup { <<p \o "sig", 1, 0, 0, DT_U1, 1000, 100, 10, 10, 10, 10, 10>>,
         <<p \o "sig", 2, 0, 1, 0, 0, 0, 0, 0, 0, 0, 0>>,
         <<p \o "sig", 3, 0, 0, DT_U8, 1000, 100, 10, 10, 10, 10, 10>>,
         <<p \o "sig", 3, 9, 0, DT_F32, 1000, 100, 10, 10, 10, 10, 10>>,       \* undefined source
         <<p \o "sig", 3, 0, 7, DT_F32, 1000, 100, 10, 10, 10, 10, 10>>,       \* bad signal type
         <<p \o "sig", 3, 0, 0, 77, 1000, 100, 10, 10, 10, 10, 10>>,           \* bad data type
         <<p \o "sig", 3, 0, 0, DT_F32, 0, 100, 10, 10, 10, 10, 10>>,          \* no sample rate
         <<p \o "sig", 0, 0, 0, DT_F32, 1000, 100, 10, 10, 10, 10, 10>>,
         <<p \o "sig", 256, 0, 0, DT_F32, 1000, 100, 10, 10, 10, 10, 10>>,
         <<p \o "sig", 65535, 0, 0, DT_F32, 1000, 100, 10, 10, 10, 10, 10>> }
  \cup { <<p \o "fsr", i, 0, n>> : i \in Ids, n \in {0, 1, 100} }
  \cup { <<p \o "fsr", 1, s, 100>> : s \in {100, 200, 150, 1000, -50} }
  \cup { <<p \o "fsrf32", i, 0, 10>> : i \in {1, 3, 200, 65535} }
  \cup { <<p \o "omit", i, 1>> : i \in Ids }
  \cup { <<p \o "anno", i, 5, 1, 1, 0, 5>> : i \in Ids }
  \cup { <<p \o "anno", 1, 6, 0, 2, 0, 9>>, <<p \o "anno", 1, 7, 99, 1, 0, 3>>, <<p \o "anno", 1, 8, 1, 0, 0, 3>>,
         <<p \o "anno", 1, 9, 1, 77, 0, 3>>, <<p \o "anno", 1, 2, 1, 3, 255, 0>> }
  \cup { <<p \o "utc", i, 50, 1000>> : i \in Ids }
  \cup { <<p \o "ud", m, st, n>> : m \in {0, 4095, 4096, 65535}, st \in {1}, n \in {0, 10} }
  \cup { <<p \o "ud", 1, st, 4>> : st \in {0, 2, 3, 4, 200} }
ReaderCalls ==
       { <<"rclose">>, <<"rsources">>, <<"rsignals">>, <<"rud">> }
  \cup { <<"rsignal", i>> : i \in Ids }
  \cup { <<"rlen", i>> : i \in Ids }
  \cup { <<"rfsr", i, 0, 1>> : i \in Ids }
  \cup { <<"rfsr", 1, s, n>> : s \in {0, 50, 100, 101, -1, 2147483647}, n \in {0, 1, 100, 101, 1000000, 2147483647, -1} }
  \cup { <<"rfsrf32", i, 0, 10>> : i \in {1, 3, 200} }
  \cup { <<"rstats", i, 0, 10, 2>> : i \in Ids }
  \cup { <<"rstats", 1, s, k, n>> : s \in {0, 99, -1}, k \in {0, 1, 50, 2147483647}, n \in {0, 1, 3, 100000} }
  \* windows that end exactly at, and one sample past, the end of a signal of 100 / 200 samples
  \cup { <<"rstats", 1, 100, 1, 1>>, <<"rstats", 1, 0, 101, 1>>, <<"rstats", 1, 0, 1, 101>>, <<"rstats", 1, 50, 51, 1>>,
         <<"rstats", 1, 1, 50, 2>>, <<"rstats", 1, 99, 1, 2>>, <<"rstats", 1, 0, 100, 1>>, <<"rstats", 1, 0, 50, 2>>,
         <<"rstats", 1, 0, 1, 100>>, <<"rstats", 1, 0, 201, 1>>, <<"rstats", 1, 0, 67, 3>>, <<"rstats", 1, 199, 1, 2>>,
         <<"rfsr", 1, 50, 51>>, <<"rfsr", 1, 199, 2>>, <<"rfsr", 1, 0, 201>> }
  \cup { <<"rannos", i, 0>> : i \in Ids }
  \cup { <<"rutc", i, 0>> : i \in Ids }
  \cup { <<"ri2t", i, 10>> : i \in {1, 2, 200, 65535} }
  \cup { <<"rt2i", i, 10>> : i \in {1, 2, 200, 65535} }
IdleCalls == { <<"wopen">>, <<"topen">>, <<"wopenbad">>, <<"topenbad">>, <<"copybad", 0>> } \cup { <<"ropen", k>> : k \in 0..5 } \cup { <<"copy", k>> : k \in 0..5 }

Calls(S) == IF S.phase = "idle" THEN IdleCalls
            ELSE IF S.phase = "w" THEN WriterCalls("w")
            ELSE IF S.phase = "t" THEN WriterCalls("t")
            ELSE ReaderCalls
=============================================================================
