SPECIFICATION LSpec
CONSTANTS
  MaxChunks = 6
  Levels = {1, 2}
INVARIANT LinksOk
INVARIANT HeadsOk
INVARIANT PointersValid
CHECK_DEADLOCK FALSE
