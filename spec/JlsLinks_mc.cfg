SPECIFICATION LSpec
CONSTANTS
  MaxChunks = 7
  Levels = {1, 2}
INVARIANT LinksOk
INVARIANT HeadsOk
CHECK_DEADLOCK FALSE
