SPECIFICATION Spec
CONSTANTS
  D = 2
  MaxN = 11
  Vals = {1, 2, 3, 4, 5, 6, 7, 8, 9, 10, 11}
  Strict = TRUE
INVARIANT UtcSeekExact
CHECK_DEADLOCK FALSE
