SPECIFICATION Spec
CONSTANTS
  Df = 2
  MaxEntries = 70
INVARIANT Inv
CHECK_DEADLOCK FALSE
