------------------------------- MODULE TmapMC -------------------------------
(* All maps of 2..MaxN anchors over a small grid and all queries: the       *)
(* search of interp_i64 picks the segment the contract prescribes and reads *)
(* only inside the table.                                                   *)
EXTENDS Tmap, TLC
CONSTANTS MaxN, Xs, Queries
VARIABLES X
Init == X = <<>>
Next == /\ Len(X) < MaxN
        /\ \E v \in Xs : (IF Len(X) = 0 THEN TRUE ELSE v > X[Len(X)]) /\ X' = Append(X, v)
Spec == Init /\ [][Next]_X
A == [i \in 1..Len(X) |-> <<X[i], 10 * X[i]>>]
SegmentAgrees == Len(X) >= 2 => \A q \in Queries : InterpLow(X, q, Len(X) - 1).low + 1 = Segment(A, q)
InBounds == Len(X) >= 2 => \A q \in Queries : \A i \in InterpLow(X, q, Len(X) - 1).reads : i >= 0 /\ i < Len(X)
==========================================================================
