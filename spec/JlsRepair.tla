------------------------------ MODULE JlsRepair ------------------------------
(***************************************************************************)
(* Tier B: what the repairing open does to the FSR track of one signal     *)
(* (src/core.c: jls_core_repair_fsr, after src/track.c:                    *)
(* jls_track_repair_pointers has cut the item lists at the last complete   *)
(* chunk), on top of the writer model JlsWriter.tla.                       *)
(*                                                                         *)
(* A crash image, at the granularity of backend writes, is the first k     *)
(* chunks the writer appended plus one bit: whether the in-place write     *)
(* that ATTACHES the k-th chunk to its item list (item_next of its         *)
(* predecessor, or the track's head table for the first chunk of a list)   *)
(* was completed.  Every earlier chunk is attached (writes are             *)
(* sequential).  A chunk that is not attached is not reachable, and an     *)
(* index chunk whose summary chunk is missing is dropped by the pointer    *)
(* repair: both are DEAD - bytes in the file that no list leads to.        *)
(*                                                                         *)
(* jls_core_repair_fsr then RESUMES the writer: it re-creates the pending   *)
(* per-level buffers by replaying, with the writer's own functions          *)
(* (jls_core_fsr_summary1 / summaryN, which may emit new INDEX / SUMMARY    *)
(* chunks at the end of the file), the chunks that no index chunk of the    *)
(* level above lists yet:                                                   *)
(*   - at the top level that has index chunks on disk: all of them;         *)
(*   - then, one level down at a time: the chunks that follow the one the   *)
(*     last index entry above leads to (that one is skipped, it is already  *)
(*     accounted for), along the item list;                                 *)
(*   - finally the data chunks that follow the last indexed one;            *)
(* and closes the track (summary_close bottom-up = JlsWriter!CloseLevels).  *)
(*                                                                         *)
(* Omission of data chunks is not modelled here (an omitted block has no    *)
(* chunk to replay; see known finding C03-K1).                              *)
(***************************************************************************)
EXTENDS JlsWriter

\* ---- the crash image
Img(P, out, k, att) == [P |-> P, out |-> SubSeq(out, 1, k), att |-> att]

Dead(I, i) == /\ i = Len(I.out)
              /\ \/ I.out[i].tag = "I"                         \* INDEX without its SUMMARY
                 \/ (I.out[i].tag = "D" /\ ~I.att)             \* (an unattached SUMMARY is still read: it follows its INDEX physically)
Live(I, i) == i \in 1..Len(I.out) /\ ~Dead(I, i)

\* ordinals of the live chunks of a list, ascending
LiveOrd(I, tag, k) == SelectSeq([i \in 1..Len(I.out) |-> i], LAMBDA i : I.out[i].tag = tag /\ I.out[i].lvl = k /\ Live(I, i))

TopOnDisk(I) == IF \E k \in 1..MaxLevel : LiveOrd(I, "I", k) # <<>>
                THEN CHOOSE k \in 1..MaxLevel : LiveOrd(I, "I", k) # <<>> /\ \A j \in (k + 1)..MaxLevel : LiveOrd(I, "I", j) = <<>>
                ELSE 0

\* ---- the resumed writer
\* the state jls_core_repair_fsr starts from: nothing pending, the file as it is (dead chunks included: they keep
\* their place), head table = the levels that have a live index chunk
R0(I) == [W0(I.P) EXCEPT !.out = I.out, !.pos = Len(I.out), !.started = TRUE,
                         !.head = { k \in 1..MaxLevel : LiveOrd(I, "I", k) # <<>> }]

\* jls_core_fsr_summary1 on a data chunk read back from the file (ordinal o)
Feed1(R, o) ==
    LET c == R.out[o]
        L0 == R.lvl[1]
        L1 == [on |-> TRUE, n |-> L0.n + c.n \div R.P.sdf, idx |-> Append(L0.idx, o), ts |-> IF L0.idx = <<>> THEN c.ts ELSE L0.ts]
        R1 == [R EXCEPT !.lvl[1] = L1]
    IN IF L1.n >= R.P.eps THEN WrSummary(R1, 1) ELSE R1

\* jls_core_fsr_summaryN(level + 1) on an index chunk (ordinal o) and the summary chunk behind it
FeedN(R, lvl, o) == SummaryN(R, lvl + 1, o, R.out[o].ts, R.out[o + 1].n)

RECURSIVE FeedAll(_, _, _, _)
FeedAll(R, lvl, chain, skipFirst) ==
    IF chain = <<>> THEN R
    ELSE LET R1 == IF skipFirst THEN R
                   ELSE IF lvl = 0 THEN Feed1(R, Head(chain)) ELSE FeedN(R, lvl, Head(chain))
         IN FeedAll(R1, lvl, Tail(chain), FALSE)

After(chain, o) == SelectSeq(chain, LAMBDA x : x >= o)

\* one level of the descent: replay `chain` (the first element already accounted for when skipFirst), then go down
\* through the last entry of the last index chunk of this level
RECURSIVE Replay(_, _, _, _, _)
Replay(I, R, lvl, chain, skipFirst) ==
    LET R1 == FeedAll(R, lvl, chain, skipFirst) IN
    IF lvl = 0 \/ chain = <<>> THEN R1
    ELSE LET last == R.out[chain[Len(chain)]]
             down == last.offs[Len(last.offs)]
             R2 == [R1 EXCEPT !.lvl[lvl] = [on |-> TRUE, n |-> 0, idx |-> <<>>, ts |-> @.ts]]     \* this level's buffers are emptied
             lower == After(LiveOrd(I, IF lvl = 1 THEN "D" ELSE "I", lvl - 1), down)
         IN Replay(I, R2, lvl - 1, lower, TRUE)

Resume(I) ==
    LET top == TopOnDisk(I) IN
    IF top = 0 THEN Replay(I, R0(I), 0, LiveOrd(I, "D", 0), FALSE)
    ELSE Replay(I, [R0(I) EXCEPT !.lvl[top] = [on |-> TRUE, n |-> 0, idx |-> <<>>, ts |-> 0]], top, LiveOrd(I, "I", top), FALSE)

Repair(I) == [CloseLevels(Resume(I), 1) EXCEPT !.closed = TRUE]

--------------------------------------------------------------------------
(* what must hold of the repaired track *)

\* the repaired file with its dead chunks made invisible to the list predicates of JlsWriter
Hide(I, R) == [R EXCEPT !.out = [i \in 1..Len(R.out) |-> IF i <= Len(I.out) /\ Dead(I, i) THEN [R.out[i] EXCEPT !.tag = "X"] ELSE R.out[i]]]

LiveData(I) == Len(LiveOrd(I, "D", 0))

RepairOk(I) ==
    LET R == Hide(I, Repair(I)) IN
    /\ \A i \in 1..Len(I.out) : R.out[i].ts = I.out[i].ts /\ R.out[i].n = I.out[i].n      \* nothing on disk is altered
    /\ \A k \in 1..MaxLevel : R.lvl[k] = NoLevel                                          \* nothing stays pending
    /\ SeekOk(R) /\ DataOk(R) /\ PairOk(R)
    /\ Total(R) = LiveData(I) * I.P.spd                                                   \* every reachable block is found again
    /\ Flatten(Chunks(R, "I", 1)) = LiveOrd(I, "D", 0)                                    \* level 1 lists each of them once, in order
    /\ \A k \in 2..MaxLevel : Chunks(R, "I", k) # <<>> => Flatten(Chunks(R, "I", k)) = Ordinals(R, "I", k - 1)
    /\ SumN(Chunks(R, "S", 1)) = LiveData(I) * (I.P.spd \div I.P.sdf)                     \* and summarises each of them once
=============================================================================
