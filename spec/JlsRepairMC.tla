----------------------------- MODULE JlsRepairMC -----------------------------
(* Every crash image (every number of appended chunks, last one attached or   *)
(* not) of the chunk sequence the FSR writer model emits for MaxSamples       *)
(* samples, repaired by the model of jls_core_repair_fsr.                     *)
EXTENDS JlsRepair, TLC
CONSTANTS Spd, Sdf, Eps, Sumdf, MaxSamples
VARIABLES k, att
vars == <<k, att>>
P0 == [spd |-> Spd, sdf |-> Sdf, eps |-> Eps, sumdf |-> Sumdf]
Full == Write(W0(P0), MaxSamples, FALSE).out
Init == k \in 0..Len(Full) /\ att \in BOOLEAN
Next == UNCHANGED vars
Spec == Init /\ [][Next]_vars
Inv == RepairOk(Img(P0, Full, k, att))
\* not vacuous: some image has chunks appended by the repair, and some image has a dead chunk
SomeAppended == ~(Len(Repair(Img(P0, Full, k, att)).out) > k + 2)
SomeDead == ~(k > 0 /\ Dead(Img(P0, Full, k, att), k))
==============================================================================
