----------------------------- MODULE StatsRoutes -----------------------------
(* C20 on the transcription: for every sequence of <= MaxLen samples over Vals, *)
(* every split point and every grouping, all evaluation routes agree.           *)
EXTENDS Stats, TLC
CONSTANTS MaxLen
Vals == {-3, -1, 0, 2, 3}
VARIABLES xs
Init == xs = <<>>
Next == Len(xs) < MaxLen /\ \E v \in Vals : xs' = Append(xs, v)
Spec == Init /\ [][Next]_xs

RECURSIVE AddAll(_, _)
AddAll(a, s) == IF s = <<>> THEN a ELSE AddAll(Add(a, Head(s)), Tail(s))
Whole == Compute(xs)
RoutesAgree ==
    /\ Same(AddAll(Empty, xs), Whole)
    /\ \A i \in 0..Len(xs) :
          LET A == SubSeq(xs, 1, i)  B == SubSeq(xs, i + 1, Len(xs)) IN
          /\ Same(Combine(Compute(A), Compute(B)), Whole)
          /\ Same(Combine(AddAll(Empty, A), Compute(B)), Whole)
          /\ Same(AddAll(Compute(A), B), Whole)
          /\ \A j \in i..Len(xs) :      \* three parts, both groupings
                LET B1 == SubSeq(xs, i + 1, j)  B2 == SubSeq(xs, j + 1, Len(xs)) IN
                /\ Same(Combine(Combine(Compute(A), Compute(B1)), Compute(B2)), Whole)
                /\ Same(Combine(Compute(A), Combine(Compute(B1), Compute(B2))), Whole)
VarNonNegative == Whole.k > 0 => Whole.s[1] >= 0
MeanBetween == Whole.k > 0 => (Whole.mean[1] >= Whole.min * Whole.mean[2] /\ Whole.mean[1] <= Whole.max * Whole.mean[2])
EmptyIsIdentity == Same(Combine(Whole, Empty), Whole) /\ Same(Combine(Empty, Whole), Whole)
==========================================================================
