SPECIFICATION Spec
CONSTANTS
  Grid = {0, 1, 9, 10, 11, 16, 17, 33, 100, 128, 255, 256, 640, 1000, 1024}
  GridW = {1, 4, 8, 16, 32, 64}
INVARIANT RelationsHold
INVARIANT Idempotent
INVARIANT DefaultsApplied
CHECK_DEADLOCK FALSE
