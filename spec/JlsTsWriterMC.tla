---------------------------- MODULE JlsTsWriterMC ----------------------------
EXTENDS JlsTsWriter, TLC
CONSTANTS Df, MaxEntries
VARIABLES T, cnt
vars == <<T, cnt>>
Init == T = T0(Df) /\ cnt = 0
Next == \/ ~T.closed /\ cnt < MaxEntries /\ T' = Add(T, cnt * 3) /\ cnt' = cnt + 1
        \/ ~T.closed /\ T' = TsClose(T) /\ UNCHANGED cnt
        \/ T.closed /\ UNCHANGED vars
Spec == Init /\ [][Next]_vars
Inv == TsWriterOk(T)
==============================================================================
