---------------------------- MODULE TwrContract ----------------------------
(***************************************************************************)
(* Tier A: the contract of the threaded writer (properties C06 and C07) as *)
(* a judgement of one recorded execution, event by event.                  *)
(*                                                                         *)
(* Events (recorded by harness/twr_drv.c under the cooperative scheduler   *)
(* harness/sched_shim.c; every event is written while the emitting thread  *)
(* is the only one running, so the file order is the order of the steps):  *)
(*   Call/Ret   a jls_twr_* call starts / returns (thread, key, kind, rc)  *)
(*   Enq        jls_mrb_alloc was called (ok, owner of the message lock)   *)
(*   Deq        jls_mrb_peek / jls_mrb_pop was called (owner of the lock)  *)
(*   Apply      the synchronous writer was called (which message, whether  *)
(*              its bytes are the producer's, owner of the process lock)   *)
(*   Sync/Tick  scheduler steps; Deadlock/Livelock: scheduler verdicts     *)
(*   Final/Ref  content of the produced file / of the reference file the   *)
(*              synchronous writer produces from the accepted calls        *)
(*                                                                         *)
(* Contract state: the accepted messages in enqueue order, how many of     *)
(* them have been applied / were applied at the last sync, and the calls   *)
(* in flight.  "Applied exactly once and in order" is: the k-th applied    *)
(* message is the k-th accepted one.                                       *)
(***************************************************************************)
EXTENDS Integers, Sequences, FiniteSets

Threads == 0..7
NoCall == [open |-> FALSE, key |-> "", kind |-> "", enqidx |-> 0, need |-> 0]

C0 == [enq |-> <<>>,            \* accepted messages, enqueue order: [key, kind]
       nap |-> 0,               \* length of the applied prefix of enq
       synced |-> 0,            \* nap at the last jls_wr_flush
       maxret |-> 0,            \* largest enq index whose call has returned success
       call |-> [t \in Threads |-> NoCall],
       exited |-> {},           \* threads that have finished
       wrclosed |-> FALSE,      \* jls_wr_close was called
       dump |-> ""]             \* content of the produced file

Max(a, b) == IF a > b THEN a ELSE b

\* Close messages are consumed without a call into the synchronous writer, and a flush message need not lead to
\* a sync of its own (whether a flush may report success is judged at its return): NextIdx(enq, k, skip) is the
\* first entry after k whose kind is not in skip, 0 if there is none.
RECURSIVE NextIdx(_, _, _)
NextIdx(enq, k, skip) == IF k + 1 > Len(enq) THEN 0
                         ELSE IF enq[k + 1].kind \in skip THEN NextIdx(enq, k + 1, skip) ELSE k + 1
NextData(enq, k) == NextIdx(enq, k, {"C", "L"})
\* the flush message a sync belongs to: the next flush entry, provided no data message before it is unapplied
NextSync(enq, k) == LET j == NextIdx(enq, k, {"C"}) IN IF j # 0 /\ enq[j].kind = "L" THEN j ELSE 0

Keys(enq, a, b) == { enq[i].key : i \in a..b }

DataKinds == {"F", "A", "U", "D", "O"}

Verdict(C, ev) ==
    IF ev.e = "Call" THEN
        IF C.call[ev.t].open THEN "call started inside another call of the same thread" ELSE ""
    ELSE IF ev.e = "Enq" THEN
        IF ev.M # ev.t THEN "queue written without holding the message lock"
        ELSE IF ~C.call[ev.t].open \/ C.call[ev.t].key # ev.key THEN "message queued outside its call"
        ELSE IF ev.ok /\ C.call[ev.t].enqidx # 0 THEN "one call queued two messages"
        ELSE IF ev.ok /\ C.wrclosed THEN "message accepted after the file was closed"
        ELSE ""
    ELSE IF ev.e = "Deq" THEN
        IF ev.M # ev.t THEN "queue read without holding the message lock" ELSE ""
    ELSE IF ev.e = "Apply" THEN
        IF ev.kind = "S" THEN
            IF ev.P # ev.t THEN "definition applied without holding the process lock" ELSE ""
        ELSE IF ev.kind = "C" THEN
            IF C.wrclosed THEN "file closed twice"
            ELSE IF NextData(C.enq, C.nap) # 0 THEN "file closed before every accepted message was applied"
            ELSE IF 1 \notin C.exited THEN "file closed while the writer thread was still running"
            ELSE ""
        ELSE IF C.wrclosed THEN "message applied after the file was closed"
        ELSE IF ev.P # ev.t THEN "file state written without holding the process lock"
        ELSE LET k == NextData(C.enq, C.nap) IN
            IF ev.kind = "L" THEN
                IF NextSync(C.enq, C.nap) = 0 THEN "sync applied out of order" ELSE ""
            ELSE IF k # 0 /\ C.enq[k].key = ev.key THEN
                (IF ev.same THEN "" ELSE "applied message bytes differ from what the producer supplied")
            ELSE IF ev.key \in Keys(C.enq, 1, C.nap) THEN "accepted message applied twice"
            ELSE IF ev.key \in Keys(C.enq, C.nap + 1, Len(C.enq)) THEN "accepted messages applied out of order"
            ELSE "applied a message that was never accepted"
    ELSE IF ev.e = "Ret" THEN
        LET c == C.call[ev.t] IN
        IF ~c.open \/ c.key # ev.key THEN "return without a matching call"
        ELSE IF ev.kind \in DataKinds THEN
            IF ev.rc = 0 /\ c.enqidx = 0 THEN "call returned success but its message was never queued"
            ELSE IF ev.rc # 0 /\ c.enqidx # 0 THEN "call returned an error but its message was queued"
            ELSE ""
        ELSE IF ev.kind = "L" THEN
            IF ev.rc = 0 /\ C.nap < c.need THEN "flush returned success before every earlier message was applied"
            ELSE IF ev.rc = 0 /\ C.synced < c.need THEN "flush returned success before the earlier messages were synced"
            ELSE ""
        ELSE IF ev.kind = "C" THEN
            IF ~C.wrclosed THEN "close returned before the file was closed"
            ELSE ""
        ELSE ""
    ELSE IF ev.e = "Deadlock" THEN "deadlock: no thread can run, no timer is pending, threads are unfinished"
    ELSE IF ev.e = "Livelock" THEN "no progress: step budget exhausted"
    ELSE IF ev.e = "Abnormal" THEN "process crashed or hung"
    ELSE IF ev.e = "AllDone" THEN
        IF \E t \in Threads : C.call[t].open THEN "a call never returned" ELSE ""
    ELSE IF ev.e = "Ref" THEN
        IF C.dump # ev.dump THEN "file content differs from the synchronous reference"
        ELSE ""
    ELSE ""

Update(C, ev) ==
    IF ev.e = "Call" THEN
        [C EXCEPT !.call[ev.t] = [open |-> TRUE, key |-> ev.key, kind |-> ev.kind, enqidx |-> 0, need |-> C.maxret]]
    ELSE IF ev.e = "Enq" THEN
        IF ev.ok THEN [C EXCEPT !.enq = Append(@, [key |-> ev.key, kind |-> ev.kind]),
                                !.call[ev.t].enqidx = Len(C.enq) + 1]
        ELSE C
    ELSE IF ev.e = "Apply" THEN
        IF ev.kind = "S" THEN C
        ELSE IF ev.kind = "C" THEN [C EXCEPT !.wrclosed = TRUE]
        ELSE IF ev.kind = "L" THEN LET j == NextSync(C.enq, C.nap) IN [C EXCEPT !.nap = j, !.synced = j]
        ELSE [C EXCEPT !.nap = NextData(C.enq, C.nap)]
    ELSE IF ev.e = "Ret" THEN
        [C EXCEPT !.call[ev.t] = NoCall,
                  !.maxret = IF ev.rc = 0 THEN Max(@, C.call[ev.t].enqidx) ELSE @]
    ELSE IF ev.e = "Sync" THEN
        IF ev.op = "exit" THEN [C EXCEPT !.exited = @ \cup {ev.t}] ELSE C
    ELSE IF ev.e = "Final" THEN [C EXCEPT !.dump = ev.dump]
    ELSE C
=============================================================================
