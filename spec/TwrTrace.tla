----------------------------- MODULE TwrTrace -----------------------------
(***************************************************************************)
(* Conformance of recorded executions of the real threaded writer (under   *)
(* harness/sched_shim.c) with the tier-B model Twr.tla: the recorded        *)
(* schedule (Sync / Tick events) drives the model, and everything the real  *)
(* code did in between -- which call started or returned with which code,   *)
(* what the queue answered and where its head/tail/count went, which        *)
(* message reached the synchronous writer -- must be exactly what the model *)
(* produced for that step (S.out), in the same order.  Lock owners and the  *)
(* virtual clock are compared after every step.                             *)
(*                                                                         *)
(* A rejection here means the model no longer describes the code (drift):   *)
(* the model-checking results then say nothing about it.  It is reported as *)
(* MODEL-DRIFT, not as a violation -- the properties are judged on the same *)
(* executions by TwrContractTrace.                                          *)
(***************************************************************************)
EXTENDS Twr, Json, IOUtils, TLC

TraceLog == ndJsonDeserialize(IOEnv.TRACE)

VARIABLES l, S, pos, x, skip, rej
vars == <<l, S, pos, x, skip, rej>>

Ev == TraceLog[l]

KOf(ev) == [np |-> ev.np, prog |-> [t \in 2..MaxT |-> ev.prog[t - 1]], ndefs |-> ev.ndefs, closer |-> ev.closer,
            drop |-> ev.drop, qn |-> ev.qn, sendTimeout |-> 5000, sendSleep |-> 5, flushTimeout |-> 20000,
            pollSleep |-> 10, closeRetry |-> ev.closeRetry]
K0 == [np |-> 0, prog |-> [t \in 2..MaxT |-> <<>>], ndefs |-> 0, closer |-> 0, drop |-> FALSE, qn |-> 64,
       sendTimeout |-> 5000, sendSleep |-> 5, flushTimeout |-> 20000, pollSleep |-> 10, closeRetry |-> TRUE]

Init == l = 1 /\ S = S0(K0) /\ pos = 0 /\ x = 0 /\ skip = FALSE /\ rej = <<>>

CKey(ev) == IF ev.kind = "C" THEN "C" ELSE ev.key
Proj(ev) ==
    IF ev.e = "Call" THEN <<"Call", ev.t, CKey(ev)>>
    ELSE IF ev.e = "Enq" THEN <<"Enq", ev.t, CKey(ev), ev.ok, ev.head, ev.tail, ev.count>>
    ELSE IF ev.e = "Deq" THEN <<"Deq", ev.t, ev.op, ev.got, ev.head, ev.tail, ev.count>>
    ELSE IF ev.e = "Apply" THEN <<"Apply", ev.t, ev.key, ev.kind>>
    ELSE IF ev.e = "Ret" THEN <<"Ret", ev.t, CKey(ev), ev.rc, ev.fs, ev.fp>>
    ELSE <<"?">>

ObjOk(p, ev) == (p.op \in {"lock", "unlock"}) => p.obj = ev.obj

Reject(why) == /\ rej' = Append(rej, <<x, l, why>>) /\ skip' = TRUE /\ UNCHANGED <<S, pos, x>>

Step1 ==
    /\ l <= Len(TraceLog)
    /\ l' = l + 1
    /\ IF Ev.e = "Reset" THEN
            /\ S' = S0(KOf(Ev)) /\ pos' = 0 /\ x' = Ev.x /\ skip' = FALSE /\ UNCHANGED rej
       ELSE IF skip THEN UNCHANGED <<S, pos, x, skip, rej>>
       ELSE IF Ev.e = "Sync" THEN
            IF pos # Len(S.out) THEN Reject("the model produced an output the code did not")
            ELSE IF Ev.t \notin Thr THEN Reject("unknown thread")
            ELSE IF S.pend[Ev.t].op # Ev.op \/ ~ObjOk(S.pend[Ev.t], Ev) THEN Reject("the thread's next synchronisation operation differs from the model")
            ELSE IF ~Enabled(S, Ev.t) THEN Reject("step performed although the model has it disabled")
            ELSE LET S1 == Step(S, Ev.t) IN
                 IF S1.own["M"] # Ev.own.M \/ S1.own["P"] # Ev.own.P \/ S1.own["E"] # Ev.own.E THEN Reject("lock owners differ from the model")
                 ELSE IF S1.now # Ev.now THEN Reject("clock differs from the model")
                 ELSE /\ S' = S1 /\ pos' = 0 /\ UNCHANGED <<x, skip, rej>>
       ELSE IF Ev.e = "Tick" THEN
            IF pos # Len(S.out) THEN Reject("the model produced an output the code did not")
            ELSE IF ~TickEnabled(S) THEN Reject("time advanced although no thread sleeps in the model")
            ELSE LET S1 == Tick(S, Ev.jump) IN
                 IF S1.now # Ev.now THEN Reject("clock differs from the model")
                 ELSE /\ S' = S1 /\ pos' = 0 /\ UNCHANGED <<x, skip, rej>>
       ELSE IF Ev.e \in {"Call", "Enq", "Deq", "Apply", "Ret"} THEN
            IF pos >= Len(S.out) THEN Reject("the code produced an output the model did not")
            ELSE IF S.out[pos + 1] # Proj(Ev) THEN Reject("output differs from the model")
            ELSE /\ pos' = pos + 1 /\ UNCHANGED <<S, x, skip, rej>>
       ELSE IF Ev.e = "Deadlock" THEN
            IF (\E t \in Thr : Enabled(S, t)) \/ TickEnabled(S) THEN Reject("deadlock reported although the model can step")
            ELSE UNCHANGED <<S, pos, x, skip, rej>>
       ELSE IF Ev.e = "AllDone" THEN
            IF pos # Len(S.out) THEN Reject("the model produced an output the code did not")
            ELSE IF ~AllDone(S) THEN Reject("run finished although model threads are unfinished")
            ELSE UNCHANGED <<S, pos, x, skip, rej>>
       ELSE UNCHANGED <<S, pos, x, skip, rej>>

Spec == Init /\ [][Step1]_vars

Done == /\ PrintT(<<"TRACE_RESULT", TLCGet("stats").diameter - 1, Len(TraceLog)>>)
        /\ TRUE
Final == (l = Len(TraceLog) + 1) => PrintT(<<"TRACE_REJ", rej>>)
===========================================================================
