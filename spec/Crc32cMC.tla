------------------------------ MODULE Crc32cMC ------------------------------
(* Constant-level checks of the definition by TLC: the standard check value, *)
(* table-driven = bit-serial for every byte on a spread of registers, and    *)
(* the head/body/tail split of any buffer gives the same register.           *)
EXTENDS Crc32c, TLC
Regs == {<<0, 0>>, <<65535, 65535>>, <<1, 0>>, <<0, 1>>, <<32768, 0>>, <<0, 32768>>, <<4660, 22136>>, <<58118, 37507>>, <<43690, 21845>>}
VARIABLES r, b
Init == r \in Regs /\ b \in 0..255
Next == UNCHANGED <<r, b>>
Spec == Init /\ [][Next]_<<r, b>>
CheckValue == Crc(<<49, 50, 51, 52, 53, 54, 55, 56, 57>>) = <<58118, 37507>>     \* "123456789" -> 0xE3069283
EmptyValue == Crc(<<>>) = <<0, 0>>
TableIsSerial == ByteTable(r, b) = ByteSerial(r, b)
\* splitting a buffer anywhere (head bytes, body, tail bytes) does not change the result
SplitInvariant == LET B == <<b, 0, 255, b, 17, (b * 7) % 256, 1, 2, 3, 4, 5, b>>
                      P == Prefix(B)
                  IN \A k \in 0..Len(B) :
                        LET G[j \in k..Len(B)] == IF j = k THEN P[k] ELSE ByteSerial(G[j-1], B[j]) IN G[Len(B)] = P[Len(B)]
==========================================================================
