------------------------------ MODULE JlsWriter ------------------------------
(***************************************************************************)
(* Tier B: the fixed-sample-rate writer of one signal (src/wr_fsr.c) as a  *)
(* machine that turns a sequence of contiguous jls_wr_fsr calls and the     *)
(* final close into a sequence of appended chunks.                          *)
(*                                                                         *)
(* What is modelled: the sample buffer (one data block of P.spd samples),   *)
(* the per-level summary buffers (entries pending, index offsets pending,   *)
(* timestamp of the first), when wr_data / jls_core_fsr_summary1 /          *)
(* jls_core_fsr_summaryN / wr_summary / summary_close emit a DATA, INDEX or  *)
(* SUMMARY chunk, with which timestamp and how many entries.  Sample values  *)
(* are not modelled (Stats.tla does the arithmetic); omission of data        *)
(* chunks is modelled as a flag per block (the block's DATA chunk is not     *)
(* emitted, its index offset is 0).                                          *)
(*                                                                         *)
(* A chunk is [tag, lvl, ts, n]: tag "D" (n samples), "I" (n offsets),       *)
(* "S" (n summary entries); ts is the sample id of its first sample,         *)
(* relative to the first sample of the signal.                               *)
(*                                                                         *)
(* The state is one record W (total style).  P = [spd, sdf, eps, sumdf] are  *)
(* the normalised definition parameters (SigDef.tla): sdf | spd,             *)
(* (spd/sdf) | eps, sumdf | eps.                                             *)
(***************************************************************************)
EXTENDS Integers, Sequences, FiniteSets

MaxLevel == 15
NoLevel == [on |-> FALSE, n |-> 0, idx |-> <<>>, ts |-> 0]

W0(P) == [P |-> P,
          blk |-> 0,                    \* samples in the sample buffer
          ts |-> 0,                     \* sample id of the first sample in the buffer
          started |-> FALSE,            \* a data chunk exists on disk (the first block is never omitted)
          lvl |-> [k \in 1..MaxLevel |-> NoLevel],
          head |-> {},                  \* levels whose first index chunk has been written (track head set)
          pos |-> 0,                    \* ordinal of the next appended chunk (stands for its file offset), from 1
          out |-> <<>>,                 \* chunks appended so far
          closed |-> FALSE]

Emit(W, c) == [W EXCEPT !.out = Append(@, c), !.pos = @ + 1]

\* wr_summary(level k) and the cascade into jls_core_fsr_summaryN(k + 1)
RECURSIVE WrSummary(_, _)
SummaryN(W, k, posIdx, ts, nLower) ==
    \* level k receives the offset posIdx of the lower level's index chunk and nLower \div sumdf entries
    LET L0 == W.lvl[k]
        L1 == [on |-> TRUE,
               n |-> L0.n + nLower \div W.P.sumdf,
               idx |-> Append(L0.idx, posIdx),
               ts |-> IF L0.idx = <<>> THEN ts ELSE L0.ts]
        W1 == [W EXCEPT !.lvl[k] = L1]
    IN IF L1.n >= W.P.eps THEN WrSummary(W1, k) ELSE W1

WrSummary(W, k) ==
    LET L == W.lvl[k] IN
    IF L.n = 0 /\ (L.idx = <<>> \/ (k # 1 /\ k \notin W.head)) THEN W
    ELSE LET posIdx == W.pos + 1                                   \* jls_raw_chunk_tell before wr_index
             W1 == IF L.idx # <<>> THEN [Emit(W, [tag |-> "I", lvl |-> k, ts |-> L.ts, n |-> Len(L.idx), offs |-> L.idx]) EXCEPT !.head = @ \cup {k}]
                   ELSE W
             W2 == Emit(W1, [tag |-> "S", lvl |-> k, ts |-> L.ts, n |-> L.n, offs |-> <<>>])
             W3 == IF k < MaxLevel THEN SummaryN(W2, k + 1, posIdx, L.ts, L.n) ELSE W2
         IN [W3 EXCEPT !.lvl[k] = [on |-> TRUE, n |-> 0, idx |-> <<>>, ts |-> L.ts]]

\* wr_data: the sample buffer (c samples) becomes a DATA chunk (unless omitted) and feeds level 1
WrData(W, omit) ==
    LET c == W.blk
        om == omit /\ W.started                     \* the first block is never omitted
        W1 == IF om THEN W ELSE Emit(W, [tag |-> "D", lvl |-> 0, ts |-> W.ts, n |-> c, offs |-> <<>>])
        posD == IF om THEN 0 ELSE W.pos + 1
        L0 == W1.lvl[1]
        L1 == [on |-> TRUE, n |-> L0.n + c \div W.P.sdf, idx |-> Append(L0.idx, posD),
               ts |-> IF L0.idx = <<>> THEN W.ts ELSE L0.ts]
        W2 == [W1 EXCEPT !.lvl[1] = L1, !.started = TRUE, !.ts = W.ts + W.P.spd, !.blk = 0]
    IN IF L1.n >= W.P.eps THEN WrSummary(W2, 1) ELSE W2

\* jls_wr_fsr with m contiguous samples; omitSet: ordinals (from 1) of the blocks completed in this session that
\* are omitted (on request, or constant blocks of narrow types)
RECURSIVE Write(_, _, _)
Write(W, m, omit) ==
    IF m = 0 THEN W
    ELSE LET room == W.P.spd - W.blk
             take == IF m < room THEN m ELSE room
             W1 == [W EXCEPT !.blk = @ + take]
         IN IF W1.blk = W.P.spd THEN Write(WrData(W1, omit), m - take, omit)
            ELSE W1

\* jls_fsr_close: the remaining partial block, then every level bottom-up
RECURSIVE CloseLevels(_, _)
CloseLevels(W, k) ==
    IF k > MaxLevel THEN W
    ELSE CloseLevels(IF W.lvl[k].on THEN [WrSummary(W, k) EXCEPT !.lvl[k] = NoLevel] ELSE W, k + 1)

Close(W, omit) ==
    LET W1 == IF W.blk > 0 THEN WrData(W, omit) ELSE W IN
    [CloseLevels(W1, 1) EXCEPT !.closed = TRUE]

--------------------------------------------------------------------------
(* what must hold of the emitted chunk sequence *)

Chunks(W, tag, k) == SelectSeq(W.out, LAMBDA c : c.tag = tag /\ c.lvl = k)
RECURSIVE SumN(_)
SumN(s) == IF s = <<>> THEN 0 ELSE Head(s).n + SumN(Tail(s))
RECURSIVE Flatten(_)
Flatten(s) == IF s = <<>> THEN <<>> ELSE Head(s).offs \o Flatten(Tail(s))

\* ordinal (position in out) of every chunk with the given tag and level, in order
Ordinals(W, tag, k) == SelectSeq([i \in 1..Len(W.out) |-> i], LAMBDA i : W.out[i].tag = tag /\ W.out[i].lvl = k)

\* data chunks are consecutive blocks (omitted ones are missing), each of spd samples except the last of a closed signal
DataOk(W) == \A i \in 1..Len(Chunks(W, "D", 0)) : LET c == Chunks(W, "D", 0)[i] IN c.ts % W.P.spd = 0 /\ c.n <= W.P.spd /\ c.n > 0

\* level-1 index entries, in order, are exactly the stored data chunks' positions, with 0 for omitted blocks
Index1Ok(W) ==
    LET offs == Flatten(Chunks(W, "I", 1)) \o W.lvl[1].idx
        nz == SelectSeq(offs, LAMBDA o : o # 0)
    IN nz = Ordinals(W, "D", 0)

\* level-k index entries (k >= 2), in order, are exactly the positions of the level k-1 index chunks
IndexKOk(W, k) ==
    LET offs == Flatten(Chunks(W, "I", k)) \o W.lvl[k].idx IN
    offs = Ordinals(W, "I", k - 1) \/ (W.lvl[k].on = FALSE /\ Chunks(W, "I", k) = <<>> /\ offs = <<>>)

\* every summary chunk has its index chunk right before it and carries no more than eps entries
PairOk(W) == \A i \in 1..Len(W.out) : W.out[i].tag = "S" =>
                 /\ W.out[i].n <= W.P.eps
                 /\ i > 1 /\ W.out[i - 1].tag = "I" /\ W.out[i - 1].lvl = W.out[i].lvl /\ W.out[i - 1].ts = W.out[i].ts

\* after close nothing is pending: every data block is led to by level 1 and every written level by the one above
\* (or it is the top level)
ClosedOk(W) == W.closed =>
    /\ \A k \in 1..MaxLevel : W.lvl[k] = NoLevel
    /\ Len(Flatten(Chunks(W, "I", 1))) >= Len(Chunks(W, "D", 0))
    /\ \A k \in 2..MaxLevel : Chunks(W, "I", k) # <<>> => Flatten(Chunks(W, "I", k)) = Ordinals(W, "I", k - 1)

\* level-1 summary entries account for every whole sdf-group of every block
Summary1Ok(W) ==
    LET blocks == Len(Flatten(Chunks(W, "I", 1))) + Len(W.lvl[1].idx) IN
    W.closed \/ SumN(Chunks(W, "S", 1)) + W.lvl[1].n = blocks * (W.P.spd \div W.P.sdf)

--------------------------------------------------------------------------
(* the reader's descent (src/core.c: jls_core_fsr_seek, jls_core_rd_fsr_level1, jls_core_rd_fsr_data0) over the
   emitted chunks of a closed signal: from the head of the highest level that has an index chunk, by index
   arithmetic only, down to the data chunk that holds a sample *)

RECURSIVE Pow(_, _)
Pow(b, e) == IF e = 0 THEN 1 ELSE b * Pow(b, e - 1)
\* samples between two entries of an index chunk of level lvl
StepSize(P, lvl) == IF lvl = 1 THEN P.spd ELSE P.spd * (P.eps \div (P.spd \div P.sdf)) * Pow(P.sumdf, lvl - 2)

TopLevel(W) == IF \E k \in 1..MaxLevel : Chunks(W, "I", k) # <<>>
               THEN CHOOSE k \in 1..MaxLevel : Chunks(W, "I", k) # <<>> /\ \A j \in (k + 1)..MaxLevel : Chunks(W, "I", j) = <<>>
               ELSE 0

\* position (ordinal in out) reached at level 1 for sample sid, or 0 when an index does not cover it
RECURSIVE Descend(_, _, _, _)
Descend(W, lvl, pos, sid) ==
    LET c == W.out[pos]
        i == (sid - c.ts) \div StepSize(W.P, lvl)
    IN IF c.tag # "I" \/ c.lvl # lvl \/ sid < c.ts \/ i >= c.n THEN 0
       ELSE IF lvl = 1 THEN pos
       ELSE IF c.offs[i + 1] = 0 THEN 0 ELSE Descend(W, lvl - 1, c.offs[i + 1], sid)

\* the data chunk the reader finds for sample sid: its ordinal, -1 for an omitted block, 0 for a failure
Locate(W, sid) ==
    LET top == TopLevel(W) IN
    IF top = 0 THEN 0
    ELSE LET p1 == Descend(W, top, Ordinals(W, "I", top)[1], sid) IN
         IF p1 = 0 THEN 0
         ELSE LET c == W.out[p1]
                  o == c.offs[(sid - c.ts) \div W.P.spd + 1]
              IN IF o = 0 THEN -1 ELSE o

Total(W) == IF Chunks(W, "I", 1) = <<>> THEN 0
            ELSE LET d == Chunks(W, "D", 0) IN IF d = <<>> THEN 0 ELSE d[Len(d)].ts + d[Len(d)].n

\* every sample of a closed signal is found: in the data chunk that holds it, or reported as omitted
SeekOk(W) == W.closed =>
    \A sid \in 0..(Total(W) - 1) :
        LET o == Locate(W, sid) IN
        \/ o = -1
        \/ o > 0 /\ W.out[o].tag = "D" /\ W.out[o].ts <= sid /\ sid < W.out[o].ts + W.out[o].n

WriterOk(W) == SeekOk(W) /\ DataOk(W) /\ Index1Ok(W) /\ (\A k \in 2..4 : IndexKOk(W, k)) /\ PairOk(W) /\ ClosedOk(W) /\ Summary1Ok(W)
=============================================================================
