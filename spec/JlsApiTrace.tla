---------------------------- MODULE JlsApiTrace ----------------------------
(* Trace validation of recorded API executions against the JlsApi contract. *)
(* Total style: a rejected event is recorded and the rest of its execution   *)
(* is skipped, so one TLC run judges every execution of the file.            *)
EXTENDS JlsApi, Json, IOUtils, TLC

TraceLog == ndJsonDeserialize(IOEnv.TRACE)

VARIABLES l, S, x, skip, rej, njudged
vars == <<l, S, x, skip, rej, njudged>>
Ev == TraceLog[l]

Init == l = 1 /\ S = Fresh /\ x = 0 /\ skip = FALSE /\ rej = <<>> /\ njudged = 0

Step ==
    /\ l <= Len(TraceLog)
    /\ l' = l + 1
    /\ IF Ev.e = "Reset" THEN S' = Fresh /\ x' = Ev.x /\ skip' = FALSE /\ UNCHANGED <<rej, njudged>>
       ELSE IF skip THEN UNCHANGED <<S, x, skip, rej, njudged>>
       ELSE LET v == Verdict(S, Ev) IN
            IF v # "" THEN rej' = Append(rej, <<x, l, v>>) /\ skip' = TRUE /\ UNCHANGED <<S, x, njudged>>
            ELSE S' = Update(S, Ev) /\ njudged' = njudged + 1 /\ UNCHANGED <<x, skip, rej>>

Spec == Init /\ [][Step]_vars
Done == PrintT(<<"TRACE_RESULT", TLCGet("stats").diameter - 1, Len(TraceLog)>>)
Final == (l = Len(TraceLog) + 1) => PrintT(<<"TRACE_REJ", rej>>) /\ PrintT(<<"TRACE_INFO", njudged>>)
==========================================================================
