------------------------------ MODULE JlsCorrupt ------------------------------
(***************************************************************************)
(* Tier A (C04): a properly closed file is altered and then opened.  Every *)
(* observation must be an error, or exactly what was written (or a genuine *)
(* prefix of it when the alteration made the file look unclosed and the    *)
(* open repaired it) - never altered content presented as valid.           *)
(***************************************************************************)
EXTENDS JlsCrash

PrefixOf(a, b) == Len(a) <= Len(b) /\ a = SubSeq(b, 1, Len(a))

\* one FSR signal on a file the open did NOT modify: error, or the full original
SigExact(S, ent) ==
    IF ~Has(S.sigs, ent.sig) THEN "a signal that was never defined appeared"
    ELSE LET g == S.sigs[Idx(S.sigs, ent.sig)] IN
        IF ent.lrc # 0 THEN ""
        ELSE IF ent.len # Length(g) THEN "altered file reports a different signal length as valid"
        ELSE IF ent.len = 0 \/ ent.rrc # 0 THEN ""
        ELSE IF ent.first # g.first THEN "altered file reports a different first sample id as valid"
        ELSE IF ~RunsCover(ent.runs, ent.first, ent.len)
                \/ \E i \in 1..Len(ent.runs) : ~RunOk(g, [p |-> ent.runs[i].p - g.first, n |-> ent.runs[i].n, c |-> ent.runs[i].c])
             THEN "altered samples returned as valid"
        ELSE IF \E i \in 1..Len(ent.st) : ~StatsAgree(ent.st[i]) THEN "altered statistics returned as valid"
        ELSE ""

DefsVerdict(S, d) ==
    IF d.rc # 0 THEN ""
    ELSE IF RdSourcesVerdict(S, [rc |-> 0, items |-> d.srcs]) # "" THEN "altered source definitions returned as valid"
    ELSE IF RdSignalsVerdict(S, [rc |-> 0, items |-> d.sigs]) # "" THEN "altered signal definitions returned as valid"
    ELSE ""

FaultObsVerdict(S, ev) ==
    IF ev.term # "ok" THEN "opening an altered file did not terminate normally: " \o ev.term
    ELSE IF ev.rc # 0 THEN ""
    ELSE IF ev.modified THEN
        \* the damage made the file look unclosed and the open repaired it: prefix semantics of C03
        (LET v == CrashObsVerdict(S, ev)
         IN IF v = "" THEN "" ELSE "after repair of an altered file: " \o v)
    ELSE IF ev.wcount # 0 THEN "the open wrote to the altered file without changing it"
    \* definitions may be missing (a damaged definition is skipped) but never altered
    ELSE IF ev.defs.rc = 0 /\ (\E i \in 1..Len(ev.defs.sigs) : \A k \in 1..Len(S.sigs) : ev.defs.sigs[i] # SigRec(S.sigs[k]))
         THEN "altered signal definitions returned as valid"
    ELSE IF ev.defs.rc = 0 /\ (\E i \in 1..Len(ev.defs.srcs) : \A k \in 1..Len(S.srcs) :
                 ev.defs.srcs[i] # <<S.srcs[k].id>> \o [j \in 1..5 |-> AbsentToEmpty(S.srcs[k].s[j])])
         THEN "altered source definitions returned as valid"
    ELSE LET v1 == FirstBad([i \in 1..Len(ev.sigs) |-> SigExact(S, ev.sigs[i])]) IN
        IF v1 # "" THEN v1
        ELSE IF \E i \in 1..Len(ev.annos) : ~Has(S.sigs, ev.annos[i].sig) \/
                   LET A == S.sigs[Idx(S.sigs, ev.annos[i].sig)].annos IN
                   IF ev.annos[i].rc = 0 THEN ev.annos[i].items # A ELSE ~PrefixOf(ev.annos[i].items, A)
             THEN "altered or incomplete annotations returned as valid"
        ELSE IF \E i \in 1..Len(ev.utcs) : ~Has(S.sigs, ev.utcs[i].sig) \/
                   LET U == S.sigs[Idx(S.sigs, ev.utcs[i].sig)].utcs IN
                   IF ev.utcs[i].rc = 0 THEN ev.utcs[i].items # U ELSE ~PrefixOf(ev.utcs[i].items, U)
             THEN "altered or incomplete UTC entries returned as valid"
        ELSE IF (IF ev.ud.rc = 0 THEN ev.ud.items # S.ud ELSE ~PrefixOf(ev.ud.items, S.ud))
             THEN "altered or incomplete user data returned as valid"
        \* sample id -> time, asked twice: whatever succeeds must agree with ALL the UTC entries written
        \* (exact at an entry, within one unit of the line between its two neighbours)
        ELSE IF \E i \in 1..Len(ev.utcs) : Has(S.sigs, ev.utcs[i].sig) /\
                   LET U == S.sigs[Idx(S.sigs, ev.utcs[i].sig)].utcs
                       A == [k \in 1..Len(U) |-> <<U[k][1], U[k][2]>>]
                       Bad(x0, rc, t) == rc = 0 /\ Len(A) >= 2 /\ x0 >= A[1][1] /\ x0 <= A[Len(A)][1]
                                         /\ (~ExactAtAnchors(A, x0, t) \/ ~InterpOk(A, x0, t))
                   IN \E j \in 1..Len(ev.utcs[i].conv) :
                          LET r == ev.utcs[i].conv[j] IN Bad(r[1], r[2], r[3]) \/ Bad(r[1], r[4], r[5])
             THEN "a time conversion on the altered file disagrees with the UTC entries written"
        ELSE ""
==========================================================================
