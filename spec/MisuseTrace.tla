---------------------------- MODULE MisuseTrace ----------------------------
(* Judges recorded API sessions (harness/misuse_drv.c on the ASan + UBSan   *)
(* build) with the contract of Misuse.tla.  Total style: a rejected session *)
(* is recorded and skipped up to the next Reset.                            *)
EXTENDS Misuse, Json, IOUtils, TLC

TraceLog == ndJsonDeserialize(IOEnv.TRACE)

VARIABLES l, S, x, skip, rej
vars == <<l, S, x, skip, rej>>

Ev == TraceLog[l]
CallOf(ev) == <<ev.op>> \o ev.a

Verdict(ev) ==
    IF ev.e = "Abnormal" THEN "the process crashed, hung, or the sanitizer reported a stray access"
    ELSE IF ev.e = "End" THEN (IF ev.live # 0 THEN "memory still allocated after every handle was closed" ELSE "")
    ELSE IF ev.e # "Call" THEN ""
    ELSE LET c == CallOf(ev)
             e == Expect(S, c)
         IN IF e = "err" /\ ev.rc = 0 THEN "an invalid call was accepted: " \o ev.op
            ELSE IF e = "ok" /\ ev.rc # 0 THEN "a valid call was refused: " \o ev.op
            ELSE IF ev.op \in {"wclose", "tclose", "rclose"} /\ ev.live # S.live0 THEN "memory not released by close: " \o ev.op
            ELSE IF ev.op \in {"wopen", "topen", "ropen", "wopenbad", "topenbad"} /\ ev.rc # 0 /\ ev.live # ev.out[1] THEN "a failed open keeps memory: " \o ev.op
            ELSE IF ev.op \in {"copy", "copybad"} /\ ev.live # ev.out[1] THEN "memory not released by copy"
            ELSE ""

Update(ev) ==
    IF ev.e # "Call" \/ ev.rc # 0 THEN S
    ELSE LET S1 == Eff(S, CallOf(ev)) IN
         IF ev.op \in {"wopen", "topen", "ropen"} THEN [S1 EXCEPT !.live0 = ev.out[1]] ELSE S1

Init == l = 1 /\ S = S0 /\ x = 0 /\ skip = FALSE /\ rej = <<>>

Step ==
    /\ l <= Len(TraceLog)
    /\ l' = l + 1
    /\ IF Ev.e = "Reset" THEN
            /\ S' = S0 /\ x' = Ev.x /\ skip' = FALSE /\ UNCHANGED rej
       ELSE IF skip THEN UNCHANGED <<S, x, skip, rej>>
       ELSE LET v == Verdict(Ev) IN
            IF v # "" THEN /\ rej' = Append(rej, <<x, l, v>>) /\ skip' = TRUE /\ UNCHANGED <<S, x>>
            ELSE /\ S' = Update(Ev) /\ UNCHANGED <<x, skip, rej>>

Spec == Init /\ [][Step]_vars

Done == /\ PrintT(<<"TRACE_RESULT", TLCGet("stats").diameter - 1, Len(TraceLog)>>)
        /\ TRUE
Final == (l = Len(TraceLog) + 1) => PrintT(<<"TRACE_REJ", rej>>)
============================================================================
