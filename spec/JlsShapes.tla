------------------------------ MODULE JlsShapes ------------------------------
(***************************************************************************)
(* The finite graph of writer-session SHAPES: which kinds of things a file *)
(* holds and in which order they were written, with the amounts abstracted *)
(* to the few classes that change the chunk layout (nothing / less than    *)
(* one summary entry / more than a block; none, one or several entries of  *)
(* a track; empty or non-empty user data).  Every call is its own action   *)
(* instance Do(c): the edge labels of the dumped graph are the calls and a *)
(* path from the initial state is a writer history.  tools/shapes.py turns *)
(* a set of paths that takes every (shape, call) pair into concrete        *)
(* programs for the real library; the files they produce are then judged   *)
(* by the property checks (format, write-once, copy, crash / truncation    *)
(* images, reader round trips).                                            *)
(*                                                                         *)
(* Why a model and not only random programs: the random generators always  *)
(* defined at least one FSR signal, so no check ever saw a file with only  *)
(* the global annotation track - and the repairing open of exactly those   *)
(* files wrote END into the middle of the file.  The graph makes "every    *)
(* combination of present / absent tracks" a covered set, not a hope.      *)
(***************************************************************************)
EXTENDS Integers, Sequences, FiniteSets, TLC

CONSTANTS CapWr,      \* write calls per FSR signal
          CapAnno0,   \* annotations on signal 0 (the global track)
          CapAnno,    \* annotations per defined signal
          CapUtc,     \* UTC entries per FSR signal
          CapUd       \* user-data items

VARIABLE S
Sig == {1, 2}

S0 == [mode |-> "open", src |-> FALSE,
       kind |-> [g \in Sig |-> "none"],        \* "none" | "fsr" | "vsr"
       len  |-> [g \in Sig |-> 0],             \* 0 nothing, 1 less than one summary entry, 2 at least one block
       wr   |-> [g \in Sig |-> 0],             \* write calls so far
       an   |-> [g \in 0..2 |-> 0],
       ut   |-> [g \in Sig |-> 0],
       ud   |-> 0,
       om   |-> FALSE]                         \* omission requested on signal 1

Max(a, b) == IF a > b THEN a ELSE b

\* call alphabet
AllCalls ==
    {<<"src">>, <<"flush">>, <<"close">>} \cup
    { <<"fsr", g>> : g \in Sig } \cup {<<"vsr", 2>>} \cup
    { <<"wr", g, sz>> : g \in Sig, sz \in {"few", "block", "many"} } \cup
    { <<"gap", g>> : g \in Sig } \cup
    { <<"anno", g>> : g \in 0..2 } \cup
    { <<"utc", g>> : g \in Sig } \cup
    { <<"ud", k>> : k \in {"empty", "small", "text"} } \cup
    { <<"omit", en>> : en \in {0, 1} }

Enabled(s, c) ==
    /\ s.mode = "open"
    /\ CASE c[1] = "src"   -> ~s.src
         [] c[1] = "fsr"   -> s.kind[c[2]] = "none"            \* without a source definition the signal belongs to source 0
         [] c[1] = "vsr"   -> s.kind[c[2]] = "none"
         [] c[1] = "wr"    -> s.kind[c[2]] = "fsr" /\ s.wr[c[2]] < CapWr
         [] c[1] = "gap"   -> s.kind[c[2]] = "fsr" /\ s.wr[c[2]] < CapWr /\ s.len[c[2]] > 0    \* a write that skips ahead
         [] c[1] = "anno"  -> (c[2] = 0 /\ s.an[0] < CapAnno0) \/ (c[2] # 0 /\ s.kind[c[2]] # "none" /\ s.an[c[2]] < CapAnno)
         [] c[1] = "utc"   -> s.kind[c[2]] = "fsr" /\ s.ut[c[2]] < CapUtc
         [] c[1] = "ud"    -> s.ud < CapUd
         [] c[1] = "omit"  -> s.kind[1] = "fsr" /\ s.om # (c[2] = 1)
         [] c[1] = "flush" -> TRUE
         [] c[1] = "close" -> TRUE

Eff(s, c) ==
    CASE c[1] = "src"   -> [s EXCEPT !.src = TRUE]
      [] c[1] = "fsr"   -> [s EXCEPT !.kind[c[2]] = "fsr"]
      [] c[1] = "vsr"   -> [s EXCEPT !.kind[c[2]] = "vsr"]
      [] c[1] = "wr"    -> [s EXCEPT !.wr[c[2]] = @ + 1, !.len[c[2]] = Max(@, IF c[3] = "few" THEN 1 ELSE 2)]
      [] c[1] = "gap"   -> [s EXCEPT !.wr[c[2]] = @ + 1, !.len[c[2]] = 2]
      [] c[1] = "anno"  -> [s EXCEPT !.an[c[2]] = @ + 1]
      [] c[1] = "utc"   -> [s EXCEPT !.ut[c[2]] = @ + 1]
      [] c[1] = "ud"    -> [s EXCEPT !.ud = @ + 1]
      [] c[1] = "omit"  -> [s EXCEPT !.om = (c[2] = 1)]
      [] c[1] = "flush" -> s
      [] c[1] = "close" -> [s EXCEPT !.mode = "closed"]

Init == S = S0
Do(c) == Enabled(S, c) /\ S' = Eff(S, c)
Next == \E c \in AllCalls : Do(c)
Spec == Init /\ [][Next]_S

\* sanity of the generator itself
TypeOk == /\ S.mode \in {"open", "closed"}
          /\ \A g \in Sig : S.kind[g] \in {"none", "fsr", "vsr"} /\ S.len[g] \in 0..2 /\ S.wr[g] \in 0..CapWr
          /\ \A g \in Sig : (S.kind[g] # "fsr") => (S.len[g] = 0 /\ S.wr[g] = 0 /\ S.ut[g] = 0)
          /\ \A g \in Sig : (S.kind[g] = "none") => S.an[g] = 0
          /\ S.kind[1] # "vsr"
\* the shapes the random generators never produced are reachable: no FSR signal at all, yet something to repair
NoFsrShapeReachable == ~(S.mode = "closed" /\ S.kind[1] = "none" /\ S.kind[2] = "none" /\ S.an[0] = CapAnno0)
=============================================================================
