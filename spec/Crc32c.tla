------------------------------- MODULE Crc32c -------------------------------
(***************************************************************************)
(* CRC-32C (Castagnoli, reflected polynomial 0x82F63B78, init and final    *)
(* XOR 0xFFFFFFFF) from its definition.  TLC integers are 32-bit signed,   *)
(* so the register is a pair <<hi, lo>> of 16-bit halves.                  *)
(***************************************************************************)
EXTENDS Integers, Sequences, Bitwise

POLY_HI == 33526   \* 0x82F6
POLY_LO == 15224   \* 0x3B78
ONES == <<65535, 65535>>

Shr1(r) == <<r[1] \div 2, (r[2] \div 2) + (r[1] % 2) * 32768>>
BitStep(r) == LET s == Shr1(r) IN IF r[2] % 2 = 1 THEN <<s[1] ^^ POLY_HI, s[2] ^^ POLY_LO>> ELSE s
Step8(r) == LET F[k \in 0..8] == IF k = 0 THEN r ELSE BitStep(F[k-1]) IN F[8]

\* bit-serial update of the register with one byte
ByteSerial(r, b) == Step8(<<r[1], r[2] ^^ b>>)

\* the byte table from the polynomial: Table[i] = register after byte i on a zero register
Table == [i \in 0..255 |-> Step8(<<0, i>>)]
Shr8(r) == <<r[1] \div 256, (r[2] \div 256) + (r[1] % 256) * 256>>
ByteTable(r, b) == LET t == Table[(r[2] ^^ b) % 256]
                       s == Shr8(r)
                   IN <<t[1] ^^ s[1], t[2] ^^ s[2]>>

Final(r) == <<r[1] ^^ 65535, r[2] ^^ 65535>>

\* registers after each prefix of a byte sequence: Prefix(B)[k+1] = register after k bytes
Prefix(B) == LET F[k \in 0..Len(B)] == IF k = 0 THEN ONES ELSE ByteTable(F[k-1], B[k]) IN F

Crc(B) == Final(Prefix(B)[Len(B)])

\* slicing tables: SliceTable(k)[i] = Table entry i advanced by k zero bytes
RECURSIVE Advance(_, _)
Advance(r, k) == IF k = 0 THEN r ELSE Advance(ByteTable(r, 0), k - 1)
SliceEntry(k, i) == Advance(Table[i], k)
==========================================================================
