----------------------------- MODULE Crc32cTrace -----------------------------
(* C18 on the implementation: for every alignment and every length 0..N the   *)
(* value returned by the real jls_crc32c (both builds) must be the CRC-32C of  *)
(* that prefix; the header variant must equal the CRC of the first 28 bytes;   *)
(* the eight slicing tables must follow from the generator polynomial.         *)
(* One TLC state per byte of a run: reg is the register after k bytes, derived *)
(* from the polynomial, and is compared with what the code returned for        *)
(* length k.                                                                   *)
EXTENDS Crc32c, Json, IOUtils, TLC

TraceLog == ndJsonDeserialize(IOEnv.TRACE)
VARIABLES l, k, reg, rej, nvals
vars == <<l, k, reg, rej, nvals>>
Ev == TraceLog[l]
Init == l = 1 /\ k = 0 /\ reg = ONES /\ rej = <<>> /\ nvals = 0

HdrVerdict(ev) ==
    IF \E i \in 1..Len(ev.items) : Crc(ev.items[i].b) # <<ev.items[i].d[1], ev.items[i].d[2]>> THEN "header CRC (default build) differs from the CRC of the first 28 bytes"
    ELSE IF \E i \in 1..Len(ev.items) : Crc(ev.items[i].b) # <<ev.items[i].s[1], ev.items[i].s[2]>> THEN "header CRC (table build) differs from the CRC of the first 28 bytes"
    ELSE ""

TableVerdict(ev) ==
    IF \E i \in 0..255 : SliceEntry(ev.k, i) # <<ev.hi[i + 1], ev.lo[i + 1]>> THEN "slicing table entry does not follow from the polynomial" ELSE ""

NextEvent == l' = l + 1 /\ k' = 0 /\ reg' = ONES

Step ==
    /\ l <= Len(TraceLog)
    /\ IF Ev.e = "CrcRun" THEN
           LET want == Final(reg)
               v == IF want # <<Ev.d_hi[k + 1], Ev.d_lo[k + 1]>> THEN "wrong CRC (default build)"
                    ELSE IF want # <<Ev.s_hi[k + 1], Ev.s_lo[k + 1]>> THEN "wrong CRC (table-driven build)" ELSE ""
           IN /\ nvals' = nvals + 2
              /\ IF v # "" THEN rej' = Append(rej, <<Ev.x, l, v \o " for length " \o ToString(k)>>) /\ NextEvent
                 ELSE /\ UNCHANGED rej
                      /\ IF k < Len(Ev.buf) THEN l' = l /\ k' = k + 1 /\ reg' = ByteTable(reg, Ev.buf[k + 1])
                         ELSE NextEvent
       ELSE LET v == IF Ev.e = "CrcHdr" THEN HdrVerdict(Ev) ELSE IF Ev.e = "CrcTable" THEN TableVerdict(Ev) ELSE ""
            IN /\ rej' = IF v = "" THEN rej ELSE Append(rej, <<Ev.x, l, v>>)
               /\ nvals' = nvals + (IF Ev.e = "CrcHdr" THEN 2 * Len(Ev.items) ELSE IF Ev.e = "CrcTable" THEN 256 ELSE 0)
               /\ NextEvent
Spec == Init /\ [][Step]_vars
Done == TLCGet("stats").diameter > 0
Final2 == (l = Len(TraceLog) + 1) => /\ PrintT(<<"TRACE_REJ", rej>>) /\ PrintT(<<"TRACE_INFO", nvals>>)
                                      /\ PrintT(<<"TRACE_RESULT", Len(TraceLog), Len(TraceLog)>>)
==========================================================================
