----------------------------- MODULE JlsWriterMC -----------------------------
(* Complete state space of the FSR writer model for small block geometries:   *)
(* every sequence of write sizes up to MaxSamples, with and without omission, *)
(* closed at every point.                                                     *)
EXTENDS JlsWriter, TLC
CONSTANTS Spd, Sdf, Eps, Sumdf, MaxSamples, Sizes
VARIABLES W, total
vars == <<W, total>>
P0 == [spd |-> Spd, sdf |-> Sdf, eps |-> Eps, sumdf |-> Sumdf]
Init == W = W0(P0) /\ total = 0
Wr(m, om) == ~W.closed /\ total + m <= MaxSamples /\ W' = Write(W, m, om) /\ total' = total + m
Cl(om) == ~W.closed /\ W' = Close(W, om) /\ UNCHANGED total
Next == (\E m \in Sizes, om \in BOOLEAN : Wr(m, om)) \/ (\E om \in BOOLEAN : Cl(om)) \/ (W.closed /\ UNCHANGED vars)
Spec == Init /\ [][Next]_vars
Inv == WriterOk(W)
\* the emitted sequence depends only on the total and on which blocks were omitted, not on how the writes were cut
==============================================================================
