------------------------------- MODULE JlsTs -------------------------------
(***************************************************************************)
(* Tier B: the design of the annotation / UTC index pyramid (src/wr_ts.c:  *)
(* commit on D entries, first entry propagated upwards, flush of every     *)
(* level at close) and of the seek that descends it (jls_core_ts_seek),    *)
(* checked against the iteration contract of C11 (and C12 for UTC):        *)
(* iterating from t delivers a contiguous tail that contains every entry   *)
(* with timestamp >= t and at most one earlier entry.                      *)
(*                                                                         *)
(* ts is the non-decreasing sequence of timestamps written; the pyramid is *)
(* a function of ts and D, so the state space is the set of sequences.     *)
(***************************************************************************)
EXTENDS Integers, Sequences, FiniteSets

CONSTANTS D,        \* decimate factor (entries per index chunk)
          MaxN,     \* longest sequence explored
          Vals,     \* timestamp values
          Strict    \* TRUE: timestamps strictly increasing (UTC sample ids); FALSE: non-decreasing (annotations)

VARIABLES ts
vars == <<ts>>

Init == ts = <<>>
Next == /\ Len(ts) < MaxN
        /\ \E v \in Vals : (IF Len(ts) = 0 THEN TRUE ELSE IF Strict THEN v > ts[Len(ts)] ELSE v >= ts[Len(ts)]) /\ ts' = Append(ts, v)
Spec == Init /\ [][Next]_vars

N == Len(ts)
CeilDiv(a, b) == (a + b - 1) \div b

\* number of chunks at level k (level 0 = data entries); level k >= 1 exists iff NChunks(k) >= 1
RECURSIVE NChunks(_)
NChunks(k) == IF k = 0 THEN N ELSE CeilDiv(NChunks(k - 1), D)
\* the top level: the first level with a single chunk (the writer stops propagating there);
\* with 0 entries there is no index at all
RECURSIVE TopFrom(_)
TopFrom(k) == IF NChunks(k) <= 1 THEN k ELSE TopFrom(k + 1)
Top == IF N = 0 THEN 0 ELSE TopFrom(1)

\* children of chunk j at level k (k >= 1): indices of level k-1 items
Children(k, j) == ((j - 1) * D + 1) .. (IF j * D < NChunks(k - 1) THEN j * D ELSE NChunks(k - 1))
\* first data entry below item i of level k
RECURSIVE FirstData(_, _)
FirstData(k, i) == IF k = 0 THEN i ELSE FirstData(k - 1, (i - 1) * D + 1)
\* index entries of chunk j at level k: sequence of <<timestamp, child>>
Entries(k, j) == [m \in 1..Cardinality(Children(k, j)) |->
                    LET c == (j - 1) * D + m IN <<ts[FirstData(k - 1, c)], c>>]

\* jls_core_ts_seek's choice inside one index chunk; 'upper' = this is not the last index
\* level of the descent (then an exact match steps back: equal timestamps may end the
\* previous lower-level chunk)
Pick(E, t, upper) ==
    LET n == Len(E)
        F[i \in 1..(n + 1)] ==
            IF i > n THEN n
            ELSE IF E[i][1] > t THEN i - 1
            ELSE IF E[i][1] = t THEN (IF upper THEN i - 1 ELSE i)
            ELSE F[i + 1]
        idx == F[1]
    IN IF idx < 1 THEN 1 ELSE idx

\* descend from chunk j at level k to the item at level 'stop'
RECURSIVE Descend(_, _, _, _)
Descend(k, j, t, stop) == IF k = stop THEN j
                          ELSE Descend(k - 1, Entries(k, j)[Pick(Entries(k, j), t, k > stop + 1)][2], t, stop)

\* annotations: first DATA entry delivered when iterating from t (0 = nothing delivered)
AnnoStart(t) == IF N = 0 THEN 0 ELSE Descend(Top, 1, t, 0)

\* UTC: jls_core_utc seeks to a level-1 chunk, skips its entries below t, then walks the
\* level-1 chain; delivered = entries of that chunk with ts >= t, then all later chunks
UtcDelivered(t) ==
    IF N = 0 THEN <<>>
    ELSE LET c == Descend(Top, 1, t, 1)
             lo == (c - 1) * D + 1
             hi == IF c * D < N THEN c * D ELSE N
             firstIn == IF \E i \in lo..hi : ts[i] >= t THEN CHOOSE i \in lo..hi : ts[i] >= t /\ \A j \in lo..(i-1) : ts[j] < t
                        ELSE hi + 1
         IN SubSeq(ts, firstIn, N)

FirstGE(t) == IF \E i \in 1..N : ts[i] >= t THEN CHOOSE i \in 1..N : ts[i] >= t /\ \A j \in 1..(i-1) : ts[j] < t ELSE N + 1

\* C11: a contiguous tail with everything >= t and at most one entry < t
AnnoSeekComplete ==
    \A t \in (Vals \cup {0, 99}) :
        LET s == AnnoStart(t)
            k == FirstGE(t)
        IN N > 0 => (s <= k /\ s >= k - 1 /\ s >= 1) \/ (k = N + 1 /\ s = N)

\* C12: exactly the pairs at or after t
UtcSeekExact ==
    \A t \in (Vals \cup {0, 99}) : UtcDelivered(t) = SubSeq(ts, FirstGE(t), N)
==========================================================================
