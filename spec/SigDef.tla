------------------------------- MODULE SigDef -------------------------------
(***************************************************************************)
(* Signal-definition normalisation (property C16) as pure operators:       *)
(* a transcription of signal_def_defaults + jls_core_signal_def_align      *)
(* (src/core.c) and the relations the format relies on.                    *)
(* All quantities are below 2^31 here; the wrap-around region of the C     *)
(* code is handled by the trace specification on the outputs only.         *)
(***************************************************************************)
EXTENDS Integers, Sequences

Max(a, b) == IF a > b THEN a ELSE b
RECURSIVE GCD(_, _)
GCD(a, b) == IF b = 0 THEN a ELSE GCD(b, a % b)
\* round x up to a multiple of m; saturates at 2^31-1 (TLC integers are 32 bit; such values are refused anyway)
RoundUp(x, m) == IF x % m = 0 THEN x
                 ELSE IF (x \div m) + 1 > 2147483647 \div m THEN 2147483647
                 ELSE ((x \div m) + 1) * m

Widths == {1, 4, 8, 16, 24, 32, 64}

\* per-width defaults <<samples_per_data, sample_decimate_factor, entries_per_summary, summary_decimate_factor>>
Defaults(w) == CASE w = 64 -> <<8192, 128, 640, 20>>
                 [] w = 32 -> <<8192, 128, 640, 20>>
                 [] w = 16 -> <<16384, 256, 1280, 20>>
                 [] w = 8  -> <<32768, 1024, 640, 20>>
                 [] w = 4  -> <<65536, 1024, 1280, 20>>
                 [] w = 1  -> <<65536, 1024, 1280, 20>>
                 [] OTHER  -> <<0, 0, 0, 0>>          \* 24-bit: no defaults in the code

HasDefaults(w) == w \in {1, 4, 8, 16, 32, 64}
Dflt(v, d) == IF v = 0 THEN d ELSE v

\* largest d in 1..m that divides e (the "reduce until fits" loop)
LargestDivLE(e, m) == IF m >= e THEN e
                      ELSE LET Divs == { d \in 1..m : e % d = 0 }
                           IN CHOOSE d \in Divs : \A k \in Divs : k <= d

\* definitions whose block parameters exceed 2^30 - as given or after alignment - are refused
ParamMax == 1073741824
InRange(def) == def.spd <= ParamMax /\ def.sdf <= ParamMax /\ def.eps <= ParamMax /\ def.sumdf <= ParamMax

\* def = [spd, sdf, eps, sumdf, adf, udf]; w = sample width in bits
Normalise(w, def) ==
    LET D     == Defaults(w)
        spd0  == IF HasDefaults(w) THEN Dflt(def.spd, D[1]) ELSE def.spd
        sdf0  == IF HasDefaults(w) THEN Dflt(def.sdf, D[2]) ELSE def.sdf
        eps0  == IF HasDefaults(w) THEN Dflt(def.eps, D[3]) ELSE def.eps
        sum0  == IF HasDefaults(w) THEN Dflt(def.sumdf, D[4]) ELSE def.sumdf
        adf   == IF HasDefaults(w) THEN Dflt(def.adf, 100) ELSE def.adf
        udf   == IF HasDefaults(w) THEN Dflt(def.udf, 100) ELSE def.udf
        mult  == 256 \div w
        sdf   == RoundUp(Max(sdf0, 10), mult)
        sum   == Max(sum0, 10)
        eps1  == RoundUp(Max(eps0, 10), sum)
        spd1  == RoundUp(Max(spd0, 10), sdf)
        epd   == LargestDivLE(eps1, spd1 \div sdf)
    IN [spd |-> sdf * epd, sdf |-> sdf, eps |-> eps1, sumdf |-> sum, adf |-> adf, udf |-> udf]

Acceptable(w, def) == InRange(def) /\ InRange(Normalise(w, [def EXCEPT !.adf = 0, !.udf = 0]))

\* the relations of C16 on stored parameters p for width w
Normalised(w, p) ==
    /\ p.sdf >= 10 /\ p.spd >= 10 /\ p.eps >= 10 /\ p.sumdf >= 10      \* (first: the relations below divide by them)
    /\ p.spd \div p.sdf >= 1
    /\ p.sdf % (256 \div GCD(w, 256)) = 0     \* a level-1 entry covers a multiple of 256 bits: (sdf * w) % 256 = 0
    /\ p.spd % p.sdf = 0                      \* a block holds whole entries
    /\ p.eps % (p.spd \div p.sdf) = 0         \* a summary chunk holds whole blocks' entries
    /\ p.eps % p.sumdf = 0                    \* ... and whole next-level groups
    /\ p.sdf >= 10 /\ p.spd >= 10 /\ p.eps >= 10 /\ p.sumdf >= 10
==========================================================================
