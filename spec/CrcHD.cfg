SPECIFICATION Spec
CONSTANTS
  NBytes = 28
