------------------------------ MODULE StatsTrace ------------------------------
(* C20 on the implementation: every evaluation route of the real               *)
(* jls_statistics_* over a sample sequence must report the exact count, min,    *)
(* max, sum and sum of squares of that sequence (projected from mean and s with *)
(* a bounded residual), a non-negative variance and min <= mean <= max.         *)
EXTENDS Stats, StatsContract, Json, IOUtils, TLC

TraceLog == ndJsonDeserialize(IOEnv.TRACE)
VARIABLES l, rej, nroutes
vars == <<l, rej, nroutes>>
Ev == TraceLog[l]
Init == l = 1 /\ rej = <<>> /\ nroutes = 0

ResBound == 1000     \* residuals are logged in units of 1e-9

\* the exact triple the sequence prescribes: explicit samples, or a structured stream
Truth(ev) == IF ev.kind = "seq" THEN [k |-> Len(ev.xs), S |-> SeqSum(ev.xs), Q |-> SeqSq(ev.xs),
                                      mn |-> IF Len(ev.xs) = 0 THEN 0 ELSE SeqMin(ev.xs), mx |-> IF Len(ev.xs) = 0 THEN 0 ELSE SeqMax(ev.xs)]
             ELSE [k |-> ev.n, S |-> Sum(ev.kind, ev.p, ev.a, ev.a + ev.n), Q |-> SumSq(ev.kind, ev.p, ev.a, ev.a + ev.n),
                   mn |-> WMin(ev.kind, ev.p, ev.a, ev.a + ev.n), mx |-> WMax(ev.kind, ev.p, ev.a, ev.a + ev.n)]

\* r = <<name, k, min, max, sumN, sumRes, sqN, sqRes, varNeg, meanOutside, empty-looking>>
RouteVerdict(T, r) ==
    IF r[2] # T.k THEN "count differs"
    ELSE IF T.k = 0 THEN ""
    ELSE IF r[3] # T.mn \/ r[4] # T.mx THEN "min or max differs"
    ELSE IF r[5] # T.S \/ r[6] > ResBound THEN "mean is not sum/count"
    ELSE IF r[7] # T.Q \/ r[8] > ResBound THEN "s is not the sum of squared deviations"
    ELSE IF r[9] # 0 THEN "negative variance"
    ELSE IF r[10] # 0 THEN "mean outside [min, max]"
    ELSE ""

\* sequences around a large offset ev.a (ev.xs are the samples minus the offset): count, extremes and mean are
\* compared after subtracting the offset, and k * s with k * Q - S^2 of the small sequence (the sum of squared
\* deviations does not depend on the offset); the residual of the mean grows with the magnitude of the samples
AbsV(v) == IF v < 0 THEN -v ELSE v
ShiftVerdict(T, off, r) ==
    IF r[2] # T.k THEN "count differs"
    ELSE IF T.k = 0 THEN ""
    ELSE IF r[3] # T.mn \/ r[4] # T.mx THEN "min or max differs"
    ELSE IF r[5] # T.S \/ r[6] > ResBound + T.k * (AbsV(off) \div 1000) THEN "mean is not sum/count (large offset)"
    ELSE IF AbsV(r[7] - (T.k * T.Q - T.S * T.S)) > 1 + (T.k * T.Q - T.S * T.S) \div 1000 THEN "s is not the sum of squared deviations (large offset)"
    ELSE IF r[9] # 0 THEN "negative variance"
    ELSE IF r[10] # 0 THEN "mean outside [min, max]"
    ELSE ""

EvVerdict(ev) ==
    LET T == IF ev.kind = "shift" THEN Truth([ev EXCEPT !.kind = "seq"]) ELSE Truth(ev)
        RV(r) == IF ev.kind = "shift" THEN ShiftVerdict(T, ev.a, r) ELSE RouteVerdict(T, r)
        bad == { i \in 1..Len(ev.routes) : RV(ev.routes[i]) # "" }
    IN IF bad = {} THEN "" ELSE LET i == CHOOSE j \in bad : \A m \in bad : j <= m
                                IN RV(ev.routes[i]) \o " @" \o ev.routes[i][1]

Step == /\ l <= Len(TraceLog) /\ l' = l + 1
        /\ LET v == IF Ev.e = "StatsRoute" THEN EvVerdict(Ev) ELSE ""
           IN /\ rej' = IF v = "" THEN rej ELSE Append(rej, <<Ev.x, l, v>>)
              /\ nroutes' = nroutes + (IF Ev.e = "StatsRoute" THEN Len(Ev.routes) ELSE 0)
Spec == Init /\ [][Step]_vars
Done == PrintT(<<"TRACE_RESULT", TLCGet("stats").diameter - 1, Len(TraceLog)>>)
Final2 == (l = Len(TraceLog) + 1) => PrintT(<<"TRACE_REJ", rej>>) /\ PrintT(<<"TRACE_INFO", nroutes>>)
==========================================================================
