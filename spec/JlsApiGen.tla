------------------------------ MODULE JlsApiGen ------------------------------
(***************************************************************************)
(* Model-checks the FSR part of the JlsApi contract on itself: all short   *)
(* histories of writes (appending, skipping ahead, overlapping) and of     *)
(* omit requests on one signal with a tiny block size.  Checks that the    *)
(* abstract sample store is well formed (C09: length = last+1-first,       *)
(* segments contiguous, overlaps keep the first-written source) and that   *)
(* the read verdict is neither vacuous nor lax: the ideal reader is        *)
(* accepted for every window, and a reader that returns another source for *)
(* a stored position is rejected.                                          *)
(***************************************************************************)
EXTENDS JlsApi, TLC

CONSTANTS MaxCalls, Ids, Lens, Bits

VARIABLES S, k
gvars == <<S, k>>

SigEv == [id |-> 1, src |-> 0, st |-> 0, dt |-> "f32", fq |-> 0, bits |-> Bits, rate |-> 1000, spd |-> 0, sdf |-> 0, eps |-> 0, sumdf |-> 0,
          adf |-> 0, udf |-> 0, name |-> "s:x", units |-> "s:u"]
\* a tiny geometry instead of the normalised one: 4 samples per block
G0 == [NewSig(SigEv) EXCEPT !.norm = [spd |-> 4, sdf |-> 2, eps |-> 4, sumdf |-> 2, adf |-> 10, udf |-> 10]]

GInit == S = [Opened EXCEPT !.sigs = Append(@, G0)] /\ k = 0

GWrite == /\ k < MaxCalls
          /\ \E id \in Ids, n \in Lens :
                S' = Update(S, [e |-> "WrFsr", sig |-> 1, id |-> id, n |-> n, rc |-> 0, q |-> k + 1, gen |-> "rnd", gp |-> 0, w |-> <<0, 0>>])
          /\ k' = k + 1
GOmit == /\ k < MaxCalls
         /\ \E en \in {0, 1} : S' = Update(S, [e |-> "Omit", sig |-> 1, en |-> en, rc |-> 0, q |-> k + 1])
         /\ k' = k + 1
GNext == GWrite \/ GOmit
GSpec == GInit /\ [][GNext]_gvars

g == S.sigs[Idx(S.sigs, 1)]

SegsWellFormed ==
    /\ g.has => (Len(g.segs) > 0 /\ g.segs[1].a = g.first /\ g.segs[Len(g.segs)].b = g.next)
    /\ \A i \in 1..Len(g.segs) : g.segs[i].a < g.segs[i].b
    /\ \A i \in 2..Len(g.segs) : g.segs[i].a = g.segs[i-1].b
    /\ Length(g) = (IF g.has THEN g.next - g.first ELSE 0)
    /\ ~g.has => g.segs = <<>>

\* the source of every absolute id, from the history of calls: first writer wins, gaps are fill
IdealRuns(start, n) ==
    LET a0 == g.first + start
        Pieces == { i \in 1..Len(g.segs) : g.segs[i].a < a0 + n /\ g.segs[i].b > a0 }
        lo == CHOOSE i \in Pieces : \A j \in Pieces : i <= j
        hi == CHOOSE i \in Pieces : \A j \in Pieces : i >= j
    IN [i \in 1..(hi - lo + 1) |->
          LET s == g.segs[lo + i - 1]
              a == IF s.a > a0 THEN s.a ELSE a0
              b == IF s.b < a0 + n THEN s.b ELSE a0 + n
          IN [p |-> a - g.first, n |-> b - a, c |-> <<s.src>>]]

Windows == { <<s, n>> \in (0..Length(g)) \X (1..Length(g)) : s + n <= Length(g) }

IdealAccepted ==
    \A w \in Windows :
        RdFsrVerdict(S, [sig |-> 1, start |-> w[1], n |-> w[2], rc |-> 0, g |-> TRUE, runs |-> IdealRuns(w[1], w[2])]) = ""

WrongSourceRejected ==
    \A w \in Windows :
        LET runs == IdealRuns(w[1], w[2])
            blocks == { ((runs[i].p) \div g.norm.spd) : i \in 1..Len(runs) } \cup
                      { ((runs[i].p + runs[i].n - 1) \div g.norm.spd) : i \in 1..Len(runs) }
            bad == [runs EXCEPT ![1].c = <<999>>]
        IN (\A b \in (CHOOSE m \in blocks : \A o \in blocks : m <= o)..(CHOOSE m \in blocks : \A o \in blocks : m >= o) : b \notin g.synth)
           => RdFsrVerdict(S, [sig |-> 1, start |-> w[1], n |-> w[2], rc |-> 0, g |-> TRUE, runs |-> bad]) # ""

OutsideRejected ==
    /\ RdFsrVerdict(S, [sig |-> 1, start |-> 0, n |-> Length(g) + 1, rc |-> 0, g |-> TRUE, runs |-> <<>>]) # ""
    /\ RdFsrVerdict(S, [sig |-> 1, start |-> -1, n |-> 1, rc |-> 0, g |-> TRUE, runs |-> <<>>]) # ""

\* C15 (contract level): omission never changes the length or the stored sources
FirstBlockStored == 0 \notin g.synth
==========================================================================
