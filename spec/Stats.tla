-------------------------------- MODULE Stats --------------------------------
(***************************************************************************)
(* Statistics accumulators (property C20) in exact arithmetic.             *)
(* An accumulator is described by the exact triple <<k, S, Q>> = count,    *)
(* sum, sum of squares of the samples it has seen (plus min and max).      *)
(* The C code keeps (k, mean, s = sum of squared deviations, min, max);    *)
(* its update formulas - Welford add, parallel-variance combine - are      *)
(* transcribed here over rationals <<num, den>> so that TLC can check that *)
(* every evaluation route of the same multiset yields the same triple.     *)
(***************************************************************************)
EXTENDS Integers, Sequences, FiniteSets

\* rationals as <<n, d>>, d > 0, not necessarily reduced
RAdd(a, b) == <<a[1] * b[2] + b[1] * a[2], a[2] * b[2]>>
RSub(a, b) == <<a[1] * b[2] - b[1] * a[2], a[2] * b[2]>>
RMul(a, b) == <<a[1] * b[1], a[2] * b[2]>>
RDivI(a, k) == <<a[1], a[2] * k>>
REq(a, b) == a[1] * b[2] = b[1] * a[2]
RInt(i) == <<i, 1>>
RECURSIVE Gcd(_, _)
Gcd(a, b) == IF b = 0 THEN (IF a < 0 THEN -a ELSE a) ELSE Gcd(b, a % b)
RNorm(a) == LET g == Gcd(a[1], a[2]) IN IF g = 0 THEN <<0, 1>> ELSE <<a[1] \div g, a[2] \div g>>

\* accumulator as the code keeps it: [k, mean, s, min, max] with mean, s rational
Empty == [k |-> 0, mean |-> RInt(0), s |-> RInt(0), min |-> 1000000, max |-> -1000000]

\* jls_statistics_add (Welford)
Add(a, x) ==
    LET k1 == a.k + 1
        mOld == a.mean
        mNew == RNorm(RAdd(a.mean, RDivI(RSub(RInt(x), a.mean), k1)))
    IN [k |-> k1, mean |-> mNew,
        s |-> RNorm(RAdd(a.s, RMul(RSub(RInt(x), mOld), RSub(RInt(x), mNew)))),
        min |-> IF x < a.min THEN x ELSE a.min, max |-> IF x > a.max THEN x ELSE a.max]

\* jls_statistics_compute_* (two-pass) on a sequence of integers
RECURSIVE SeqSum(_)
SeqSum(xs) == IF xs = <<>> THEN 0 ELSE Head(xs) + SeqSum(Tail(xs))
RECURSIVE SeqSq(_)
SeqSq(xs) == IF xs = <<>> THEN 0 ELSE Head(xs) * Head(xs) + SeqSq(Tail(xs))
SeqMin(xs) == CHOOSE v \in {xs[i] : i \in 1..Len(xs)} : \A i \in 1..Len(xs) : v <= xs[i]
SeqMax(xs) == CHOOSE v \in {xs[i] : i \in 1..Len(xs)} : \A i \in 1..Len(xs) : v >= xs[i]
Compute(xs) ==
    IF xs = <<>> THEN Empty
    ELSE LET k == Len(xs)  S == SeqSum(xs)  Q == SeqSq(xs)
         IN [k |-> k, mean |-> RNorm(<<S, k>>), s |-> RNorm(<<k * Q - S * S, k>>), min |-> SeqMin(xs), max |-> SeqMax(xs)]

\* jls_statistics_combine (the four-way case split and the parallel variance formula)
Combine(a, b) ==
    IF a.k + b.k = 0 THEN Empty
    ELSE IF a.k = 0 THEN b
    ELSE IF b.k = 0 THEN a
    ELSE LET kt == a.k + b.k
             f1 == <<a.k, kt>>
             mNew == RNorm(RAdd(RMul(f1, a.mean), RMul(RSub(RInt(1), f1), b.mean)))
             d1 == RSub(a.mean, mNew)
             d2 == RSub(b.mean, mNew)
         IN [k |-> kt, mean |-> mNew,
             s |-> RNorm(RAdd(RAdd(a.s, RMul(RInt(a.k), RMul(d1, d1))), RAdd(b.s, RMul(RInt(b.k), RMul(d2, d2))))),
             min |-> IF a.min < b.min THEN a.min ELSE b.min, max |-> IF a.max > b.max THEN a.max ELSE b.max]

\* two accumulators describe the same statistics
Same(a, b) == a.k = b.k /\ (a.k = 0 \/ (REq(a.mean, b.mean) /\ REq(a.s, b.s) /\ a.min = b.min /\ a.max = b.max))

\* the exact triple of an accumulator: S = k*mean, Q = s + k*mean^2
SumOf(a) == RNorm(RMul(RInt(a.k), a.mean))
SqOf(a) == RNorm(RAdd(a.s, RMul(RInt(a.k), RMul(a.mean, a.mean))))
==========================================================================
