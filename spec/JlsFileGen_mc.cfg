SPECIFICATION MSpec
CONSTANTS
  MaxChunks = 5
  Sigs = {1, 2}
INVARIANT ContentImmutable
INVARIANT HeadsPointRight
PROPERTY OnlyGrows
PROPERTY HeadsSetOnce
PROPERTY TagsStable
CHECK_DEADLOCK FALSE
