-------------------------- MODULE JlsTsRepairTrace --------------------------
(* Conformance of the real pointer repair (jls_track_repair_pointers, run by the *)
(* repairing jls_rd_open) with the tier-B model JlsTsRepair.tla: for crash images *)
(* cut between two backend writes and for truncations of closed files, the links  *)
(* of every annotation / UTC track as decoded from the image (item_next, last     *)
(* index entries, head table; as ordinals) drive the model, and the links found   *)
(* in the file after the open must be the ones the model yields: same cuts, same  *)
(* head entries cleared, nothing else touched.  A deviation is MODEL-DRIFT.  The  *)
(* design properties of the model (TsRepairOk, TsEntriesOk) are model-checked on  *)
(* every image of the track writer model in JlsTsRepairMC.tla.                    *)
EXTENDS JlsTsRepair, Json, IOUtils, TLC

TraceLog == ndJsonDeserialize(IOEnv.TRACE)
VARIABLES l, x, rej, nimg
vars == <<l, x, rej, nimg>>
Ev == TraceLog[l]
Init == l = 1 /\ x = 0 /\ rej = <<>> /\ nimg = 0

ImgOfEv(ev) == [k |-> ev.k, tag |-> ev.tag, lvl |-> ev.lvl, nx |-> ev.nx, le |-> ev.le, hd |-> [lv \in 0..TsTop |-> ev.hd[lv + 1]]]
TsRepVerdict(ev) ==
    LET P == TsRepair(ImgOfEv(ev)) IN
    IF [i \in 1..ev.k |-> P.nx[i]] # [i \in 1..ev.k |-> ev.pnx[i]] THEN "item_next links of an annotation / UTC track after the repairing open differ from the pointer repair model"
    ELSE IF \E lv \in 0..TsTop : P.hd[lv] # ev.phd[lv + 1] THEN "head table of an annotation / UTC track after the repairing open differs from the pointer repair model"
    ELSE ""

Step == /\ l <= Len(TraceLog) /\ l' = l + 1
        /\ IF Ev.e = "Reset" THEN x' = Ev.x /\ UNCHANGED <<rej, nimg>>
           ELSE IF Ev.e = "TsRepSeq" THEN
                LET v == TsRepVerdict(Ev) IN
                /\ rej' = IF v = "" THEN rej ELSE Append(rej, <<x, l, v>>)
                /\ nimg' = nimg + 1 /\ UNCHANGED x
           ELSE UNCHANGED <<x, rej, nimg>>
Spec == Init /\ [][Step]_vars
Done == PrintT(<<"TRACE_RESULT", TLCGet("stats").diameter - 1, Len(TraceLog)>>)
Final == (l = Len(TraceLog) + 1) => PrintT(<<"TRACE_REJ", rej>>) /\ PrintT(<<"TRACE_INFO", nimg>>)
==============================================================================
