SPECIFICATION Spec
CONSTANTS
  MaxN = 6
  Xs = {1, 2, 4, 5, 7, 8, 10}
  Queries = {0, 1, 2, 3, 4, 5, 6, 7, 8, 9, 10, 11}
INVARIANT SegmentAgrees
INVARIANT InBounds
CHECK_DEADLOCK FALSE
