------------------------------- MODULE RawGen -------------------------------
(* The finite graph of raw-API sessions over the call alphabet of Raw.tla.  *)
EXTENDS Raw
VARIABLE S
Init == S = S0
Do(c) == /\ c \in Calls(S)
         /\ LET e == Expect(S, c) IN
            \/ e \in {"ok", "any"} /\ S' = Eff(S, c)
            \/ e \in {"err", "any"} /\ c[1] = "xopen" /\ S' = S
Next == \E c \in AllCalls : Do(c)
Spec == Init /\ [][Next]_S
TypeOk == S.pos \in {"b", "m", "e", "x"} /\ S.mode \in 0..2 /\ (S.open \/ [S EXCEPT !.made = FALSE] = S0)
=============================================================================
