---- MODULE Mrb_TTrace_1791091411 ----
EXTENDS Sequences, TLCExt, Toolbox, Naturals, TLC, Mrb

_expression ==
    LET Mrb_TEExpression == INSTANCE Mrb_TEExpression
    IN Mrb_TEExpression!expression
----

_trace ==
    LET Mrb_TETrace == INSTANCE Mrb_TETrace
    IN Mrb_TETrace!trace
----

_inv ==
    ~(
        TLCGet("level") = Len(_TETrace)
        /\
        head = (0)
        /\
        q = (<<<<4, 20>>>>)
        /\
        pre = ((0 :> 20 @@ 1 :> -2 @@ 2 :> -2 @@ 3 :> -2 @@ 4 :> -2 @@ 5 :> -2 @@ 6 :> -2 @@ 7 :> -2 @@ 8 :> -2 @@ 9 :> -2 @@ 10 :> -2 @@ 11 :> -2 @@ 12 :> -2 @@ 13 :> -2 @@ 14 :> -2 @@ 15 :> -2 @@ 16 :> -2 @@ 17 :> -2 @@ 18 :> -2 @@ 19 :> -2 @@ 20 :> -2 @@ 21 :> -2 @@ 22 :> -2 @@ 23 :> -2))
        /\
        last = (<<"alloc", 20, 4>>)
        /\
        tail = (0)
        /\
        flags = ({})
        /\
        count = (1)
    )
----

_init ==
    /\ last = _TETrace[1].last
    /\ pre = _TETrace[1].pre
    /\ q = _TETrace[1].q
    /\ tail = _TETrace[1].tail
    /\ head = _TETrace[1].head
    /\ flags = _TETrace[1].flags
    /\ count = _TETrace[1].count
----

_next ==
    /\ \E i,j \in DOMAIN _TETrace:
        /\ \/ /\ j = i + 1
              /\ i = TLCGet("level")
        /\ last  = _TETrace[i].last
        /\ last' = _TETrace[j].last
        /\ pre  = _TETrace[i].pre
        /\ pre' = _TETrace[j].pre
        /\ q  = _TETrace[i].q
        /\ q' = _TETrace[j].q
        /\ tail  = _TETrace[i].tail
        /\ tail' = _TETrace[j].tail
        /\ head  = _TETrace[i].head
        /\ head' = _TETrace[j].head
        /\ flags  = _TETrace[i].flags
        /\ flags' = _TETrace[j].flags
        /\ count  = _TETrace[i].count
        /\ count' = _TETrace[j].count

\* Uncomment the ASSUME below to write the states of the error trace
\* to the given file in Json format. Note that you can pass any tuple
\* to `JsonSerialize`. For example, a sub-sequence of _TETrace.
    \* ASSUME
    \*     LET J == INSTANCE Json
    \*         IN J!JsonSerialize("Mrb_TTrace_1791091411.json", _TETrace)

=============================================================================

 Note that you can extract this module `Mrb_TEExpression`
  to a dedicated file to reuse `expression` (the module in the 
  dedicated `Mrb_TEExpression.tla` file takes precedence 
  over the module `Mrb_TEExpression` below).

---- MODULE Mrb_TEExpression ----
EXTENDS Sequences, TLCExt, Toolbox, Naturals, TLC, Mrb

expression == 
    [
        \* To hide variables of the `Mrb` spec from the error trace,
        \* remove the variables below.  The trace will be written in the order
        \* of the fields of this record.
        last |-> last
        ,pre |-> pre
        ,q |-> q
        ,tail |-> tail
        ,head |-> head
        ,flags |-> flags
        ,count |-> count
        
        \* Put additional constant-, state-, and action-level expressions here:
        \* ,_stateNumber |-> _TEPosition
        \* ,_lastUnchanged |-> last = last'
        
        \* Format the `last` variable as Json value.
        \* ,_lastJson |->
        \*     LET J == INSTANCE Json
        \*     IN J!ToJson(last)
        
        \* Lastly, you may build expressions over arbitrary sets of states by
        \* leveraging the _TETrace operator.  For example, this is how to
        \* count the number of times a spec variable changed up to the current
        \* state in the trace.
        \* ,_lastModCount |->
        \*     LET F[s \in DOMAIN _TETrace] ==
        \*         IF s = 1 THEN 0
        \*         ELSE IF _TETrace[s].last # _TETrace[s-1].last
        \*             THEN 1 + F[s-1] ELSE F[s-1]
        \*     IN F[_TEPosition - 1]
    ]

=============================================================================



Parsing and semantic processing can take forever if the trace below is long.
 In this case, it is advised to uncomment the module below to deserialize the
 trace from a generated binary file.

\*
\*---- MODULE Mrb_TETrace ----
\*EXTENDS IOUtils, TLC, Mrb
\*
\*trace == IODeserialize("Mrb_TTrace_1791091411.bin", TRUE)
\*
\*=============================================================================
\*

---- MODULE Mrb_TETrace ----
EXTENDS TLC, Mrb

trace == 
    <<
    ([head |-> 0,q |-> <<>>,pre |-> (0 :> -2 @@ 1 :> -2 @@ 2 :> -2 @@ 3 :> -2 @@ 4 :> -2 @@ 5 :> -2 @@ 6 :> -2 @@ 7 :> -2 @@ 8 :> -2 @@ 9 :> -2 @@ 10 :> -2 @@ 11 :> -2 @@ 12 :> -2 @@ 13 :> -2 @@ 14 :> -2 @@ 15 :> -2 @@ 16 :> -2 @@ 17 :> -2 @@ 18 :> -2 @@ 19 :> -2 @@ 20 :> -2 @@ 21 :> -2 @@ 22 :> -2 @@ 23 :> -2),last |-> <<"init">>,tail |-> 0,flags |-> {},count |-> 0]),
    ([head |-> 0,q |-> <<<<4, 20>>>>,pre |-> (0 :> 20 @@ 1 :> -2 @@ 2 :> -2 @@ 3 :> -2 @@ 4 :> -2 @@ 5 :> -2 @@ 6 :> -2 @@ 7 :> -2 @@ 8 :> -2 @@ 9 :> -2 @@ 10 :> -2 @@ 11 :> -2 @@ 12 :> -2 @@ 13 :> -2 @@ 14 :> -2 @@ 15 :> -2 @@ 16 :> -2 @@ 17 :> -2 @@ 18 :> -2 @@ 19 :> -2 @@ 20 :> -2 @@ 21 :> -2 @@ 22 :> -2 @@ 23 :> -2),last |-> <<"alloc", 20, 4>>,tail |-> 0,flags |-> {},count |-> 1])
    >>
----


=============================================================================

---- CONFIG Mrb_TTrace_1791091411 ----
CONSTANTS
    N = 24
    MaxSize = 24
    ResetGuard = FALSE

INVARIANT
    _inv

CHECK_DEADLOCK
    \* CHECK_DEADLOCK off because of PROPERTY or INVARIANT above.
    FALSE

INIT
    _init

NEXT
    _next

CONSTANT
    _TETrace <- _trace

ALIAS
    _expression
=============================================================================
\* Generated on Sun Oct 04 05:23:33 UTC 2026