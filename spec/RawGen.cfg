SPECIFICATION Spec
INVARIANT TypeOk
CHECK_DEADLOCK FALSE
