// Reference CRC-32C for the /verif lifter: derived from the generator polynomial
// only (reflected 0x82F63B78), independent of the library's implementations.
#include <stdint.h>
#include <stddef.h>
static uint32_t T[256];
static int init = 0;
static void mk(void) {
    for (uint32_t i = 0; i < 256; ++i) {
        uint32_t c = i;
        for (int k = 0; k < 8; ++k) c = (c & 1) ? (c >> 1) ^ 0x82F63B78u : (c >> 1);
        T[i] = c;
    }
    init = 1;
}
uint32_t crcref(const uint8_t * p, size_t n) {
    if (!init) mk();
    uint32_t c = 0xFFFFFFFFu;
    for (size_t i = 0; i < n; ++i) c = T[(c ^ p[i]) & 0xFF] ^ (c >> 8);
    return c ^ 0xFFFFFFFFu;
}
