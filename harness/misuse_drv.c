// Driver for property C10: executes a script of public API calls with arbitrary (also invalid) arguments on
// the library built with AddressSanitizer + UBSan.  Every buffer handed to the library is a separate heap
// block of exactly the documented size, so any access outside it is reported by the sanitizer.  The
// library's own allocations are counted (link-time wrap of malloc/calloc/realloc/free) to detect leaks.
// usage: misuse_drv <script> <trace out> <workdir>
// One event per call: {"e":"Call","i":n,"op":"...","a":[args...],"rc":rc,"live":live blocks,"out":[...]}
#define _GNU_SOURCE
#include "jls/writer.h"
#include "jls/reader.h"
#include "jls/threaded_writer.h"
#include "jls/copy.h"
#include "jls/raw.h"
#include "jls/format.h"
#include "jls/ec.h"
#include <stdio.h>
#include <stdlib.h>
#include <string.h>
#include <stdint.h>
#include <unistd.h>
#include <pthread.h>

// ---- allocation accounting of the library (the driver itself uses __real_*)
void * __real_malloc(size_t n);
void * __real_calloc(size_t a, size_t b);
void * __real_realloc(void * p, size_t n);
void __real_free(void * p);
static long live = 0;
static pthread_mutex_t live_mutex = PTHREAD_MUTEX_INITIALIZER;
static void live_add(long d) { pthread_mutex_lock(&live_mutex); live += d; pthread_mutex_unlock(&live_mutex); }
void * __wrap_malloc(size_t n) { void * p = __real_malloc(n); if (p) live_add(1); return p; }
void * __wrap_calloc(size_t a, size_t b) { void * p = __real_calloc(a, b); if (p) live_add(1); return p; }
void * __wrap_realloc(void * p, size_t n) {
    void * q = __real_realloc(p, n);
    if (!p && q) live_add(1);
    else if (p && !q && n == 0) live_add(-1);
    return q;
}
void __wrap_free(void * p) { if (p) live_add(-1); __real_free(p); }

static FILE * logf;
static int callno = 0;
static struct jls_wr_s * wr = NULL;
static struct jls_twr_s * twr = NULL;
static struct jls_rd_s * rd = NULL;
static struct jls_raw_s * raw = NULL;
static long long raw_tell = 32;
static char workdir[512];
static int def_bits[65536];       // entry size of the signals this session defined successfully (0: unknown)

static long long clip(long long v) { return v > 2147483647LL ? 2147483647LL : v < -2147483647LL ? -2147483647LL : v; }

static void emit(const char * op, const long long * a, int na, int rc, const long long * out, int nout) {
    fprintf(logf, "{\"e\":\"Call\",\"i\":%d,\"op\":\"%s\",\"a\":[", ++callno, op);
    for (int i = 0; i < na; ++i) fprintf(logf, "%s%lld", i ? "," : "", clip(a[i]));
    fprintf(logf, "],\"rc\":%d,\"live\":%ld,\"out\":[", rc, live);
    for (int i = 0; i < nout; ++i) fprintf(logf, "%s%lld", i ? "," : "", clip(out[i]));
    fprintf(logf, "]}\n");
    fflush(logf);
}

static void path_of(const char * kind, char * out, size_t n) { snprintf(out, n, "%s/%s.jls", workdir, kind); }

static int bits_of_dt(uint32_t dt) { return (int) ((dt >> 8) & 0xff); }

static uint8_t * exact(size_t n) {      // a heap block of exactly n bytes (n == 0: one byte that must not be touched... still a valid pointer)
    uint8_t * p = __real_malloc(n ? n : 1);
    if (!p) { fprintf(stderr, "driver: out of memory\n"); _exit(9); }
    memset(p, 0x5a, n ? n : 1);
    return p;
}

static int32_t anno_cbk(void * u, const struct jls_annotation_s * a) { long long * c = u; c[0]++; c[1] += a->data_size; return 0; }
static int32_t utc_cbk(void * u, const struct jls_utc_summary_entry_s * e, uint32_t n) { long long * c = u; c[0] += n; (void) e; return 0; }
static int32_t ud_cbk(void * u, uint16_t meta, enum jls_storage_type_e st, uint8_t * d, uint32_t n) { long long * c = u; c[0]++; c[1] += n; (void) meta; (void) st; (void) d; return 0; }

static struct jls_signal_def_s mk_sig(long long * a) {
    // a: id src type dt rate spd sdf eps sumdf adf udf
    struct jls_signal_def_s d;
    memset(&d, 0, sizeof(d));
    d.signal_id = (uint16_t) a[0]; d.source_id = (uint16_t) a[1]; d.signal_type = (uint8_t) a[2]; d.data_type = (uint32_t) a[3];
    d.sample_rate = (uint32_t) a[4]; d.samples_per_data = (uint32_t) a[5]; d.sample_decimate_factor = (uint32_t) a[6];
    d.entries_per_summary = (uint32_t) a[7]; d.summary_decimate_factor = (uint32_t) a[8];
    d.annotation_decimate_factor = (uint32_t) a[9]; d.utc_decimate_factor = (uint32_t) a[10];
    d.name = "sig"; d.units = "u";
    return d;
}

static void make_garbage(const char * kind) {
    char p[600];
    path_of(kind, p, sizeof(p));
    FILE * f = fopen(p, "wb");
    if (!f) return;
    if (!strcmp(kind, "garbage")) { for (int i = 0; i < 4096; ++i) fputc((i * 37 + 11) & 0xff, f); }
    else if (!strcmp(kind, "empty")) { }
    else if (!strcmp(kind, "hdronly")) {
        // a valid-looking identification without anything behind it
        static const uint8_t id[16] = {0x6a, 0x6c, 0x73, 0x66, 0x6d, 0x74, 0x0d, 0x0a, 0x20, 0x0a, 0x20, 0x1a, 0x20, 0x20, 0xb2, 0x1c};
        fwrite(id, 1, 16, f);
    }
    fclose(f);
}

static void make_trunc(void) {
    // the first half of the session's closed file
    char src[600], dst[600];
    path_of("out", src, sizeof(src));
    path_of("trunc", dst, sizeof(dst));
    FILE * f = fopen(src, "rb");
    FILE * g = fopen(dst, "wb");
    if (f && g) {
        fseek(f, 0, SEEK_END);
        long n = ftell(f) / 2;
        fseek(f, 0, SEEK_SET);
        for (long i = 0; i < n; ++i) fputc(fgetc(f), g);
    }
    if (f) fclose(f);
    if (g) fclose(g);
}

int main(int argc, char ** argv) {
    if (argc < 4) return 2;
    FILE * sf = fopen(argv[1], "r");
    logf = fopen(argv[2], "w");
    snprintf(workdir, sizeof(workdir), "%s", argv[3]);
    if (!sf || !logf) return 2;
    make_garbage("garbage"); make_garbage("empty"); make_garbage("hdronly");
    char line[1024], op[32];
    while (fgets(line, sizeof(line), sf)) {
        long long a[16] = {0};
        int na = 0;
        char * tok = strtok(line, " \n");
        if (!tok) continue;
        snprintf(op, sizeof(op), "%s", tok);
        while ((tok = strtok(NULL, " \n")) && na < 16) a[na++] = strtoll(tok, NULL, 0);
        long long out[8] = {0};
        int nout = 0;
        int rc = 0;
        char p[600];
        int is_t = op[0] == 't';
        const char * o = op + 1;
        if (op[0] == 'w' || op[0] == 't') {
            if (!strcmp(o, "openbad")) {
                // a destination in a directory that does not exist: the open must fail and keep nothing
                if (twr || wr || raw || rd) continue;
                snprintf(p, sizeof(p), "%s/no_such_dir/out.jls", workdir);
                out[0] = live; nout = 1;
                if (is_t) { struct jls_twr_s * t_ = NULL; rc = jls_twr_open(&t_, p); if (!rc && t_) jls_twr_close(t_); }
                else { struct jls_wr_s * w_ = NULL; rc = jls_wr_open(&w_, p); if (!rc && w_) jls_wr_close(w_); }
            } else if (!strcmp(o, "open")) {
                path_of("out", p, sizeof(p));
                long l0 = live;
                if (is_t) { if (twr || wr || raw) continue; rc = jls_twr_open(&twr, p); if (rc) twr = NULL; }
                else { if (twr || wr || raw) continue; rc = jls_wr_open(&wr, p); if (rc) wr = NULL; }
                out[0] = l0; nout = 1;
                memset(def_bits, 0, sizeof(def_bits));
            } else if ((is_t && !twr) || (!is_t && !wr)) {
                continue;       // calls on a handle that is not open are outside the property (valid pointers)
            } else if (!strcmp(o, "close")) {
                if (is_t) { rc = jls_twr_close(twr); twr = NULL; } else { rc = jls_wr_close(wr); wr = NULL; }
                make_trunc();
            } else if (!strcmp(o, "flush")) {
                rc = is_t ? jls_twr_flush(twr) : jls_wr_flush(wr);
            } else if (!strcmp(o, "src")) {
                struct jls_source_def_s s = {.source_id = (uint16_t) a[0], .name = "n", .vendor = "v", .model = "m", .version = "1", .serial_number = "s"};
                rc = is_t ? jls_twr_source_def(twr, &s) : jls_wr_source_def(wr, &s);
            } else if (!strcmp(o, "sig")) {
                struct jls_signal_def_s d = mk_sig(a);
                rc = is_t ? jls_twr_signal_def(twr, &d) : jls_wr_signal_def(wr, &d);
                if (!rc && a[0] >= 0 && a[0] < 65536) def_bits[a[0]] = bits_of_dt(d.data_type);
            } else if (!strcmp(o, "fsr")) {
                // a: sig sample_id n
                int bits = (a[0] >= 0 && a[0] < 65536 && def_bits[a[0]]) ? def_bits[a[0]] : 32;
                size_t nbytes = (size_t) ((a[2] * bits + 7) / 8);
                uint8_t * buf = exact(nbytes);
                for (size_t i = 0; i < nbytes; ++i) buf[i] = (uint8_t) (i * 7 + a[1]);
                if (bits == 32 && nbytes >= 4) { float * f = (float *) buf; for (long long i = 0; i < a[2]; ++i) f[i] = (float) ((a[1] + i) % 100); }
                if (bits == 64 && nbytes >= 8) { double * f = (double *) buf; for (long long i = 0; i < a[2]; ++i) f[i] = (double) ((a[1] + i) % 100); }
                rc = is_t ? jls_twr_fsr(twr, (uint16_t) a[0], a[1], buf, (uint32_t) a[2]) : jls_wr_fsr(wr, (uint16_t) a[0], a[1], buf, (uint32_t) a[2]);
                __real_free(buf);
            } else if (!strcmp(o, "fsrf32")) {
                size_t nbytes = (size_t) (a[2] * 4);
                float * buf = (float *) exact(nbytes);
                for (long long i = 0; i < a[2]; ++i) buf[i] = (float) i;
                rc = is_t ? jls_twr_fsr_f32(twr, (uint16_t) a[0], a[1], buf, (uint32_t) a[2]) : jls_wr_fsr_f32(wr, (uint16_t) a[0], a[1], buf, (uint32_t) a[2]);
                __real_free(buf);
            } else if (!strcmp(o, "omit")) {
                rc = is_t ? jls_twr_fsr_omit_data(twr, (uint16_t) a[0], (uint32_t) a[1]) : jls_wr_fsr_omit_data(wr, (uint16_t) a[0], (uint32_t) a[1]);
            } else if (!strcmp(o, "anno")) {
                // a: sig ts atype stype group len
                size_t n = (size_t) a[5];
                int is_str = (a[3] == JLS_STORAGE_TYPE_STRING) || (a[3] == JLS_STORAGE_TYPE_JSON);
                uint8_t * buf = exact(n + (is_str ? 1 : 0));
                for (size_t i = 0; i < n; ++i) buf[i] = (uint8_t) ('a' + i % 26);
                if (is_str) buf[n] = 0;
                uint32_t sz = is_str ? 0 : (uint32_t) n;
                rc = is_t ? jls_twr_annotation(twr, (uint16_t) a[0], a[1], 1.0f, (enum jls_annotation_type_e) a[2], (uint8_t) a[4], (enum jls_storage_type_e) a[3], buf, sz)
                          : jls_wr_annotation(wr, (uint16_t) a[0], a[1], 1.0f, (enum jls_annotation_type_e) a[2], (uint8_t) a[4], (enum jls_storage_type_e) a[3], buf, sz);
                __real_free(buf);
            } else if (!strcmp(o, "utc")) {
                rc = is_t ? jls_twr_utc(twr, (uint16_t) a[0], a[1], a[2]) : jls_wr_utc(wr, (uint16_t) a[0], a[1], a[2]);
            } else if (!strcmp(o, "ud")) {
                // a: meta stype len
                size_t n = (size_t) a[2];
                int is_str = (a[1] == JLS_STORAGE_TYPE_STRING) || (a[1] == JLS_STORAGE_TYPE_JSON);
                uint8_t * buf = exact(n + (is_str ? 1 : 0));
                for (size_t i = 0; i < n; ++i) buf[i] = (uint8_t) ('a' + i % 26);
                if (is_str) buf[n] = 0;
                rc = is_t ? jls_twr_user_data(twr, (uint16_t) a[0], (enum jls_storage_type_e) a[1], buf, is_str ? 0 : (uint32_t) n)
                          : jls_wr_user_data(wr, (uint16_t) a[0], (enum jls_storage_type_e) a[1], buf, is_str ? 0 : (uint32_t) n);
                __real_free(buf);
            } else {
                continue;
            }
        } else if (op[0] == 'r') {
            if (!strcmp(o, "open")) {
                // a[0]: 0 out, 1 missing, 2 garbage, 3 empty, 4 hdronly, 5 trunc
                static const char * kinds[] = {"out", "missing", "garbage", "empty", "hdronly", "trunc"};
                if (rd || wr || twr || raw) continue;
                path_of(kinds[a[0] % 6], p, sizeof(p));
                out[0] = live; nout = 1;
                rc = jls_rd_open(&rd, p);
                if (rc) rd = NULL;
            } else if (!rd) {
                continue;
            } else if (!strcmp(o, "close")) {
                jls_rd_close(rd); rd = NULL; rc = 0;
            } else if (!strcmp(o, "sources")) {
                struct jls_source_def_s * s = NULL; uint16_t c = 0;
                rc = jls_rd_sources(rd, &s, &c);
                out[0] = c; nout = 1;
                if (!rc) for (uint16_t i = 0; i < c; ++i) { out[1] += s[i].source_id; out[1] += (long long) strlen(s[i].name ? s[i].name : ""); }
                nout = 2;
            } else if (!strcmp(o, "signals")) {
                struct jls_signal_def_s * s = NULL; uint16_t c = 0;
                rc = jls_rd_signals(rd, &s, &c);
                out[0] = c;
                if (!rc) for (uint16_t i = 0; i < c; ++i) { out[1] += s[i].signal_id; out[1] += (long long) strlen(s[i].name ? s[i].name : ""); }
                nout = 2;
            } else if (!strcmp(o, "signal")) {
                struct jls_signal_def_s * d = (struct jls_signal_def_s *) exact(sizeof(struct jls_signal_def_s));
                rc = jls_rd_signal(rd, (uint16_t) a[0], d);
                if (!rc) { out[0] = d->signal_type; out[1] = d->data_type & 0xffff; nout = 2; }
                __real_free(d);
            } else if (!strcmp(o, "len")) {
                int64_t * n = (int64_t *) exact(8);
                *n = -7;
                rc = jls_rd_fsr_length(rd, (uint16_t) a[0], n);
                out[0] = *n; nout = 1;
                __real_free(n);
            } else if (!strcmp(o, "fsr") || !strcmp(o, "fsrf32")) {
                // a: sig start n
                struct jls_signal_def_s d;
                int bits = 64;
                int f32 = !strcmp(o, "fsrf32");
                if (0 == jls_rd_signal(rd, (uint16_t) a[0], &d) && d.signal_type == JLS_SIGNAL_TYPE_FSR) bits = bits_of_dt(d.data_type);
                if (f32) bits = 32;
                long long n = a[2] < 0 ? 0 : a[2];
                if (n > 1000000) n = 1000000;       // a window this large is outside every file of this session: must be refused
                size_t nbytes = (bits < 8) ? (size_t) (1 + (n * bits) / 8) : (size_t) ((n * bits) / 8);
                uint8_t * buf = exact(nbytes);
                rc = f32 ? jls_rd_fsr_f32(rd, (uint16_t) a[0], a[1], (float *) buf, a[2]) : jls_rd_fsr(rd, (uint16_t) a[0], a[1], buf, a[2]);
                unsigned h = 0;
                if (!rc) for (size_t i = 0; i < nbytes; ++i) h = h * 31 + buf[i];
                out[0] = h & 0xffff; nout = 1;
                __real_free(buf);
            } else if (!strcmp(o, "stats")) {
                // a: sig start incr n
                long long n = a[3] < 0 ? 0 : a[3];
                if (n > 100000) n = 100000;
                double * buf = (double *) exact((size_t) n * JLS_SUMMARY_FSR_COUNT * sizeof(double));
                rc = jls_rd_fsr_statistics(rd, (uint16_t) a[0], a[1], a[2], buf, a[3]);
                __real_free(buf);
            } else if (!strcmp(o, "annos")) {
                long long c[2] = {0, 0};
                rc = jls_rd_annotations(rd, (uint16_t) a[0], a[1], anno_cbk, c);
                out[0] = c[0]; out[1] = c[1]; nout = 2;
            } else if (!strcmp(o, "utc")) {
                long long c[2] = {0, 0};
                rc = jls_rd_utc(rd, (uint16_t) a[0], a[1], utc_cbk, c);
                out[0] = c[0]; nout = 1;
            } else if (!strcmp(o, "ud")) {
                long long c[2] = {0, 0};
                rc = jls_rd_user_data(rd, ud_cbk, c);
                out[0] = c[0]; out[1] = c[1]; nout = 2;
            } else if (!strcmp(o, "i2t")) {
                int64_t * t = (int64_t *) exact(8);
                rc = jls_rd_sample_id_to_timestamp(rd, (uint16_t) a[0], a[1], t);
                __real_free(t);
            } else if (!strcmp(o, "t2i")) {
                int64_t * t = (int64_t *) exact(8);
                rc = jls_rd_timestamp_to_sample_id(rd, (uint16_t) a[0], a[1], t);
                __real_free(t);
            } else {
                continue;
            }
        } else if (op[0] == 'x') {
            // the raw chunk API (include/jls/raw.h)
            if (!strcmp(o, "tag")) {
                const char * nm = jls_tag_to_name((uint8_t) a[0]);
                out[0] = nm ? (long long) strlen(nm) : -1; nout = 1;
            } else if (!strcmp(o, "dt")) {
                const char * nm = jls_dt_str((uint32_t) a[0]);
                out[0] = nm ? (long long) strlen(nm) : -1; nout = 1;
            } else if (!strcmp(o, "open")) {
                // a[0]: file kind as ropen, 6 = a file of its own; a[1]: 0 "r", 1 "w", 2 "a", 3 "q", 4 ""
                static const char * kinds[] = {"out", "missing", "garbage", "empty", "hdronly", "trunc", "rawout"};
                static const char * modes[] = {"r", "w", "a", "q", ""};
                if (rd || wr || twr || raw) continue;
                path_of(kinds[a[0] % 7], p, sizeof(p));
                out[0] = live;
                rc = jls_raw_open(&raw, p, modes[a[1] % 5]);
                out[1] = raw ? 1 : 0; nout = 2;     // (an unclosed file opens with JLS_ERROR_TRUNCATED and a usable instance)
                raw_tell = 32;
            } else if (!raw) {
                continue;
            } else if (!strcmp(o, "close")) {
                rc = jls_raw_close(raw); raw = NULL;
            } else if (!strcmp(o, "wr") || !strcmp(o, "wrhdr")) {
                // a: tag meta payload_length
                struct jls_chunk_header_s * h = (struct jls_chunk_header_s *) exact(sizeof(struct jls_chunk_header_s));
                memset(h, 0, sizeof(*h));
                h->tag = (uint8_t) a[0]; h->chunk_meta = (uint16_t) a[1]; h->payload_length = (uint32_t) a[2];
                if (!strcmp(o, "wr")) {
                    uint8_t * pl = exact((size_t) a[2]);
                    rc = jls_raw_wr(raw, h, pl);
                    __real_free(pl);
                } else {
                    rc = jls_raw_wr_header(raw, h);
                }
                out[0] = h->payload_prev_length; nout = 1;
                __real_free(h);
            } else if (!strcmp(o, "wrpay")) {
                uint8_t * pl = exact((size_t) a[0]);
                rc = jls_raw_wr_payload(raw, (uint32_t) a[0], pl);
                __real_free(pl);
            } else if (!strcmp(o, "rd") || !strcmp(o, "rdhdr")) {
                struct jls_chunk_header_s * h = (struct jls_chunk_header_s *) exact(sizeof(struct jls_chunk_header_s));
                if (!strcmp(o, "rd")) {
                    uint8_t * pl = exact((size_t) a[0]);
                    rc = jls_raw_rd(raw, h, (uint32_t) a[0], pl);
                    __real_free(pl);
                } else {
                    rc = jls_raw_rd_header(raw, h);
                }
                if (!rc) { out[0] = h->tag; out[1] = h->payload_length; nout = 2; }
                __real_free(h);
            } else if (!strcmp(o, "rdpay")) {
                uint8_t * pl = exact((size_t) a[0]);
                rc = jls_raw_rd_payload(raw, (uint32_t) a[0], pl);
                __real_free(pl);
            } else if (!strcmp(o, "seek")) {
                rc = jls_raw_chunk_seek(raw, a[0] == -3 ? raw_tell : a[0]);
            } else if (!strcmp(o, "end")) {
                rc = jls_raw_seek_end(raw);
            } else if (!strcmp(o, "tell")) {
                raw_tell = jls_raw_chunk_tell(raw); out[0] = raw_tell; nout = 1;
            } else if (!strcmp(o, "scan")) {
                rc = jls_raw_chunk_scan(raw);
            } else if (!strcmp(o, "flush")) {
                rc = jls_raw_flush(raw);
            } else if (!strcmp(o, "next")) {
                rc = jls_raw_chunk_next(raw);
            } else if (!strcmp(o, "prev")) {
                rc = jls_raw_chunk_prev(raw);
            } else if (!strcmp(o, "inext")) {
                rc = jls_raw_item_next(raw);
            } else if (!strcmp(o, "iprev")) {
                rc = jls_raw_item_prev(raw);
            } else if (!strcmp(o, "ver")) {
                union jls_version_u v = jls_raw_version(raw);
                out[0] = v.s.major; nout = 1;
            } else if (!strcmp(o, "bk")) {
                out[0] = jls_raw_backend(raw) ? 1 : 0; nout = 1;
            } else {
                continue;
            }
        } else if (!strcmp(op, "copybad")) {
            char q[600];
            if (rd || wr || twr || raw) continue;
            path_of("out", p, sizeof(p));
            snprintf(q, sizeof(q), "%s/no_such_dir/copy.jls", workdir);
            out[0] = live; nout = 1;
            rc = jls_copy(p, q, NULL, NULL, NULL, NULL);
        } else if (!strcmp(op, "copy")) {
            // a[0]: source kind as ropen
            static const char * kinds[] = {"out", "missing", "garbage", "empty", "hdronly", "trunc"};
            char q[600];
            if (rd || wr || twr || raw) continue;
            path_of(kinds[a[0] % 6], p, sizeof(p));
            path_of("copy", q, sizeof(q));
            out[0] = live; nout = 1;
            rc = jls_copy(p, q, NULL, NULL, NULL, NULL);
        } else {
            continue;
        }
        emit(op, a, na, rc, out, nout);
    }
    // end of session: close what is open (not part of the judged calls), then report the live blocks
    if (rd) jls_rd_close(rd);
    if (wr) jls_wr_close(wr);
    if (twr) jls_twr_close(twr);
    if (raw) jls_raw_close(raw);
    fprintf(logf, "{\"e\":\"End\",\"live\":%ld}\n", live);
    fclose(logf);
    return 0;
}
