// C18 driver: calls the real jls_crc32c / jls_crc32c_hdr of both builds (SSE4.2 as
// compiled by default, table-driven with JLS_OPTIMIZE_CRC_DISABLE) for every length
// 0..N and start alignment 0..7 and writes what they returned as ndjson.
// usage: crc_probe <seed> <maxlen> <nhdr> <content: 0 random, 1 zeros, 2 ones, 3 single bits>
#include "jls/crc32c.h"
#include "jls/format.h"
#include <stdio.h>
#include <stdlib.h>
#include <string.h>
#include <stdint.h>

uint32_t jls_crc32c_sw(uint8_t const * data, uint32_t length);
uint32_t jls_crc32c_hdr_sw(const struct jls_chunk_header_s * hdr);
const uint32_t * verif_crc_table(int k);

static uint64_t rs;
static uint8_t rnd(void) { rs ^= rs << 13; rs ^= rs >> 7; rs ^= rs << 17; return (uint8_t) (rs >> 24); }

int main(int argc, char ** argv) {
    uint64_t seed = argc > 1 ? strtoull(argv[1], 0, 10) : 1;
    int maxlen = argc > 2 ? atoi(argv[2]) : 4096;
    int nhdr = argc > 3 ? atoi(argv[3]) : 100;
    int content = argc > 4 ? atoi(argv[4]) : 0;
    rs = seed * 0x9E3779B97F4A7C15ULL + 12345;
    uint8_t * mem = aligned_alloc(64, maxlen + 64);
    long x = 0;
    for (int a = 0; a < 8; ++a) {
        for (int i = 0; i < maxlen + 64; ++i) {
            mem[i] = (content == 0) ? rnd() : (content == 1) ? 0 : (content == 2) ? 0xff : (uint8_t) ((i % 9 == (a % 9)) ? (1u << (i % 8)) : 0);
        }
        printf("{\"e\":\"CrcRun\",\"x\":%ld,\"a\":%d,\"buf\":[", ++x, a);
        for (int i = 0; i < maxlen; ++i) printf("%s%u", i ? "," : "", mem[a + i]);
        printf("]");
        for (int impl = 0; impl < 2; ++impl) {
            uint32_t * res = malloc(sizeof(uint32_t) * (maxlen + 1));
            for (int n = 0; n <= maxlen; ++n) res[n] = impl ? jls_crc32c_sw(mem + a, (uint32_t) n) : jls_crc32c(mem + a, (uint32_t) n);
            printf(",\"%s_hi\":[", impl ? "s" : "d");
            for (int n = 0; n <= maxlen; ++n) printf("%s%u", n ? "," : "", res[n] >> 16);
            printf("],\"%s_lo\":[", impl ? "s" : "d");
            for (int n = 0; n <= maxlen; ++n) printf("%s%u", n ? "," : "", res[n] & 0xffff);
            printf("]");
            free(res);
        }
        printf("}\n");
    }
    // the dedicated header variant against the general function's contract (first 28 bytes)
    struct jls_chunk_header_s * h = aligned_alloc(64, sizeof(*h));
    printf("{\"e\":\"CrcHdr\",\"x\":%ld,\"items\":[", ++x);
    for (int k = 0; k < nhdr; ++k) {
        uint8_t * p = (uint8_t *) h;
        for (int i = 0; i < 32; ++i) p[i] = (k == 0) ? 0 : (k == 1) ? 0xff : rnd();
        uint32_t c1 = jls_crc32c_hdr(h), c2 = jls_crc32c_hdr_sw(h);
        printf("%s{\"b\":[", k ? "," : "");
        for (int i = 0; i < 28; ++i) printf("%s%u", i ? "," : "", p[i]);
        printf("],\"d\":[%u,%u],\"s\":[%u,%u]}", c1 >> 16, c1 & 0xffff, c2 >> 16, c2 & 0xffff);
    }
    printf("]}\n");
    for (int k = 0; k < 8; ++k) {
        const uint32_t * t = verif_crc_table(k);
        printf("{\"e\":\"CrcTable\",\"x\":%ld,\"k\":%d,\"hi\":[", ++x, k);
        for (int i = 0; i < 256; ++i) printf("%s%u", i ? "," : "", t[i] >> 16);
        printf("],\"lo\":[");
        for (int i = 0; i < 256; ++i) printf("%s%u", i ? "," : "", t[i] & 0xffff);
        printf("]}\n");
    }
    return 0;
}
