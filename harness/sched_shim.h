#ifndef SCHED_SHIM_H
#define SCHED_SHIM_H
#include <stdint.h>
#include <stdio.h>
void shim_init(FILE * log, const char * script_text, uint64_t seed, int tick_permille, int64_t overshoot_ms, int64_t step_budget);
void shim_log(const char * fmt, ...);
int shim_self(void);
int64_t shim_now(void);
void shim_label(const char * s);
int shim_owner(const char * mutex_name);   // owner thread of "M" / "P" / "E", -1 if free
void shim_yield(void);
void shim_policy(int jump_permille, int pct_changes, int change_span);
#endif
