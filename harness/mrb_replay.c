// Driver for the real jls_mrb_* (src/msg_ring_buffer.c).
// Reads an operation script on stdin, executes it, writes one ndjson event per
// operation on stdout (consumed by MrbContractTrace.tla), and compares the
// struct fields with the expectations that the TLC state graph attached to the
// script ("E" lines); deviations are written to the file given as argv[1].
// The driver records and projects; it decides nothing about C08.
#include "jls/msg_ring_buffer.h"
#include <stdio.h>
#include <stdlib.h>
#include <string.h>
#include <stdint.h>

#define GUARD 64
#define MAXN 8192
#define MAXSTK 64

struct snap {
    struct jls_mrb_s m;
    uint8_t mem[MAXN + 2 * GUARD];
    uint32_t k;
};

static struct jls_mrb_s m;
static uint8_t mem[MAXN + 2 * GUARD];
static uint32_t n = 0, k = 0;
static long x = 0;
static struct snap * stk[MAXSTK];
static int sp = 0;
static long last_ret = -1;

static int guard_ok(void) {
    for (uint32_t i = 0; i < GUARD; ++i) {
        if (mem[i] != 0xA5 || mem[GUARD + n + i] != 0xA5) return 0;
    }
    return 1;
}

static void fp_of(long off, uint32_t size, char * out) {
    // fingerprint of the payload bytes as they are in memory now
    if (off < -(long) GUARD || (off + (long) size) > (long) (n + GUARD) || size > MAXN) {
        strcpy(out, "oob");
        return;
    }
    uint64_t h = 1469598103934665603ULL ^ size;
    const uint8_t * p = mem + GUARD + off;
    for (uint32_t i = 0; i < size; ++i) { h ^= p[i]; h *= 1099511628211ULL; }
    sprintf(out, "%016llx", (unsigned long long) h);
}

int main(int argc, char ** argv) {
    FILE * drift = (argc > 1) ? fopen(argv[1], "w") : NULL;
    char line[256];
    char fp[32];
    long lineno = 0;
    while (fgets(line, sizeof(line), stdin)) {
        ++lineno;
        char op = line[0];
        if (op == 'R') {
            unsigned nn; long xx;
            sscanf(line + 1, "%u %ld", &nn, &xx);
            n = nn; x = xx; k = 0;
            while (sp) free(stk[--sp]);
            memset(mem, 0xA5, sizeof(mem));
            jls_mrb_init(&m, mem + GUARD, n);
            printf("{\"e\":\"Reset\",\"n\":%u,\"x\":%ld}\n", n, x);
        } else if (op == 'A') {
            unsigned size; sscanf(line + 1, "%u", &size);
            uint8_t * p = jls_mrb_alloc(&m, size);
            long ret = p ? (long) (p - (mem + GUARD)) : -1;
            if (p && ret >= -(long) GUARD && ret + (long) size <= (long) (n + GUARD)) {
                for (uint32_t i = 0; i < size; ++i) p[i] = (uint8_t) (k * 31 + i * 7 + 1);
            }
            ++k;
            if (p) fp_of(ret, size, fp); else strcpy(fp, "-");
            last_ret = ret;
            printf("{\"e\":\"Alloc\",\"size\":%u,\"ret\":%ld,\"fp\":\"%s\",\"head\":%u,\"tail\":%u,\"count\":%u,\"g\":%s}\n",
                   size, ret, fp, m.head, m.tail, m.count, guard_ok() ? "true" : "false");
        } else if (op == 'K' || op == 'P') {
            uint32_t size = 0;
            uint8_t * p = (op == 'K') ? jls_mrb_peek(&m, &size) : jls_mrb_pop(&m, &size);
            long ret = p ? (long) (p - (mem + GUARD)) : -1;
            if (p) fp_of(ret, size, fp); else strcpy(fp, "-");
            last_ret = ret;
            printf("{\"e\":\"%s\",\"size\":%ld,\"ret\":%ld,\"fp\":\"%s\",\"head\":%u,\"tail\":%u,\"count\":%u,\"g\":%s}\n",
                   (op == 'K') ? "Peek" : "Pop", (long) (size > 0x7fffffff ? -1 : (long) size), ret, fp,
                   m.head, m.tail, m.count, guard_ok() ? "true" : "false");
        } else if (op == 'U') {
            if (sp >= MAXSTK) { fprintf(stderr, "stack overflow\n"); return 2; }
            struct snap * s = malloc(sizeof(*s));
            s->m = m; memcpy(s->mem, mem, sizeof(mem)); s->k = k;
            stk[sp++] = s;
            printf("{\"e\":\"Push\"}\n");
        } else if (op == 'B') {
            if (!sp) { fprintf(stderr, "stack underflow\n"); return 2; }
            struct snap * s = stk[--sp];
            m = s->m; memcpy(mem, s->mem, sizeof(mem)); k = s->k;
            free(s);
            printf("{\"e\":\"Back\"}\n");
        } else if (op == 'E') {
            unsigned eh, et, ec; long er;
            sscanf(line + 1, "%u %u %u %ld", &eh, &et, &ec, &er);
            if (drift && (eh != m.head || et != m.tail || ec != m.count || er != last_ret)) {
                fprintf(drift, "{\"x\":%ld,\"line\":%ld,\"exp\":[%u,%u,%u,%ld],\"got\":[%u,%u,%u,%ld]}\n",
                        x, lineno, eh, et, ec, er, m.head, m.tail, m.count, last_ret);
            }
        }
    }
    if (drift) fclose(drift);
    return 0;
}
