// Real-thread run of the threaded writer for ThreadSanitizer (property C06: "unsynchronised-access detection on real
// threads").  Several application threads submit messages through jls_twr_* while the library's writer thread applies
// them; the queue is small (JLS_VERIF_MRB_BUFFER_SIZE) so that it wraps, fills up and - with the drop flag - overflows.
// The harness itself shares nothing between threads but the jls_twr_s handle and read-only configuration.
// usage: twr_tsan_drv <out.jls> <seed> <threads> <ops per thread> <drop 0|1>
// exit 0; ThreadSanitizer makes the exit code 66 when it reported anything (TSAN_OPTIONS exitcode=66).
#include "jls/threaded_writer.h"
#include "jls/reader.h"
#include "jls/time.h"
#include <pthread.h>
#include <stdint.h>
#include <stdio.h>
#include <stdlib.h>
#include <string.h>
#include <unistd.h>

static struct jls_twr_s * twr;
static int nops;

struct targ { int t; uint64_t seed; long accepted; long refused; };

static uint64_t rnd(uint64_t * s) { *s ^= *s << 13; *s ^= *s >> 7; *s ^= *s << 17; return *s; }

static void * producer(void * a_) {
    struct targ * a = a_;
    uint64_t s = a->seed * 2654435761u + 977 * (uint64_t) (a->t + 1);
    uint16_t sig = (uint16_t) (1 + a->t);            // defined by main before the threads start
    uint16_t late = (uint16_t) (20 + a->t);          // defined by this thread while the others are running
    int64_t next = 0, next_late = 0, utc_id = 0, ts = 0;
    float buf[512];
    uint8_t bytes[600];
    for (int i = 0; i < 512; ++i) buf[i] = (float) (i + 1000 * a->t);
    for (int i = 0; i < 600; ++i) bytes[i] = (uint8_t) (i * 7 + a->t);
    int have_late = 0;
    for (int k = 0; k < nops; ++k) {
        uint64_t r = rnd(&s) % 100;
        int32_t rc = 0;
        if (r < 55) {
            uint32_t n = 1 + (uint32_t) (rnd(&s) % 300);
            rc = jls_twr_fsr(twr, sig, next, buf, n);
            next += n;                                   // a refused block leaves a gap, as the API says
        } else if (r < 62 && have_late) {
            uint32_t n = 1 + (uint32_t) (rnd(&s) % 500);
            rc = jls_twr_fsr(twr, late, next_late, bytes, n);
            next_late += n;
        } else if (r < 66 && !have_late) {
            struct jls_signal_def_s d = {.signal_id = late, .source_id = 1, .signal_type = JLS_SIGNAL_TYPE_FSR, .data_type = JLS_DATATYPE_U8,
                                         .sample_rate = 1000, .samples_per_data = 64, .sample_decimate_factor = 32, .entries_per_summary = 10,
                                         .summary_decimate_factor = 10, .annotation_decimate_factor = 10, .utc_decimate_factor = 10,
                                         .name = "late", .units = "u"};
            rc = jls_twr_signal_def(twr, &d);
            have_late = (rc == 0);
        } else if (r < 74) {
            ts += 1 + (int64_t) (rnd(&s) % 50);
            rc = jls_twr_annotation(twr, (rnd(&s) & 1) ? sig : 0, ts, 1.0f, JLS_ANNOTATION_TYPE_TEXT, 0, JLS_STORAGE_TYPE_STRING, (const uint8_t *) "note", 0);
        } else if (r < 80) {
            utc_id += 10 + (int64_t) (rnd(&s) % 100);
            rc = jls_twr_utc(twr, sig, utc_id, JLS_TIME_SECOND * (1000 + utc_id));
        } else if (r < 86) {
            rc = jls_twr_user_data(twr, (uint16_t) (rnd(&s) % 4096), JLS_STORAGE_TYPE_BINARY, bytes, (uint32_t) (rnd(&s) % 400));
        } else if (r < 90) {
            rc = jls_twr_fsr_omit_data(twr, sig, (uint32_t) (rnd(&s) & 1));
        } else if (r < 94) {
            rc = jls_twr_flush(twr);
        } else if (r < 97) {
            (void) jls_twr_flags_get(twr);
        } else {
            usleep((useconds_t) (rnd(&s) % 2000));
        }
        if (rc) a->refused++; else a->accepted++;
    }
    return NULL;
}

int main(int argc, char ** argv) {
    if (argc < 6) return 2;
    uint64_t seed = strtoull(argv[2], NULL, 0);
    int nt = atoi(argv[3]);
    nops = atoi(argv[4]);
    int drop = atoi(argv[5]);
    if (nt < 1 || nt > 8) return 2;
    if (jls_twr_open(&twr, argv[1])) { fprintf(stderr, "open failed\n"); return 3; }
    if (drop) jls_twr_flags_set(twr, JLS_TWR_FLAG_DROP_ON_OVERFLOW);
    struct jls_source_def_s src = {.source_id = 1, .name = "s", .vendor = "v", .model = "m", .version = "1", .serial_number = "n"};
    if (jls_twr_source_def(twr, &src)) return 3;
    for (int t = 0; t < nt; ++t) {
        struct jls_signal_def_s d = {.signal_id = (uint16_t) (1 + t), .source_id = 1, .signal_type = JLS_SIGNAL_TYPE_FSR, .data_type = JLS_DATATYPE_F32,
                                     .sample_rate = 1000, .samples_per_data = 160, .sample_decimate_factor = 16, .entries_per_summary = 10,
                                     .summary_decimate_factor = 10, .annotation_decimate_factor = 10, .utc_decimate_factor = 10,
                                     .name = "sig", .units = "u"};
        if (jls_twr_signal_def(twr, &d)) return 3;
    }
    pthread_t th[8];
    struct targ ta[8];
    for (int t = 0; t < nt; ++t) {
        ta[t].t = t; ta[t].seed = seed; ta[t].accepted = 0; ta[t].refused = 0;
        pthread_create(&th[t], NULL, producer, &ta[t]);
    }
    long acc = 0, ref = 0;
    for (int t = 0; t < nt; ++t) { pthread_join(th[t], NULL); acc += ta[t].accepted; ref += ta[t].refused; }
    int32_t rc = jls_twr_close(twr);
    printf("{\"accepted\":%ld,\"refused\":%ld,\"close\":%d}\n", acc, ref, rc);
    return 0;
}
