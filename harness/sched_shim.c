// Cooperative scheduler for the threaded writer checks (C06/C07).
//
// Linked with -Wl,--wrap=pthread_mutex_init,... so that every synchronisation call made by
// backend_posix.o / threaded_writer.o (and by the harness) arrives here.  Exactly one thread
// runs at a time.  A thread that reaches a synchronisation call registers it as its *pending
// action* and asks the scheduler to pick the next action among all pending actions that are
// enabled (a lock on a free mutex, a join on a finished thread, a wake-up whose time has come,
// ...) or a Tick that advances virtual time to the next wake-up.  The pick comes from a script
// (one decision per line of TLC's behaviour) or from a seeded priority policy.  After an action
// has taken effect one event is logged; nothing else can run in between.
//
// The primitives are simulated (owner fields, waiter lists, virtual clock): their semantics are
// the POSIX ones for normal mutexes, condition variables (no spurious wake-ups are generated),
// nanosleep ("at least") and join.
#define _GNU_SOURCE
#include "sched_shim.h"
#include <errno.h>
#include <pthread.h>
#include <semaphore.h>
#include <stdarg.h>
#include <stdint.h>
#include <stdio.h>
#include <stdlib.h>
#include <string.h>
#include <time.h>
#include <unistd.h>

int __real_pthread_create(pthread_t *, const pthread_attr_t *, void *(*)(void *), void *);

#define MAXT 8
#define MAXM 16
#define MAXC 8

enum act { A_NONE, A_START, A_LOCK, A_UNLOCK, A_WAIT, A_WAKE, A_SIGNAL, A_CREATE, A_JOIN, A_SLEEP, A_SLEPT, A_EXIT, A_YIELD };
static const char * act_name[] = {"none", "start", "lock", "unlock", "wait", "wake", "signal", "create", "join", "sleep", "slept", "exit", "yield"};

struct thr {
    int used, finished;
    pthread_t real;
    sem_t sem;
    enum act pend;      // pending action
    int obj;            // mutex / cond / thread index it refers to
    int obj2;           // cond_wait: the mutex
    int64_t wake;       // A_SLEPT: enabled when now >= wake
    int signalled;      // A_WAKE: set by cond_signal
    void * (*fn)(void *);
    void * arg;
    int prio;
    int64_t starve;     // decisions this thread was enabled but not chosen
    char label[24];     // free text set by the harness (current API call)
};
struct mtx { const void * addr; int owner; char name[8]; };
struct cnd { const void * addr; char name[8]; };

static struct thr T[MAXT];
static struct mtx M[MAXM];
static struct cnd C[MAXC];
static int nT = 0, nM = 0, nC = 0;
static __thread int me = -1;
static int64_t now_ns = 0;
static FILE * logf = NULL;
static long seq = 0;
static int64_t steps = 0, max_steps = 200000;

// script: tokens "0".."7" (thread to run) or "T" (tick)
static char * script = NULL;
static size_t script_pos = 0;
static int script_infeasible = 0;
static uint64_t rng = 88172645463325252ULL;
static int p_tick_permille = 30;      // policy: chance of advancing time although threads are enabled
static int pct_changes = 3;
static int burst_thread = -1, burst_left = 0;
static int64_t fair_bound = 20000;   // decisions an enabled thread may be passed over
static int64_t change_at[8];
static int64_t tick_overshoot = 0;    // added to the wake time when time advances
static int64_t jump_ms = 0;           // extra overshoot of the tick just decided (script J/K, or policy)
static int jump_permille = 0;         // policy: fraction of ticks that jump past a timeout

static uint64_t rnd(void) { rng ^= rng << 13; rng ^= rng >> 7; rng ^= rng << 17; return rng; }

void shim_log(const char * fmt, ...) {
    if (!logf) return;
    va_list ap;
    va_start(ap, fmt);
    vfprintf(logf, fmt, ap);
    va_end(ap);
    fputc('\n', logf);
    fflush(logf);
}

int shim_self(void) { return me; }
int64_t shim_now(void) { return now_ns; }
void shim_label(const char * s) { if (me >= 0) { strncpy(T[me].label, s, sizeof(T[me].label) - 1); } }
int shim_owner(const char * name) { for (int i = 0; i < nM; ++i) if (!strcmp(M[i].name, name)) return M[i].owner; return -2; }

static int midx(const void * a) {
    for (int i = 0; i < nM; ++i) if (M[i].addr == a) return i;
    // unseen mutex (statically initialised): register
    M[nM].addr = a; M[nM].owner = -1; snprintf(M[nM].name, sizeof(M[nM].name), "X%d", nM);
    return nM++;
}
static int cidx(const void * a) {
    for (int i = 0; i < nC; ++i) if (C[i].addr == a) return i;
    C[nC].addr = a; snprintf(C[nC].name, sizeof(C[nC].name), "c%d", nC);
    return nC++;
}

static int enabled(int t) {
    struct thr * x = &T[t];
    if (!x->used || x->finished) return 0;
    switch (x->pend) {
        case A_LOCK: return M[x->obj].owner < 0;
        case A_WAKE: return x->signalled && M[x->obj2].owner < 0;
        case A_JOIN: return T[x->obj].finished;
        case A_SLEPT: return now_ns >= x->wake;
        case A_NONE: return 0;
        default: return 1;
    }
}

static int64_t next_wake(void) {
    int64_t w = -1;
    for (int t = 0; t < nT; ++t)
        if (T[t].used && !T[t].finished && T[t].pend == A_SLEPT && T[t].wake > now_ns && (w < 0 || T[t].wake < w)) w = T[t].wake;
    return w;
}

static void state_json(char * buf, size_t n) {
    size_t k = 0;
    k += snprintf(buf + k, n - k, "\"now\":%lld,\"own\":{", (long long) (now_ns / 1000000));
    for (int i = 0; i < nM; ++i) k += snprintf(buf + k, n - k, "%s\"%s\":%d", i ? "," : "", M[i].name, M[i].owner);
    k += snprintf(buf + k, n - k, "},\"pend\":[");
    for (int t = 0; t < nT; ++t) k += snprintf(buf + k, n - k, "%s\"%s\"", t ? "," : "", T[t].finished ? "done" : act_name[T[t].pend]);
    snprintf(buf + k, n - k, "]");
}

static void die(const char * what) {
    char st[512];
    state_json(st, sizeof(st));
    shim_log("{\"e\":\"%s\",\"q\":%ld,%s}", what, ++seq, st);
    fflush(NULL);
    _exit(what[0] == 'D' ? 3 : 4);
}

// choose the next decision: returns thread index, or -1 for Tick
static int decide(void) {
    int en[MAXT], ne = 0;
    for (int t = 0; t < nT; ++t) if (enabled(t)) en[ne++] = t;
    int64_t w = next_wake();
    if (!ne && w < 0) {
        int unfinished = 0;
        for (int t = 0; t < nT; ++t) if (T[t].used && !T[t].finished) ++unfinished;
        if (!unfinished) return -2;
        die("Deadlock");
    }
    if (++steps > max_steps) die("Livelock");
    // scripted decision
    while (script && script[script_pos]) {
        char c = script[script_pos];
        if (c == ' ' || c == '\n' || c == ',') { ++script_pos; continue; }
        ++script_pos;
        if (c == 'T' || c == 'J' || c == 'K') {
            jump_ms = c == 'J' ? 6000 : c == 'K' ? 21000 : 0;
            if (w >= 0) return -1;
        } else {
            int t = c - '0';
            if (t >= 0 && t < nT && enabled(t)) return t;
        }
        // the scripted step is not possible here: note it once and fall back to the policy
        if (!script_infeasible) {
            script_infeasible = 1;
            shim_log("{\"e\":\"Infeasible\",\"q\":%ld,\"pos\":%zu,\"want\":\"%c\"}", ++seq, script_pos - 1, c);
        }
        break;
    }
    // policy: time passes only if nothing else can happen, or with a small probability
    jump_ms = 0;
    // weak fairness: a thread that stayed enabled for fair_bound decisions without running runs now
    // (it then runs for a burst of decisions whenever it is enabled, so that it gets somewhere)
    {
        if (burst_left > 0 && burst_thread >= 0) {
            --burst_left;
            if (enabled(burst_thread)) { T[burst_thread].starve = 0; return burst_thread; }
        }
        int starved = -1;
        for (int i = 0; i < ne; ++i) if (T[en[i]].starve > fair_bound && (starved < 0 || T[en[i]].starve > T[starved].starve)) starved = en[i];
        if (starved >= 0) { T[starved].starve = 0; burst_thread = starved; burst_left = 500; return starved; }
    }
    if (w >= 0 && (!ne || (int) (rnd() % 1000) < p_tick_permille)) {
        if ((int) (rnd() % 1000) < jump_permille) jump_ms = (rnd() & 1) ? 6000 : 21000;
        for (int i = 0; i < ne; ++i) T[en[i]].starve++;
        return -1;
    }
    for (int k = 0; k < pct_changes; ++k) if (steps == change_at[k] && me >= 0) T[me].prio = -(int) steps;   // PCT: demote the running thread
    int best = en[0];
    for (int i = 1; i < ne; ++i) if (T[en[i]].prio > T[best].prio) best = en[i];
    for (int i = 0; i < ne; ++i) T[en[i]].starve = (en[i] == best) ? 0 : T[en[i]].starve + 1;
    return best;
}

static void perform(int t);

// called by the running thread after it registered its pending action: hand over until it is our turn
static void sync_point(void) {
    for (;;) {
        int d = decide();
        if (d == -2) return;
        if (d == -1) {
            int64_t w = next_wake();
            now_ns = w + tick_overshoot + jump_ms * 1000000LL;
            shim_log("{\"e\":\"Tick\",\"q\":%ld,\"now\":%lld,\"jump\":%lld}", ++seq, (long long) (now_ns / 1000000), (long long) jump_ms);
            continue;
        }
        if (d == me) { perform(me); return; }
        int self = me;
        sem_post(&T[d].sem);
        sem_wait(&T[self].sem);       // parked until the scheduler picks us
        // we were picked: the picker has not performed our action; do it now
        perform(self);
        return;
    }
}

// effect of the pending action of thread t (== me), then one event
static void perform(int t) {
    struct thr * x = &T[t];
    const char * obj = "";
    enum act a = x->pend;
    switch (a) {
        case A_LOCK: M[x->obj].owner = t; obj = M[x->obj].name; break;
        case A_UNLOCK: M[x->obj].owner = -1; obj = M[x->obj].name; break;
        case A_WAIT: M[x->obj2].owner = -1; obj = C[x->obj].name; break;
        case A_WAKE: M[x->obj2].owner = t; x->signalled = 0; obj = C[x->obj].name; break;
        case A_SIGNAL:
            obj = C[x->obj].name;
            for (int k = 0; k < nT; ++k) {
                if (T[k].used && !T[k].finished && T[k].pend == A_WAKE && T[k].obj == x->obj && !T[k].signalled) { T[k].signalled = 1; break; }
            }
            break;
        case A_EXIT: x->finished = 1; break;
        case A_CREATE: T[x->obj].used = 1; break;
        default: break;
    }
    x->pend = A_NONE;
    if (a == A_WAIT) { x->pend = A_WAKE; }                // now waiting for a signal
    if (a == A_SLEEP) { x->pend = A_SLEPT; }
    char st[512];
    state_json(st, sizeof(st));
    shim_log("{\"e\":\"Sync\",\"q\":%ld,\"t\":%d,\"op\":\"%s\",\"obj\":\"%s\",\"call\":\"%s\",%s}", ++seq, t, act_name[a], obj, x->label, st);
}

static void request(enum act a, int obj, int obj2) {
    T[me].pend = a; T[me].obj = obj; T[me].obj2 = obj2;
    sync_point();
}

// ---------------------------------------------------------------- wrapped primitives
int __wrap_pthread_mutex_init(pthread_mutex_t * m, const pthread_mutexattr_t * a) {
    (void) a;
    static const char * names[] = {"M", "P", "E"};
    for (int i = 0; i < nM; ++i) if (M[i].addr == m) { M[i].owner = -1; return 0; }
    M[nM].addr = m; M[nM].owner = -1;
    if (nM < 3) snprintf(M[nM].name, sizeof(M[nM].name), "%s", names[nM]); else snprintf(M[nM].name, sizeof(M[nM].name), "X%d", nM);
    ++nM;
    return 0;
}
int __wrap_pthread_mutex_destroy(pthread_mutex_t * m) { (void) m; return 0; }
int __wrap_pthread_cond_init(pthread_cond_t * c, const pthread_condattr_t * a) { (void) a; cidx(c); return 0; }
int __wrap_pthread_cond_destroy(pthread_cond_t * c) { (void) c; return 0; }

int __wrap_pthread_mutex_lock(pthread_mutex_t * m) { request(A_LOCK, midx(m), 0); return 0; }
int __wrap_pthread_mutex_unlock(pthread_mutex_t * m) { request(A_UNLOCK, midx(m), 0); return 0; }
int __wrap_pthread_cond_wait(pthread_cond_t * c, pthread_mutex_t * m) {
    request(A_WAIT, cidx(c), midx(m));     // releases m and starts waiting (one action)
    sync_point();                          // pending A_WAKE: enabled once signalled and m is free
    return 0;
}
int __wrap_pthread_cond_signal(pthread_cond_t * c) { request(A_SIGNAL, cidx(c), 0); return 0; }

static void * trampoline(void * p) {
    int t = (int) (intptr_t) p;
    me = t;
    sem_wait(&T[t].sem);          // first scheduled: perform the pending "start"
    perform(t);
    T[t].fn(T[t].arg);
    request(A_EXIT, 0, 0);
    // finished: pass the baton on for good
    for (;;) {
        int d = decide();
        if (d == -2) break;
        if (d == -1) { now_ns = next_wake() + tick_overshoot + jump_ms * 1000000LL; shim_log("{\"e\":\"Tick\",\"q\":%ld,\"now\":%lld,\"jump\":%lld}", ++seq, (long long) (now_ns / 1000000), (long long) jump_ms); continue; }
        sem_post(&T[d].sem);
        break;
    }
    return NULL;
}

int __wrap_pthread_create(pthread_t * th, const pthread_attr_t * attr, void * (*fn)(void *), void * arg) {
    (void) attr;
    int t = nT++;
    memset(&T[t], 0, sizeof(T[t]));
    T[t].used = 0; T[t].fn = fn; T[t].arg = arg; T[t].pend = A_START; T[t].prio = (int) (rnd() % 1000);   // schedulable once the create is performed
    sem_init(&T[t].sem, 0, 0);
    __real_pthread_create(&T[t].real, NULL, trampoline, (void *) (intptr_t) t);
    *th = (pthread_t) (intptr_t) (t + 1);          // handle = index + 1 (pthread_t is opaque to the library)
    request(A_CREATE, t, 0);
    return 0;
}
int __wrap_pthread_join(pthread_t th, void ** rv) {
    int t = (int) (intptr_t) th - 1;
    if (rv) *rv = NULL;
    if (t < 0 || t >= nT) return ESRCH;
    request(A_JOIN, t, 0);
    return 0;
}
int __wrap_nanosleep(const struct timespec * req, struct timespec * rem) {
    (void) rem;
    T[me].wake = now_ns + (int64_t) req->tv_sec * 1000000000LL + req->tv_nsec;
    request(A_SLEEP, 0, 0);
    sync_point();                 // pending A_SLEPT: enabled when the virtual clock has passed wake
    return 0;
}
int __wrap_clock_gettime(clockid_t id, struct timespec * ts) {
    (void) id;
    int64_t t = 1700000000LL * 1000000000LL + now_ns;
    ts->tv_sec = t / 1000000000LL;
    ts->tv_nsec = t % 1000000000LL;
    return 0;
}

void shim_yield(void) { request(A_YIELD, 0, 0); }

void shim_init(FILE * log, const char * script_text, uint64_t seed, int tick_permille, int64_t overshoot_ms, int64_t step_budget) {
    logf = log;
    script = script_text ? strdup(script_text) : NULL;
    rng = seed * 0x9E3779B97F4A7C15ULL + 0x1234567;
    for (int i = 0; i < 5; ++i) rnd();
    p_tick_permille = tick_permille;
    tick_overshoot = overshoot_ms * 1000000LL;
    if (step_budget > 0) max_steps = step_budget;
    for (int k = 0; k < 8; ++k) change_at[k] = 1 + (int64_t) (rnd() % 400);
    // the calling thread is thread 0
    nT = 1;
    memset(&T[0], 0, sizeof(T[0]));
    T[0].used = 1; T[0].prio = 500;
    sem_init(&T[0].sem, 0, 0);
    me = 0;
}

void shim_policy(int jump_pm, int changes, int span) {
    jump_permille = jump_pm;
    if (changes >= 0 && changes <= 8) pct_changes = changes;
    if (span > 0) for (int k = 0; k < 8; ++k) change_at[k] = 1 + (int64_t) (rnd() % (uint64_t) span);
}
