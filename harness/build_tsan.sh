#!/bin/bash
# Build the real-thread driver of the threaded writer with ThreadSanitizer (property C06): library objects from
# /repo's working tree with the verification hook that shrinks the message queue, plus harness/twr_tsan_drv.c.
# usage: build_tsan.sh <out binary> [queue bytes]
set -e
OUT=$1; Q=${2:-2048}
REPO=${JLS_REPO:-/repo}
D=$(mktemp -d /dev/shm/jlsv.tsan.XXXXXX)
trap 'rm -rf "$D"' EXIT
SRCS="bit_shift buffer datatype copy core crc32c ec log msg_ring_buffer raw tmap reader statistics threaded_writer track wr_fsr wr_ts writer backend_posix"
pids=()
for s in $SRCS; do
  ( clang -std=gnu99 -msse4.2 -I$REPO/include -I$REPO/include_prv -g -O1 -fsanitize=thread -fno-omit-frame-pointer -DJLS_VERIF=1 -DJLS_VERIF_MRB_BUFFER_SIZE=$Q -D__FILENAME__="\"$s.c\"" -c "$REPO/src/$s.c" -o "$D/$s.o" ) &
  pids+=($!)
done
rc=0
for p in "${pids[@]}"; do wait $p || rc=1; done
[ $rc -eq 0 ] || { echo "build failed (tsan)" >&2; exit 2; }
clang -std=gnu99 -O1 -g -fsanitize=thread -fno-omit-frame-pointer -I$REPO/include -I$REPO/include_prv /verif/harness/twr_tsan_drv.c "$D"/*.o -lm -lpthread -o "$OUT" || exit 2
echo "$OUT"
