#!/bin/bash
# Build the misuse driver (property C10): library objects from /repo's working tree with ASan + UBSan and the
# verification hook that shrinks the threaded writer's queue (so that an out-of-range index leaves its block),
# library allocations counted through link-time wraps.
# usage: build_misuse.sh <out binary>
set -e
OUT=$1
/verif/harness/build.sh asan -DJLS_VERIF_MRB_BUFFER_SIZE=262144 >/dev/null
REPO=${JLS_REPO:-/repo}
clang -std=gnu99 -O1 -g -fsanitize=address,undefined -fno-sanitize=alignment -fno-omit-frame-pointer \
  -I$REPO/include -I$REPO/include_prv /verif/harness/misuse_drv.c ${JLS_BUILD_DIR:-/verif/build}/asan/libjls.a \
  -Wl,--wrap=malloc -Wl,--wrap=calloc -Wl,--wrap=realloc -Wl,--wrap=free -lm -lpthread -o "$OUT"
echo "$OUT"
