// Driver for the threaded writer under the cooperative scheduler (C06 / C07).
// usage: twr_drv <program file> <trace out> <jls out> <ref jls out>
// program file (text):
//   cfg seed=<n> tick=<permille> overshoot=<ms> steps=<n> drop=<0|1>
//   script <decisions...>            (optional; tokens 0..7 = thread, T = tick)
//   sig <id> <dtype u8|f32|...>
//   thread <k> <op> <op> ...          ops: F<sig>:<n>  A<sig>  U<sig>  D<len>  O<sig>:<en>  L (flush)
//   close <k>                         which thread closes (0 = main after joining the others)
// Records: Call/Ret per API call, Enq/Deq (queue operations with the lock owners), Apply (what the writer
// thread hands to the synchronous writer, with the lock owners), BkSync/BkClose, Final/Ref dumps.
#define _GNU_SOURCE
#include "sched_shim.h"
#include "jls/threaded_writer.h"
#include "jls/writer.h"
#include "jls/reader.h"
#include "jls/msg_ring_buffer.h"
#include <pthread.h>
#include <stdio.h>
#include <stdlib.h>
#include <string.h>
#include <unistd.h>

void jls_twr_verif_peek(struct jls_twr_s * self, uint64_t * fs, uint64_t * fp, int * quit, uint32_t * h, uint32_t * t, uint32_t * c);

#define MAXOPS 64
struct op { char kind; int sig; int n; };
struct prog { int nops; struct op ops[MAXOPS]; int closes; };
static struct prog P[8];
static int nthreads = 0;           // producer threads 1..nthreads
static int closer = 0;
static struct jls_twr_s * twr = NULL;
static int ref_mode = 0;           // 1: the harness itself writes the reference file
static int sig_bits[256];
static char sig_dt[256][8];
static int64_t next_id[256];       // next sample id per signal (per-signal producer state)
static int anno_ts[256], utc_id[256];

// accepted messages in enqueue order, for the reference run
struct acc { char kind; int sig; int64_t id; int n; int en; };
static struct acc accepted[4096];
static int nacc = 0;
static __thread struct acc cur;    // the call in progress on this thread
static __thread char cur_key[24];  // its label "<kind><thread>.<index>"
struct known { char kind; int sig; int64_t id; char key[24]; int applied; };
static struct known known[4096];
static int nknown = 0;
// accepted messages by content, in enqueue order: the message the writer thread applies carries no call identity,
// so an applied message is attributed to the oldest accepted, not yet applied call with the same content
static void remember(void) { if (nknown < 4096) { known[nknown].kind = cur.kind; known[nknown].sig = cur.sig; known[nknown].id = cur.id; known[nknown].applied = 0; strcpy(known[nknown].key, cur_key); ++nknown; } }
static const char * key_of(char kind, int sig, int64_t id) {
    for (int i = 0; i < nknown; ++i) if (!known[i].applied && known[i].kind == kind && known[i].sig == sig && known[i].id == id) { known[i].applied = 1; return known[i].key; }
    for (int i = 0; i < nknown; ++i) if (known[i].kind == kind && known[i].sig == sig && known[i].id == id) return known[i].key;   // applied again
    return "?";
}

static uint8_t sample_byte(int sig, int64_t id, int i) { return (uint8_t) (sig * 131 + id * 7 + i * 13 + 1); }
static void fill(uint8_t * buf, int sig, int64_t id, int n, int bits) {
    int nbytes = (n * bits + 7) / 8;
    for (int i = 0; i < nbytes; ++i) buf[i] = sample_byte(sig, id, i);
    if (bits == 32 && !strcmp(sig_dt[sig], "f32")) { float * f = (float *) buf; for (int i = 0; i < n; ++i) f[i] = (float) ((id + i) % 1000) * 0.5f; }
}

// ---- observation of the queue and of what reaches the synchronous writer (link-time wraps)
uint8_t * __real_jls_mrb_alloc(struct jls_mrb_s * self, uint32_t size);
uint8_t * __wrap_jls_mrb_alloc(struct jls_mrb_s * self, uint32_t size) {
    uint8_t * p = __real_jls_mrb_alloc(self, size);
    shim_log("{\"e\":\"Enq\",\"t\":%d,\"key\":\"%s\",\"kind\":\"%c\",\"sig\":%d,\"id\":%lld,\"n\":%d,\"size\":%u,\"ok\":%s,\"M\":%d,\"head\":%u,\"tail\":%u,\"count\":%u}",
             shim_self(), cur_key, cur.kind, cur.sig, (long long) cur.id, cur.n, size, p ? "true" : "false", shim_owner("M"), self->head, self->tail, self->count);
    if (p && nacc < 4096) { accepted[nacc++] = cur; remember(); }
    return p;
}
uint8_t * __real_jls_mrb_pop(struct jls_mrb_s * self, uint32_t * size);
uint8_t * __wrap_jls_mrb_pop(struct jls_mrb_s * self, uint32_t * size) {
    uint8_t * p = __real_jls_mrb_pop(self, size);
    shim_log("{\"e\":\"Deq\",\"t\":%d,\"op\":\"pop\",\"got\":%s,\"M\":%d,\"head\":%u,\"tail\":%u,\"count\":%u}", shim_self(), p ? "true" : "false", shim_owner("M"), self->head, self->tail, self->count);
    return p;
}
uint8_t * __real_jls_mrb_peek(struct jls_mrb_s * self, uint32_t * size);
uint8_t * __wrap_jls_mrb_peek(struct jls_mrb_s * self, uint32_t * size) {
    uint8_t * p = __real_jls_mrb_peek(self, size);
    shim_log("{\"e\":\"Deq\",\"t\":%d,\"op\":\"peek\",\"got\":%s,\"M\":%d,\"head\":%u,\"tail\":%u,\"count\":%u}", shim_self(), p ? "true" : "false", shim_owner("M"), self->head, self->tail, self->count);
    return p;
}

static void log_apply(char kind, int sig, int64_t id, int n, int32_t rc, int same) {
    if (ref_mode) return;
    const char * key = (kind == 'L' || kind == 'C' || kind == 'S') ? "-" : key_of(kind, sig, id);
    shim_log("{\"e\":\"Apply\",\"t\":%d,\"key\":\"%s\",\"kind\":\"%c\",\"sig\":%d,\"id\":%lld,\"n\":%d,\"rc\":%d,\"same\":%s,\"P\":%d,\"M\":%d}", shim_self(), key, kind, sig, (long long) id, n, rc, same ? "true" : "false", shim_owner("P"), shim_owner("M"));
}
int32_t __real_jls_wr_fsr(struct jls_wr_s * self, uint16_t signal_id, int64_t sample_id, const void * data, uint32_t data_length);
int32_t __wrap_jls_wr_fsr(struct jls_wr_s * self, uint16_t signal_id, int64_t sample_id, const void * data, uint32_t data_length) {
    // the bytes that reach the writer must be the ones the producer supplied
    int bits = sig_bits[signal_id & 0xff];
    int nbytes = (int) ((data_length * bits + 7) / 8);
    int same = 1;
    uint8_t * exp = malloc(nbytes + 8);
    fill(exp, signal_id, sample_id, (int) data_length, bits);
    if (memcmp(exp, data, nbytes)) same = 0;
    free(exp);
    int32_t rc = __real_jls_wr_fsr(self, signal_id, sample_id, data, data_length);
    log_apply('F', signal_id, sample_id, (int) data_length, rc, same);
    return rc;
}
int32_t __real_jls_wr_annotation(struct jls_wr_s * self, uint16_t signal_id, int64_t timestamp, float y, enum jls_annotation_type_e at, uint8_t g, enum jls_storage_type_e st, const uint8_t * data, uint32_t sz);
int32_t __wrap_jls_wr_annotation(struct jls_wr_s * self, uint16_t signal_id, int64_t timestamp, float y, enum jls_annotation_type_e at, uint8_t g, enum jls_storage_type_e st, const uint8_t * data, uint32_t sz) {
    char want[32];
    snprintf(want, sizeof(want), "anno-%d-%lld", signal_id, (long long) timestamp);
    int same = data && !strcmp((const char *) data, want);
    int32_t rc = __real_jls_wr_annotation(self, signal_id, timestamp, y, at, g, st, data, sz);
    log_apply('A', signal_id, timestamp, 0, rc, same);
    return rc;
}
int32_t __real_jls_wr_utc(struct jls_wr_s * self, uint16_t signal_id, int64_t sample_id, int64_t utc);
int32_t __wrap_jls_wr_utc(struct jls_wr_s * self, uint16_t signal_id, int64_t sample_id, int64_t utc) {
    int32_t rc = __real_jls_wr_utc(self, signal_id, sample_id, utc);
    log_apply('U', signal_id, sample_id, 0, rc, utc == sample_id * 1000 + 7);
    return rc;
}
int32_t __real_jls_wr_user_data(struct jls_wr_s * self, uint16_t meta, enum jls_storage_type_e st, const uint8_t * data, uint32_t sz);
int32_t __wrap_jls_wr_user_data(struct jls_wr_s * self, uint16_t meta, enum jls_storage_type_e st, const uint8_t * data, uint32_t sz) {
    int same = 1;
    for (uint32_t i = 0; i < sz; ++i) if (data[i] != sample_byte(0, meta, (int) i)) same = 0;
    int32_t rc = __real_jls_wr_user_data(self, meta, st, data, sz);
    if (st != JLS_STORAGE_TYPE_INVALID) log_apply('D', 0, meta, (int) sz, rc, same);
    return rc;
}
int32_t __real_jls_wr_fsr_omit_data(struct jls_wr_s * self, uint16_t signal_id, uint32_t enable);
int32_t __wrap_jls_wr_fsr_omit_data(struct jls_wr_s * self, uint16_t signal_id, uint32_t enable) {
    int32_t rc = __real_jls_wr_fsr_omit_data(self, signal_id, enable);
    log_apply('O', signal_id, enable, 0, rc, 1);
    return rc;
}
int32_t __real_jls_wr_flush(struct jls_wr_s * self);
int32_t __wrap_jls_wr_flush(struct jls_wr_s * self) {
    int32_t rc = __real_jls_wr_flush(self);
    log_apply('L', 0, 0, 0, rc, 1);
    return rc;
}
int32_t __real_jls_wr_close(struct jls_wr_s * self);
int32_t __wrap_jls_wr_close(struct jls_wr_s * self) {
    int32_t rc = __real_jls_wr_close(self);
    log_apply('C', 0, 0, 0, rc, 1);
    return rc;
}
int32_t __real_jls_wr_signal_def(struct jls_wr_s * self, const struct jls_signal_def_s * signal);
int32_t __wrap_jls_wr_signal_def(struct jls_wr_s * self, const struct jls_signal_def_s * signal) {
    int32_t rc = __real_jls_wr_signal_def(self, signal);
    if (signal->signal_id) log_apply('S', signal->signal_id, 0, 0, rc, 1);
    return rc;
}

// ---- producers
static __thread int ud_local = 0;
static void do_op(int c, struct op * o) {
    int t = shim_self();
    snprintf(cur_key, sizeof(cur_key), "%c%d.%d", o->kind, t, c);
    shim_label(cur_key);
    int32_t rc = 0;
    memset(&cur, 0, sizeof(cur));
    cur.kind = o->kind; cur.sig = o->sig;
    switch (o->kind) {
        case 'F': cur.id = next_id[o->sig]; cur.n = o->n; next_id[o->sig] += o->n; break;   // the producer moves on whether or not the call is accepted (a drop leaves a gap)
        case 'A': cur.id = ++anno_ts[o->sig]; break;
        case 'U': cur.id = (utc_id[o->sig] += 10); break;
        case 'D': cur.id = 100 * t + (++ud_local); cur.n = o->n; break;
        case 'O': cur.id = o->n; cur.en = o->n; break;
        case 'X': cur.id = o->sig; break;
        default: break;
    }
    shim_log("{\"e\":\"Call\",\"t\":%d,\"key\":\"%s\",\"kind\":\"%c\",\"sig\":%d,\"id\":%lld,\"n\":%d}", t, cur_key, o->kind, o->sig, (long long) cur.id, cur.n);
    switch (o->kind) {
        case 'F': {
            uint8_t * buf = malloc((o->n * sig_bits[o->sig] + 7) / 8 + 8);
            fill(buf, o->sig, cur.id, o->n, sig_bits[o->sig]);
            rc = jls_twr_fsr(twr, (uint16_t) o->sig, cur.id, buf, (uint32_t) o->n);
            memset(buf, 0xEE, (o->n * sig_bits[o->sig] + 7) / 8);      // the caller's buffer is the caller's again
            free(buf);
            break;
        }
        case 'A': {
            char txt[32];
            snprintf(txt, sizeof(txt), "anno-%d-%lld", o->sig, (long long) cur.id);
            rc = jls_twr_annotation(twr, (uint16_t) o->sig, cur.id, 1.0f, JLS_ANNOTATION_TYPE_TEXT, 0, JLS_STORAGE_TYPE_STRING, (const uint8_t *) txt, 0);
            memset(txt, 0, sizeof(txt));
            break;
        }
        case 'U': rc = jls_twr_utc(twr, (uint16_t) o->sig, cur.id, cur.id * 1000 + 7); break;
        case 'D': {
            uint8_t * buf = malloc(o->n + 8);
            for (int i = 0; i < o->n; ++i) buf[i] = sample_byte(0, cur.id, i);
            rc = jls_twr_user_data(twr, (uint16_t) cur.id, JLS_STORAGE_TYPE_BINARY, buf, (uint32_t) o->n);
            free(buf);
            break;
        }
        case 'O': rc = jls_twr_fsr_omit_data(twr, (uint16_t) o->sig, (uint32_t) o->n); break;
        case 'L': rc = jls_twr_flush(twr); break;
        case 'X': {
            // a definition that must be refused (the signal exists): returns an error, changes nothing
            struct jls_signal_def_s d = {.signal_id = (uint16_t) o->sig, .source_id = 1, .signal_type = JLS_SIGNAL_TYPE_FSR, .data_type = JLS_DATATYPE_F64,
                .sample_rate = 1000, .samples_per_data = 64, .sample_decimate_factor = 32, .entries_per_summary = 10, .summary_decimate_factor = 10,
                .annotation_decimate_factor = 10, .utc_decimate_factor = 10, .name = "dup", .units = "u"};
            rc = jls_twr_signal_def(twr, &d);
            break;
        }
        default: break;
    }
    uint64_t fs = 0, fp = 0; int quit = 0; uint32_t h = 0, tl = 0, cn = 0;
    jls_twr_verif_peek(twr, &fs, &fp, &quit, &h, &tl, &cn);
    shim_log("{\"e\":\"Ret\",\"t\":%d,\"key\":\"%s\",\"kind\":\"%c\",\"rc\":%d,\"fs\":%llu,\"fp\":%llu}", t, cur_key, o->kind, rc, (unsigned long long) fs, (unsigned long long) fp);
}

static void do_close(void) {
    int t = shim_self();
    snprintf(cur_key, sizeof(cur_key), "C%d.99", t);
    shim_label(cur_key);
    memset(&cur, 0, sizeof(cur));
    cur.kind = 'C';
    shim_log("{\"e\":\"Call\",\"t\":%d,\"key\":\"%s\",\"kind\":\"C\",\"sig\":0,\"id\":0,\"n\":0}", t, cur_key);
    int32_t rc = jls_twr_close(twr);
    shim_log("{\"e\":\"Ret\",\"t\":%d,\"key\":\"%s\",\"kind\":\"C\",\"rc\":%d,\"fs\":0,\"fp\":0}", t, cur_key, rc);
}

static void * producer(void * arg) {
    int k = (int) (intptr_t) arg;
    for (int c = 0; c < P[k].nops; ++c) do_op(c, &P[k].ops[c]);
    if (closer == k) do_close();
    return NULL;
}

// ---- content dump through the reader (length + hash per signal, annotations, UTC, user data)
static uint64_t hsh;
static void hmix(const void * p, size_t n) { const uint8_t * b = p; for (size_t i = 0; i < n; ++i) { hsh ^= b[i]; hsh *= 1099511628211ULL; } }
static int32_t on_anno(void * u, const struct jls_annotation_s * a) { (void) u; hmix(&a->timestamp, 8); hmix(a->data, a->data_size); return 0; }
static int32_t on_utc(void * u, const struct jls_utc_summary_entry_s * e, uint32_t n) { (void) u; hmix(e, n * sizeof(*e)); return 0; }
static int32_t on_ud(void * u, uint16_t meta, enum jls_storage_type_e st, uint8_t * d, uint32_t n) { (void) u; (void) st; hmix(&meta, 2); hmix(d, n); return 0; }
static void dump(const char * path, const char * ev) {
    struct jls_rd_s * rd = NULL;
    int32_t rc = jls_rd_open(&rd, path);
    char out[2048];
    size_t k = 0;
    k += snprintf(out + k, sizeof(out) - k, "rc=%d", rc);
    if (!rc) {
        for (int g = 1; g < 256; ++g) {
            if (!sig_bits[g]) continue;
            int64_t len = -1;
            int32_t lrc = jls_rd_fsr_length(rd, (uint16_t) g, &len);
            hsh = 1469598103934665603ULL;
            if (!lrc && len > 0) {
                uint8_t * buf = calloc(1, (size_t) ((len * sig_bits[g] + 7) / 8) + 16);
                int32_t rrc = jls_rd_fsr(rd, (uint16_t) g, 0, buf, len);
                hmix(&rrc, 4);
                hmix(buf, (size_t) ((len * sig_bits[g]) / 8));
                free(buf);
            }
            jls_rd_annotations(rd, (uint16_t) g, -1000000, on_anno, NULL);
            jls_rd_utc(rd, (uint16_t) g, -1000000, on_utc, NULL);
            k += snprintf(out + k, sizeof(out) - k, ";s%d:%d:%lld:%016llx", g, lrc, (long long) len, (unsigned long long) hsh);
        }
        hsh = 1469598103934665603ULL;
        jls_rd_user_data(rd, on_ud, NULL);
        k += snprintf(out + k, sizeof(out) - k, ";ud:%016llx", (unsigned long long) hsh);
        jls_rd_close(rd);
    }
    shim_log("{\"e\":\"%s\",\"dump\":\"%s\"}", ev, out);
}

int main(int argc, char ** argv) {
    if (argc < 5) return 2;
    FILE * pf = fopen(argv[1], "r");
    FILE * lf = fopen(argv[2], "w");
    if (!pf || !lf) return 2;
    unsigned long long seed = 1; int tick = 30, drop = 0, jump = 0, pct = 3, span = 400; long long overshoot = 0, steps = 200000;
    char * script = NULL;
    char line[8192];
    int sigs[16], nsig = 0;
    while (fgets(line, sizeof(line), pf)) {
        if (!strncmp(line, "cfg", 3)) {
            char * p;
            if ((p = strstr(line, "seed="))) seed = strtoull(p + 5, 0, 10);
            if ((p = strstr(line, "tick="))) tick = atoi(p + 5);
            if ((p = strstr(line, "overshoot="))) overshoot = atoll(p + 10);
            if ((p = strstr(line, "steps="))) steps = atoll(p + 6);
            if ((p = strstr(line, "drop="))) drop = atoi(p + 5);
            if ((p = strstr(line, "jump="))) jump = atoi(p + 5);
            if ((p = strstr(line, "pct="))) pct = atoi(p + 4);
            if ((p = strstr(line, "span="))) span = atoi(p + 5);
        } else if (!strncmp(line, "script", 6)) {
            script = strdup(line + 6);
        } else if (!strncmp(line, "sig", 3)) {
            int g; char dt[8];
            if (sscanf(line + 3, "%d %7s", &g, dt) == 2) {
                strcpy(sig_dt[g], dt);
                sig_bits[g] = !strcmp(dt, "u1") ? 1 : !strcmp(dt, "u4") ? 4 : !strcmp(dt, "u8") ? 8 : !strcmp(dt, "u16") ? 16 : !strcmp(dt, "f64") ? 64 : 32;
                sigs[nsig++] = g;
            }
        } else if (!strncmp(line, "thread", 6)) {
            int t = atoi(line + 6);
            if (t > nthreads) nthreads = t;
            char * tok = strtok(line + 8, " \n");
            while (tok && P[t].nops < MAXOPS) {
                struct op * o = &P[t].ops[P[t].nops++];
                o->kind = tok[0];
                o->sig = 0; o->n = 0;
                sscanf(tok + 1, "%d:%d", &o->sig, &o->n);
                if (o->kind == 'D') { o->n = o->sig; o->sig = 0; }
                tok = strtok(NULL, " \n");
            }
        } else if (!strncmp(line, "close", 5)) {
            closer = atoi(line + 5);
        }
    }
    fclose(pf);
    shim_init(lf, script, seed, tick, overshoot, steps);
    shim_policy(jump, pct, span);
    shim_label("open");
    shim_log("{\"e\":\"Reset\",\"seed\":%llu,\"drop\":%d,\"threads\":%d}", seed, drop, nthreads);
    if (jls_twr_open(&twr, argv[3])) { shim_log("{\"e\":\"OpenFailed\"}"); return 2; }
    if (drop) jls_twr_flags_set(twr, JLS_TWR_FLAG_DROP_ON_OVERFLOW);
    struct jls_source_def_s src = {.source_id = 1, .name = "s", .vendor = "v", .model = "m", .version = "1", .serial_number = "1"};
    jls_twr_source_def(twr, &src);
    for (int i = 0; i < nsig; ++i) {
        int g = sigs[i];
        struct jls_signal_def_s d = {.signal_id = (uint16_t) g, .source_id = 1, .signal_type = JLS_SIGNAL_TYPE_FSR,
            .data_type = !strcmp(sig_dt[g], "u1") ? JLS_DATATYPE_U1 : !strcmp(sig_dt[g], "u4") ? JLS_DATATYPE_U4 : !strcmp(sig_dt[g], "u8") ? JLS_DATATYPE_U8 :
                         !strcmp(sig_dt[g], "u16") ? JLS_DATATYPE_U16 : !strcmp(sig_dt[g], "f64") ? JLS_DATATYPE_F64 : !strcmp(sig_dt[g], "f32") ? JLS_DATATYPE_F32 : JLS_DATATYPE_U32,
            .sample_rate = 1000, .samples_per_data = 64, .sample_decimate_factor = 32, .entries_per_summary = 10, .summary_decimate_factor = 10,
            .annotation_decimate_factor = 10, .utc_decimate_factor = 10, .name = "x", .units = "u"};
        shim_label("sigdef");
        jls_twr_signal_def(twr, &d);
    }
    pthread_t th[8];
    for (int t = 1; t <= nthreads; ++t) pthread_create(&th[t], NULL, producer, (void *) (intptr_t) t);
    for (int t = 1; t <= nthreads; ++t) pthread_join(th[t], NULL);
    if (closer == 0) do_close();
    shim_log("{\"e\":\"AllDone\"}");
    // content of the produced file vs. the synchronous writer fed with the accepted calls in enqueue order
    ref_mode = 1;
    dump(argv[3], "Final");
    struct jls_wr_s * wr = NULL;
    if (!jls_wr_open(&wr, argv[4])) {
        jls_wr_source_def(wr, &src);
        for (int i = 0; i < nsig; ++i) {
            int g = sigs[i];
            struct jls_signal_def_s d = {.signal_id = (uint16_t) g, .source_id = 1, .signal_type = JLS_SIGNAL_TYPE_FSR,
                .data_type = !strcmp(sig_dt[g], "u1") ? JLS_DATATYPE_U1 : !strcmp(sig_dt[g], "u4") ? JLS_DATATYPE_U4 : !strcmp(sig_dt[g], "u8") ? JLS_DATATYPE_U8 :
                             !strcmp(sig_dt[g], "u16") ? JLS_DATATYPE_U16 : !strcmp(sig_dt[g], "f64") ? JLS_DATATYPE_F64 : !strcmp(sig_dt[g], "f32") ? JLS_DATATYPE_F32 : JLS_DATATYPE_U32,
                .sample_rate = 1000, .samples_per_data = 64, .sample_decimate_factor = 32, .entries_per_summary = 10, .summary_decimate_factor = 10,
                .annotation_decimate_factor = 10, .utc_decimate_factor = 10, .name = "x", .units = "u"};
            jls_wr_signal_def(wr, &d);
        }
        for (int i = 0; i < nacc; ++i) {
            struct acc * a = &accepted[i];
            if (a->kind == 'F') {
                uint8_t * buf = malloc((a->n * sig_bits[a->sig] + 7) / 8 + 8);
                fill(buf, a->sig, a->id, a->n, sig_bits[a->sig]);
                jls_wr_fsr(wr, (uint16_t) a->sig, a->id, buf, (uint32_t) a->n);
                free(buf);
            } else if (a->kind == 'A') {
                char txt[32];
                snprintf(txt, sizeof(txt), "anno-%d-%lld", a->sig, (long long) a->id);
                jls_wr_annotation(wr, (uint16_t) a->sig, a->id, 1.0f, JLS_ANNOTATION_TYPE_TEXT, 0, JLS_STORAGE_TYPE_STRING, (const uint8_t *) txt, 0);
            } else if (a->kind == 'U') {
                jls_wr_utc(wr, (uint16_t) a->sig, a->id, a->id * 1000 + 7);
            } else if (a->kind == 'D') {
                uint8_t * buf = malloc(a->n + 8);
                for (int k = 0; k < a->n; ++k) buf[k] = sample_byte(0, a->id, k);
                jls_wr_user_data(wr, (uint16_t) a->id, JLS_STORAGE_TYPE_BINARY, buf, (uint32_t) a->n);
                free(buf);
            } else if (a->kind == 'O') {
                jls_wr_fsr_omit_data(wr, (uint16_t) a->sig, (uint32_t) a->en);
            }
        }
        jls_wr_close(wr);
        dump(argv[4], "Ref");
    }
    fclose(lf);
    return 0;
}
