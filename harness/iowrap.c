// Link-time interposition (-Wl,--wrap=...) of the libc I/O calls made by the
// library's backend_posix.o.  Records every open/close/write/ftruncate/fsync in
// an in-memory log that the driver reads through iow_*; no source hook needed.
// Recording only: the real call is always performed, with its real result.
#define _GNU_SOURCE
#include <stdint.h>
#include <stdlib.h>
#include <string.h>
#include <stdarg.h>
#include <fcntl.h>
#include <unistd.h>
#include <pthread.h>
#include <sys/types.h>
#include <sys/stat.h>

int __real_open(const char * path, int flags, ...);
int __real_close(int fd);
ssize_t __real_write(int fd, const void * buf, size_t n);
ssize_t __real_read(int fd, void * buf, size_t n);
off_t __real_lseek(int fd, off_t off, int whence);
int __real_ftruncate(int fd, off_t len);
int __real_fsync(int fd);

enum { IOW_OPEN = 1, IOW_CLOSE = 2, IOW_WRITE = 3, IOW_TRUNC = 4, IOW_SYNC = 5 };

struct iow_entry {
    int32_t kind;
    int32_t fd;
    int64_t off;        // WRITE: file offset; TRUNC: new length; OPEN: flags
    int64_t len;        // WRITE: bytes actually written; OPEN: 1 if writable
    int64_t size_before;// file size before the operation
    int64_t mark;       // value of the driver's marker when recorded (API call number)
    uint8_t * data;     // WRITE: copy of the bytes; OPEN: copy of the path
};

static struct iow_entry * g_log = NULL;
static int64_t g_count = 0, g_alloc = 0;
static int g_enable = 0;
static int64_t g_mark = 0;
static int64_t g_reads = 0;
static int64_t g_fail_after = -1;   // fault injection: writes allowed before failing (-1 = off)
static pthread_mutex_t g_mu = PTHREAD_MUTEX_INITIALIZER;

static struct iow_entry * push(void) {
    if (g_count >= g_alloc) {
        g_alloc = g_alloc ? g_alloc * 2 : 4096;
        g_log = realloc(g_log, g_alloc * sizeof(*g_log));
    }
    struct iow_entry * e = &g_log[g_count++];
    memset(e, 0, sizeof(*e));
    e->mark = g_mark;
    return e;
}

static int64_t fsize(int fd) {
    struct stat st;
    if (fstat(fd, &st)) return -1;
    return (int64_t) st.st_size;
}

void iow_enable(int on) { g_enable = on; }
void iow_mark(int64_t m) { g_mark = m; }
int64_t iow_count(void) { return g_count; }
int64_t iow_reads(void) { return g_reads; }
void iow_fail_after(int64_t n) { g_fail_after = n; }
struct iow_entry * iow_get(int64_t i) { return (i >= 0 && i < g_count) ? &g_log[i] : NULL; }
void iow_clear(void) {
    pthread_mutex_lock(&g_mu);
    for (int64_t i = 0; i < g_count; ++i) free(g_log[i].data);
    g_count = 0;
    g_reads = 0;
    pthread_mutex_unlock(&g_mu);
}

int __wrap_open(const char * path, int flags, ...) {
    mode_t mode = 0;
    if (flags & O_CREAT) {
        va_list ap; va_start(ap, flags); mode = (mode_t) va_arg(ap, int); va_end(ap);
    }
    int fd = __real_open(path, flags, mode);
    if (g_enable) {
        pthread_mutex_lock(&g_mu);
        struct iow_entry * e = push();
        e->kind = IOW_OPEN; e->fd = fd; e->off = flags;
        e->len = ((flags & O_ACCMODE) != O_RDONLY) ? 1 : 0;
        e->size_before = (fd >= 0) ? fsize(fd) : -1;
        e->data = (uint8_t *) strdup(path);
        pthread_mutex_unlock(&g_mu);
    }
    return fd;
}

int __wrap_close(int fd) {
    if (g_enable) {
        pthread_mutex_lock(&g_mu);
        struct iow_entry * e = push();
        e->kind = IOW_CLOSE; e->fd = fd; e->size_before = fsize(fd);
        pthread_mutex_unlock(&g_mu);
    }
    return __real_close(fd);
}

ssize_t __wrap_write(int fd, const void * buf, size_t n) {
    if (!g_enable) return __real_write(fd, buf, n);
    pthread_mutex_lock(&g_mu);
    int64_t off = (int64_t) __real_lseek(fd, 0, SEEK_CUR);
    int64_t sz = fsize(fd);
    ssize_t rv = __real_write(fd, buf, n);
    struct iow_entry * e = push();
    e->kind = IOW_WRITE; e->fd = fd; e->off = off; e->len = rv; e->size_before = sz;
    if (rv > 0) { e->data = malloc((size_t) rv); memcpy(e->data, buf, (size_t) rv); }
    pthread_mutex_unlock(&g_mu);
    return rv;
}

ssize_t __wrap_read(int fd, void * buf, size_t n) {
    if (g_enable) ++g_reads;
    return __real_read(fd, buf, n);
}

off_t __wrap_lseek(int fd, off_t off, int whence) {
    return __real_lseek(fd, off, whence);
}

int __wrap_ftruncate(int fd, off_t len) {
    if (g_enable) {
        pthread_mutex_lock(&g_mu);
        struct iow_entry * e = push();
        e->kind = IOW_TRUNC; e->fd = fd; e->off = (int64_t) len; e->size_before = fsize(fd);
        pthread_mutex_unlock(&g_mu);
    }
    return __real_ftruncate(fd, len);
}

int __wrap_fsync(int fd) {
    if (g_enable) {
        pthread_mutex_lock(&g_mu);
        struct iow_entry * e = push();
        e->kind = IOW_SYNC; e->fd = fd; e->size_before = fsize(fd);
        pthread_mutex_unlock(&g_mu);
    }
    return __real_fsync(fd);
}
