#!/bin/bash
# Build the library objects from /repo's *current working tree* into
# $JLS_BUILD_DIR/<flavour>/ (default /verif/build; every check run uses a private directory so that concurrent
# runs - possibly on different trees - cannot see each other's objects).  Flavours:
#   plain   gcc -O1, no hooks            (API drivers, crash images, corruption)
#   verif   gcc -O1 -DJLS_VERIF          (hooks on: small ring buffer for twr)
#   asan    clang -fsanitize=address,undefined (misuse / bounds)
#   crcsw   only crc32c.c with -DJLS_OPTIMIZE_CRC_DISABLE, symbols renamed *_sw
# usage: build.sh <flavour> [extra -D flags...]
set -e
FLAV=${1:-plain}; shift || true
REPO=${JLS_REPO:-/repo}
OUT=${JLS_BUILD_DIR:-/verif/build}/$FLAV
mkdir -p "$OUT"
SRCS="bit_shift buffer datatype copy core crc32c ec log msg_ring_buffer raw tmap reader statistics threaded_writer track wr_fsr wr_ts writer backend_posix"
COMMON="-std=gnu99 -msse4.2 -I$REPO/include -I$REPO/include_prv -g -fno-omit-frame-pointer"
case "$FLAV" in
  plain) CC=gcc;   FLAGS="-O1" ;;
  verif) CC=gcc;   FLAGS="-O1 -DJLS_VERIF=1" ;;
  asan)  CC=clang; FLAGS="-O1 -fsanitize=address,undefined -fno-sanitize-recover=undefined -fno-sanitize=alignment -DJLS_VERIF=1" ;;
  crcsw) CC=gcc;   FLAGS="-O1 -DJLS_OPTIMIZE_CRC_DISABLE=1"; SRCS="crc32c" ;;
  so)    CC=gcc;   FLAGS="-O1 -fPIC" ;;
  sov)   CC=gcc;   FLAGS="-O1 -fPIC -DJLS_VERIF=1" ;;
  *) echo "unknown flavour $FLAV" >&2; exit 2 ;;
esac
pids=()
for s in $SRCS; do
  ( $CC $COMMON $FLAGS "$@" -D__FILENAME__="\"$s.c\"" -c "$REPO/src/$s.c" -o "$OUT/$s.o" ) &
  pids+=($!)
done
rc=0
for p in "${pids[@]}"; do wait $p || rc=1; done
[ $rc -eq 0 ] || { echo "build failed ($FLAV)" >&2; exit 2; }
if [ "$FLAV" = crcsw ]; then
  objcopy --redefine-sym jls_crc32c=jls_crc32c_sw --redefine-sym jls_crc32c_hdr=jls_crc32c_hdr_sw "$OUT/crc32c.o"
fi
if [ "$FLAV" = so ] || [ "$FLAV" = sov ]; then
  gcc -O1 -g -fPIC -c /verif/harness/iowrap.c -o "$OUT/iowrap.o" || exit 2
  gcc -shared -o "$OUT/libjlsv.so" "$OUT"/*.o \
     -Wl,--wrap=open -Wl,--wrap=close -Wl,--wrap=write -Wl,--wrap=read -Wl,--wrap=lseek \
     -Wl,--wrap=ftruncate -Wl,--wrap=fsync -lm -lpthread || exit 2
  rm -f "$OUT/iowrap.o"
fi
rm -f "$OUT/libjls.a"
ar rcs "$OUT/libjls.a" "$OUT"/*.o
echo "$OUT"
