#!/bin/bash
# Build the threaded-writer driver: library objects from /repo's working tree with the verification hooks on and a
# small message queue, linked with the cooperative scheduler (every pthread / sleep / clock call of the library
# objects is interposed at link time) and the observation wraps of the queue and of the synchronous writer.
# usage: build_twr.sh <out binary> [queue bytes]
set -e
OUT=$1; Q=${2:-256}
REPO=${JLS_REPO:-/repo}
D=$(mktemp -d /dev/shm/jlsv.twr.XXXXXX)
trap 'rm -rf "$D"' EXIT
SRCS="bit_shift buffer datatype copy core crc32c ec log msg_ring_buffer raw tmap reader statistics threaded_writer track wr_fsr wr_ts writer backend_posix"
pids=()
for s in $SRCS; do
  ( gcc -std=gnu99 -msse4.2 -I$REPO/include -I$REPO/include_prv -g -O1 -DJLS_VERIF=1 -DJLS_VERIF_MRB_BUFFER_SIZE=$Q -D__FILENAME__="\"$s.c\"" -c "$REPO/src/$s.c" -o "$D/$s.o" ) &
  pids+=($!)
done
rc=0
for p in "${pids[@]}"; do wait $p || rc=1; done
[ $rc -eq 0 ] || { echo "build failed (twr)" >&2; exit 2; }
W=""
for f in pthread_mutex_init pthread_mutex_destroy pthread_mutex_lock pthread_mutex_unlock pthread_cond_init pthread_cond_destroy pthread_cond_wait pthread_cond_signal pthread_create pthread_join nanosleep clock_gettime \
         jls_mrb_alloc jls_mrb_pop jls_mrb_peek jls_wr_fsr jls_wr_annotation jls_wr_utc jls_wr_user_data jls_wr_fsr_omit_data jls_wr_flush jls_wr_close jls_wr_signal_def; do
  W="$W -Wl,--wrap=$f"
done
gcc -std=gnu99 -O1 -g -I$REPO/include -I$REPO/include_prv -I/verif/harness /verif/harness/twr_drv.c /verif/harness/sched_shim.c "$D"/*.o $W -lm -lpthread -o "$OUT" || exit 2
echo "$OUT"
