// Access to the slicing-by-8 tables of src/crc32c_sw.c for the C18 check: the
// translation unit is compiled a second time with its public symbols renamed.
#define jls_crc32c jls_crc32c_tabunit
#define jls_crc32c_hdr jls_crc32c_hdr_tabunit
#include "crc32c_sw.c"
const uint32_t * verif_crc_table(int k) {
    switch (k) {
        case 0: return crc_tableil8_o32; case 1: return crc_tableil8_o40; case 2: return crc_tableil8_o48;
        case 3: return crc_tableil8_o56; case 4: return crc_tableil8_o64; case 5: return crc_tableil8_o72;
        case 6: return crc_tableil8_o80; case 7: return crc_tableil8_o88; default: return 0;
    }
}
